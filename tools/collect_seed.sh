#!/bin/sh
# collect_seed.sh <Cxx> <worktree>: stage the seed_out/<i> directories of a finished sub-agent under seeded_staging/<Cxx>/<next n>, remove the worktree
p=$1; wt=$2
for d in "$wt"/seed_out/*/; do
  [ -f "$d/patch.diff" ] || continue
  n=1; while [ -e /verif/seeded_staging/$p/$n ]; do n=$((n+1)); done
  mkdir -p /verif/seeded_staging/$p/$n
  cp "$d"/* /verif/seeded_staging/$p/$n/
  echo "staged $p/$n from $d"
done
git -C /repo worktree remove --force "$wt" && git -C /repo worktree prune
