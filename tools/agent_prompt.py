#!/usr/bin/env python3
"""Print the prompt given to an independent sub-agent for seeding a breaking change."""
import json, sys
pid = sys.argv[1]
n = sys.argv[2] if len(sys.argv) > 2 else '2'
wt = sys.argv[3] if len(sys.argv) > 3 else f'/tmp/wt_{pid}'
for l in open('/verif/properties.jsonl'):
    p = json.loads(l)
    if p['id'] == pid:
        break
print(f"""You are helping test a verification effort by producing realistic *property-breaking* code changes to a Python project (habutax, a US income tax calculator: per-field form definitions for 2021-2023 evaluated by a generic dependency solver, INI inputs, PDF filling).

Your scratch git worktree of the project is at {wt} (work ONLY there; never touch /repo or /verif; do not read anything under /verif). Python with the project's deps: run with `cd {wt} && PYTHONPATH={wt} /venv/bin/python ...`. The existing test suite is run with: `cd {wt} && PYTHONPATH={wt} /venv/bin/python -m pytest -q -p no:cacheprovider tests 2>&1 | tail -5` (55 tests pass on the unchanged tree; 4 collection errors in tests/ty2023 are pre-existing and expected — they must stay exactly as they are). There is no network.

The semantic property to break:

ID: {p['id']}
Title: {p['title']}
Statement: {p['statement']}
Quantified over: {p['quantifier']['text']}
Code it is anchored in: {', '.join(p['anchors']['files'])}
Mechanisms meant to make it hold: {json.dumps(p['anchors']['mechanism'])}

Task: produce {n} DIFFERENT, independent changes to the habutax source (under {wt}/habutax only; do not edit tests) such that each change
  (a) still imports/compiles, and the existing test suite gives exactly the same result as before (55 passed, same 4 pre-existing collection errors),
  (b) genuinely breaks the property above (not some other behaviour), and
  (c) needs something specific to manifest — an unusual input, a rare branch, a particular order of solver attempts, a multi-step sequence of operations, a fault/interrupt at a particular point, or two cooperating edits that each look fine alone — i.e. NOT something ordinary use or a casual smoke test would expose at once. Make them look like plausible maintenance mistakes or refactors (1-15 changed lines each), in different functions/files where possible.

For each change i (i = 1..{n}) write into {wt}/seed_out/<i>/ :
  - patch.diff : `git diff` of ONLY that change against the unchanged tree (so it applies with `git apply` to a clean checkout),
  - demo.py : a small standalone program (run as `PYTHONPATH=<tree> /venv/bin/python demo.py`) that exits 0 on the unchanged tree and exits non-zero (failed assertion with a clear message) with the change applied; it must exercise the real habutax code, demonstrating the property violation,
  - notes.md : 3-6 lines: what the change does, why it breaks the property, what it needs in order to manifest.
Verify each yourself: apply the patch alone on a clean tree, run the test suite (same result), run demo.py (fails); then revert (`git checkout -- habutax`), run demo.py (passes). Leave the worktree clean (no modifications under habutax/) when you finish; keep only seed_out/.

Finish with a brief report listing, per change, the file/function touched and one line on how it manifests.""")
