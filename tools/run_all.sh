#!/bin/sh
# run every registered quick check on /repo, print one line per property
cd "$(dirname "$0")/.." || exit 3
TIER="${1:-quick}"
for p in C01 C02 C03 C04 C05 C06 C07 C08 C09 C10 C11 C12 C13 C14 C15 C16 C17 C18 C19 C20; do
  out=$(./check $p --tier "$TIER" 2>&1); rc=$?
  echo "$p exit=$rc $(echo "$out" | grep "^$p:" | tail -1)"
done
