#!/usr/bin/env python3
"""One-off: list candidate gate inputs (boolean inputs whose affirmative value makes every path of some line raise FieldNotImplemented)."""
import sys, json, warnings
warnings.simplefilter('ignore')
sys.path.insert(0, '/verif')
import z3
from pyvc import extract as X, linevc, sym, smt
X.setup_path()
out = {}
for year in X.YEARS:
    cat = linevc.Cat.get(year)
    gates = {}
    for f, fld in X.all_lines(year):
        paths = linevc.explore_line(year, fld)
        syms = {}
        for p in paths:
            for acc, shown, t in getattr(p, 'readlog', []):
                if acc == 'i' and z3.is_bool(t) and z3.is_const(t):
                    syms[shown] = t
        for name, t in syms.items():
            for pol in (True, False):
                lit = t if pol else z3.Not(t)
                feas = [p for p in paths if smt.satisfiable(p.conds + [lit]) == z3.sat]
                other = [p for p in paths if smt.satisfiable(p.conds + [z3.Not(lit)]) == z3.sat]
                def ni(p): return p.outcome[0] == 'raise' and type(p.outcome[1]).__name__ == 'FieldNotImplemented'
                if feas and all(ni(p) for p in feas) and any(not ni(p) for p in other):
                    gates.setdefault((name, pol), []).append(fld.name())
    out[year] = gates
    for (name, pol), lines in sorted(gates.items()):
        spec = cat.inputs.get(name)
        print(year, name, pol, lines[:4], '|', (spec.help()[:110] if spec else ''))
if '--write' in sys.argv:
    from habutax import inputs as I
    doc = {'_comment': 'Frozen gate table for C09. Seeded from the tree by tools/seed_gates.py, reviewed against the description text of each input, then frozen: the check never regenerates it. gates: boolean inputs whose listed answer declares a situation HabuTax does not compute. non_gates: every other boolean input (a new input must be classified).',
           'gates': {}, 'non_gates': {}, 'companions': {}}
    for year in X.YEARS:
        cat = linevc.Cat.get(year)
        gl = []
        for (name, pol), lines in sorted(out[year].items()):
            spec = cat.inputs.get(name)
            gl.append({'input': name, 'polarity': pol, 'text': spec.help()[:160] if spec else '', 'seeded_from': lines[:6]})
        doc['gates'][str(year)] = gl
        gi = {g['input'] for g in gl}
        doc['non_gates'][str(year)] = sorted(n for n, i in cat.inputs.items() if type(i) is I.BooleanInput and n not in gi)
        doc['companions'][str(year)] = {}
    json.dump(doc, open('/verif/contracts/gates.json', 'w'), indent=1)
