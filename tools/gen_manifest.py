#!/usr/bin/env python3
"""Regenerate MANIFEST.json from the table below (kept valid at all times)."""
import json, os
HERE = os.path.dirname(os.path.dirname(os.path.abspath(__file__)))
PROPS = [json.loads(l) for l in open(os.path.join(HERE, 'properties.jsonl'))]

CLAIMED = {
 'C10': dict(
   category='proof',
   text='Every line function of every catalogued form (2021-2023, 2 422 lines incl. auto-generated mirrors) is extracted from the running objects and executed symbolically on all feasible paths with symbolic inputs/values; the obligation per line is that no path ends in an unresolved input/line/form/threshold/enum member/attribute/helper, assertion, KeyError or recursion. Path feasibility is decided by z3; every refuted obligation is replayed natively on the real Field.value. This covers all inputs and all syntactic paths, which no fixture set reaches.',
   design_ref='DESIGN 4 C10',
   note='Trusted: pyvc symbolic executor (A-PY), z3; reads constrained by declared types only (A-READ); frozen deliberately-absent form list; ZeroDivisionError/TypeError paths are listed as information, not as C10 violations.',
   technique='contract-based symbolic execution of the real line functions (VC per path, z3) with native replay'),
}
NOT_APPLICABLE = {}

checks = []
for p in PROPS:
    pid = p['id']
    if pid in CLAIMED:
        c = CLAIMED[pid]
        checks.append({
            'property_id': pid,
            'quick_cmd': f'./check {pid} --tier quick',
            'thorough_cmd': f'./check {pid} --tier thorough',
            'evidence_file': f'evidence/{pid}.json',
            'replay_cmd_template': './check replay {path}',
            'engine': 'pyvc',
            'level_claimed': {'category': c['category'], 'text': c['text'], 'design_ref': c['design_ref']},
            'level_note': c['note'],
            'technique': c['technique'],
        })
na = []
for p in PROPS:
    if p['id'] not in CLAIMED:
        na.append({'property_id': p['id'], 'reason': NOT_APPLICABLE.get(p['id'], 'check under construction in this build (contract-based check planned in DESIGN.md section 4); not claimed until its obligations are generated and discharged by ./check')})
m = {
 'version': 1,
 'setup_cmd': 'sh ./setup.sh',
 'hooks': {
   'guard': 'HABUTAX_VERIF',
   'enable': 'no source hooks are needed: contracts are sidecar files under /verif/contracts and the checks read /repo through PYTHONPATH; the guard name is reserved and unused',
   'baseline_off_cmd': 'cd /repo && /venv/bin/python -m pytest -ra -q -p no:cacheprovider --timeout=900 --continue-on-collection-errors',
   'source_commits': [],
   'add_only': True,
 },
 'engines': [{'name': 'pyvc', 'path': 'pyvc/', 'serves_properties': sorted(CLAIMED), 'kind_free_text': 'self-written VC generator / symbolic executor over the Python AST of the real habutax source (re-read every run), sidecar contracts, z3 + cvc5 back ends, native replay'}],
 'checks': checks,
 'not_applicable': na,
 'notes': 'Exit codes of ./check: 0 held (KNOWN-FINDING lines for listed genuine defects), 1 VIOLATION, 2 undecided, 3 checker error. Genuine defects repaired in /repo are the commits starting with "fix:"; see known_findings.json.',
}
json.dump(m, open(os.path.join(HERE, 'MANIFEST.json'), 'w'), indent=1)
print('claimed', sorted(CLAIMED), 'na', len(na))
