#!/usr/bin/env python3
"""Regenerate MANIFEST.json from the table below (kept valid at all times)."""
import json, os
HERE = os.path.dirname(os.path.dirname(os.path.abspath(__file__)))
PROPS = [json.loads(l) for l in open(os.path.join(HERE, 'properties.jsonl'))]

CLAIMED = {
 'C05': dict(
   category='proof',
   text='Layer 1: the solver invariants and exit postconditions (C01/C03/C04) are re-discharged over multiset views, i.e. for every order of attempts, drains and prompts. Layer 2: the uniqueness lemma - two states satisfying those exit postconditions for the same program, requested lines and inputs are equal in scheduled set and values - is mechanised in core Lean 4 (lemmas/StableState.lean, checked by the Lean kernel on every run, no sorry, axioms propext and Quot.sound only); each hypothesis of the lemma is tied to named solver obligations that must be discharged on the current tree. Layer 3, frames: every shipped line and the helpers it calls are pure readers (AST scan: no stores outside locals, whitelisted calls; 2 422 lines); sort_keys is used only as key= of sort/sorted; InputStore reaches its configuration only through keyed access; InputStore.__setitem__ stores exactly the text given (so a prompted value is indistinguishable from a file value); FormAccessor and ValueStore return exactly what is stored.',
   design_ref='DESIGN 4 C05',
   note='The step from the solver obligations to the hypotheses of the Lean lemma (reader trees for pure lines, store time for ts) is an informal abstraction, listed as an assumption; A-PURE, A-CFG (file layout/order invariance of configparser), A-BAG. Order of diagnostic lists and part-way refusals are outside the statement.',
   technique='inductive invariants over order-abstracted state + mechanised uniqueness lemma (Lean 4) + frame obligations'),
 'C16': dict(
   category='proof',
   text='(a) Renumbering: for every line of every form that reads copies of a numbered form, symbolic execution shows the copies are read only inside canonical sums over all copies or exists-tests whose outcome does not depend on the copy number (a loop that stops at a particular copy, or a read of a fixed copy, is a refuted obligation) - except the 168 frozen Schedule B listing rows; with the Sigma-permutation lemma a renumbering changes nothing else. (c) Withholding: no line in the static read cone of total tax reads a withholding or payment input; two-copy VCs over the composed definitions of lines 25a..37 prove that one more cent of W-2 withholding, 1099 withholding, other federal withholding or estimated payments moves (34 - 37) by exactly that amount, for all solved pairs. (b) Monotonicity: two-copy VCs over the cone of total tax for larger medical expenses and larger real-estate taxes (2022, 2023).',
   design_ref='DESIGN 4 C16',
   note='NOT covered (listed in evidence as not claimed): the wage monotonicity VCs (discharge in 13 s idle, time out under load - unstable, so excluded) and all 2021 monotonicity VCs (z3 returns a counter-model of the composed definitions that could not be replayed as a native pair of returns). A-IND for the Sigma lemmas; amounts are whole cents; pairs in which both returns solve.',
   technique='per-line symmetry obligations by symbolic execution; two-copy (relational) VCs over composed line summaries, z3'),
 'C02': dict(
   category='proof',
   text='For every line mapped to a template box whose accessibility text carries a machine-readable instruction (add / add ... through / combine / subtract [floor at zero] / multiply by rate or amount / smaller or larger of / divide / amount from line / carried from Schedule or Form), and for the transcribed Qualified Dividends and Capital Gain Tax Worksheet, the instruction is parsed on every run from the bundled PDF into a term over the other lines of the solution, and z3 proves on every returning path of the real line function that the value equals that term for all inputs (289 lines over three years); callee lines contribute their contracts (exact decimals, non-negativity, and where needed their own definitions unfolded). Carry lines equal the named line of the other form or are blank when that form is not demanded.',
   design_ref='DESIGN 4 C02',
   note='A-ORACLE for the transcribed worksheet and the grammar in pyvc/instr.py; lines whose instruction is prose, conditional, or layout-dependent are listed per form as uncovered and not claimed (99 entries); NC forms carry no text and are not covered; A-REAL.',
   technique='line postconditions against an instruction term parsed from the official template, symbolic execution + z3'),
 'C18': dict(
   category='proof',
   text='Class invariant pdf_wf(form) as ground obligations, exhaustive over all 1 665 mappings of all forms and years (8 695 obligations) against the field tree, accessibility text, export values and limits parsed from the bundled templates on every run: the target exists; where the template labels the box with a line number (IRS speak text incl. compound labels, NC field names) the mapped line is that line; export values and length limits agree; no box is driven twice; the mapped line exists; every form that can require filing has a template and mappings. Exclusive box groups: the real ButtonPDFField.value with the real value functions is evaluated on the whole value domain of the driving line - at most one box on, distinct export values, and the box that is on for a member is labelled with that member. PDFFiller._fill_form executed symbolically: each box receives the text of its own line, blank for an absent optional line, abort on unknown line / absent required line.',
   design_ref='DESIGN 4 C18',
   note='Trusted: pyvc/pdfread.py (XFA and AcroForm reader), contracts/pdf_label_exceptions.json (9 template label errors / deliberate reuses with their reasons). A label that does not parse counts as no label.',
   technique='constructor postcondition (class invariant) by ground evaluation against the parsed templates; method contract of _fill_form by symbolic execution'),
 'C14': dict(
   category='proof',
   text='Round trip from_string(to_string(v)) == v on the real field methods: booleans and every enumeration used by an EnumField (all members and the empty choice) exhaustively; IntegerField, StringField and FloatField with places 0, 2, 5 symbolically for every value in the range of the field (exact places-decimals), z3. ValueStore.to_config: for every stored name exactly to_string(definition of that name, value) is written under form -> line. PDFFiller._read_form_fields stores every entry as from_string(definition registered under the same full name, text). habutax.solve records tax_year = args.year in the solution; fill_pdfs reads it, parses with the default dialect and hands exactly that year\'s catalogue to the filler (all three years reachable, unknown year aborts).',
   design_ref='DESIGN 4 C14',
   note='A-BUILTIN: int(str(n)) == n; the fixed-point text of an exact p-decimal denotes it and float() returns it; round of an exact p-decimal is the identity (IEEE-754 side checked only by a bounded native sweep, labelled bounded). INI transport of text (whitespace, multi-line) is A-CFG and not verified.',
   technique='function contracts on the real to_string/from_string pairs by symbolic execution + z3; structural contracts of the writer/reader loops'),
 'C19': dict(
   category='proof',
   text='PDFFiller._create_fdf executed symbolically with a symbolic field name and value: cvc5 proves the written entry equals "<< /T (" esc(name) ") /V (" esc(value) ") >>" where esc escapes backslash and both parentheses (ISO 32000-1 literal strings), for all strings. TextPDFField / ChoicePDFField / ButtonPDFField value(): returns exactly the text when it fits / is a listed choice, raises otherwise, never truncates. needs_filing of every catalogued form (76 instances) executed symbolically: boolean on every path, False for worksheets and input-only forms. PDFFiller.fill: bounded stand-in (stub forms, every subset and order of up to 3 forms incl. two instances of one class).',
   design_ref='DESIGN 4 C19',
   note='A-PDFTK (pdftk absent); Python str.replace == str.replace_all; fill() itself only bounded (list length 3); _fill_form mapping loop is C18.',
   technique='string obligation from the real code discharged by cvc5; method contracts by symbolic execution'),
 'C11': dict(
   category='proof',
   text='InputStore.__getitem__ executed symbolically on the real code (config by A-CFG): the four outcomes are exactly spec unknown -> MissingInputSpecification, declared but not supplied -> MissingInput, supplied but rejected -> InvalidInput carrying the text, else the conversion of exactly the supplied text, validated before converted. Every input class (String, Boolean, Integer, Float, Enum with/without empty, Regex, SSN) on a symbolic string: valid() never raises; text that valid() accepts converts without error to the declared type; an accepted number is finite (float() by an assumed grammar that includes inf/infinity/nan). prompt_input (retry loop by the havoc rule): an answer is returned only if the validator accepts it, Ctrl-C means refused, other interruptions propagate. The solver stores an answer only after the validity assertion.',
   design_ref='DESIGN 4 C11',
   note='A-BUILTIN for float()/int()/str methods and regex match (uninterpreted, with the non-finite grammar), A-CFG; a bounded native enumeration of all strings up to length 3 (5 thorough) over 18 adversarial characters cross-checks the assumed grammars and is labelled bounded.',
   technique='method contracts on the real input classes by symbolic execution over z3 strings'),
 'C01': dict(
   category='proof',
   text='The real Solver.solve, _attempt_field (incl. its self-recursion by contract), _attempt_input, _add_unattempted, _add_input_spec and the tracker methods are executed symbolically over abstract views (maps, multisets, sets) from an arbitrary state satisfying the invariant; the inductive invariant "no lost line" (every scheduled line has a value, is recorded unimplemented, is queued, waits on a field or input with a registered waiter, or is in the released list being iterated) with its coherence clauses is proved at entry, across every loop of solve() (havoc rule) and through every outcome of an attempt; at exit z3 proves: True is returned only if every scheduled line has a value, nothing is unimplemented and no line waits; False always comes with a non-empty diagnostic; exceptions of a line, an unsupported form or an invalid answer propagate unchanged. habutax.solve(args) is executed symbolically with all externals by contract: the success banner is printed iff solve() returned True, each non-empty diagnostic list is listed, no banner on abort. 834 obligations.',
   design_ref='DESIGN 3, 4 C01',
   note="Assumptions: the line oracle A-PURE (a line evaluation ends in exactly one of value / UnmetDependency of an unvalued line / MissingInput of a declared unprovided input / MissingInputSpecification of an undeclared input / FieldNotImplemented / other exception), A-FORM/A-CAT (a form's inputs, lines, required lines are a fixed function of its name; C17), A-BAG (order-irrelevant lists as multisets, hence every attempt/drain/prompt order), A-GEN, A-PROMPT; precondition of solve(): distinct not-yet-loaded form names, field_names=[] . A value may be rewritten only by re-evaluation of the same line. A non-discharged obligation is reported as a violation only when the toy-form concretisation search reproduces it on the real Solver; otherwise undecided (exit 2).",
   technique='inductive invariant + method contracts on the real solver code (symbolic execution with abstract views, havoc loop rule), z3'),
 'C03': dict(
   category='proof',
   text='Obligations on the real _attempt_field / solve: a line is evaluated against FormAccessors built over the current input store and the current value store of that very attempt; the stored value is exactly the evaluation result and the line is then announced as met; values and inputs are never removed and a value is never overwritten except by re-evaluation of the same line; a wait on a field (input) is registered only while that field has no value (input not provided) or it is about to be drained; all invariant across every loop of solve() and every attempt order (multiset abstraction).',
   design_ref='DESIGN 4 C03',
   note="Assumptions: the line oracle A-PURE (a line evaluation ends in exactly one of value / UnmetDependency of an unvalued line / MissingInput of a declared unprovided input / MissingInputSpecification of an undeclared input / FieldNotImplemented / other exception), A-FORM/A-CAT (a form's inputs, lines, required lines are a fixed function of its name; C17), A-BAG (order-irrelevant lists as multisets, hence every attempt/drain/prompt order), A-GEN, A-PROMPT; precondition of solve(): distinct not-yet-loaded form names, field_names=[] . A value may be rewritten only by re-evaluation of the same line. A non-discharged obligation is reported as a violation only when the toy-form concretisation search reproduces it on the real Solver; otherwise undecided (exit 2)." + ' The fixed-point statement itself additionally needs stability of the oracle under growth of (inputs, values) (A-PURE); ValueStore.to_config is not under contract yet.',
   technique='frame and invariant obligations on the real solver code, z3'),
 'C04': dict(
   category='proof',
   text='Solver._add_form is verified against its contract with loop invariants on the real body (full add: exactly the declared inputs and lines are registered, the form takes part, exactly its required lines are scheduled and queued; input-only: only inputs registered, nothing scheduled, form does not take part; unknown class: NotImplementedError and nothing changed). _attempt_field schedules exactly the demanded line plus the required lines of a newly loaded form, and queues only newly scheduled lines. Invariants across solve(): registered lines belong to loaded forms, loaded forms have all their lines registered and their required lines scheduled; with the C01 exit condition a successful solution holds a value for exactly the scheduled set.',
   design_ref='DESIGN 4 C04',
   note="Assumptions: the line oracle A-PURE (a line evaluation ends in exactly one of value / UnmetDependency of an unvalued line / MissingInput of a declared unprovided input / MissingInputSpecification of an undeclared input / FieldNotImplemented / other exception), A-FORM/A-CAT (a form's inputs, lines, required lines are a fixed function of its name; C17), A-BAG (order-irrelevant lists as multisets, hence every attempt/drain/prompt order), A-GEN, A-PROMPT; precondition of solve(): distinct not-yet-loaded form names, field_names=[] . A value may be rewritten only by re-evaluation of the same line. A non-discharged obligation is reported as a violation only when the toy-form concretisation search reproduces it on the real Solver; otherwise undecided (exit 2)." + ' "Every line that any contained line read" rests on the oracle (a read of an unvalued line raises UnmetDependency). ValueStore.to_config/solution() not yet under contract.',
   technique='method contract with loop invariants on the real _add_form + scheduling frame obligations, z3'),
 'C13': dict(
   category='proof',
   text='At the only prompt call site of the real solver z3 proves, for every state reachable under the invariant: prompting happens only while not refused, the asked input is declared, not yet supplied, has a registered waiting line, and needed_by is exactly the list of lines registered as waiting on it (registrations come only from MissingInput raised by that line); answers are stored in the input store before anything else can fail and never removed.',
   design_ref='DESIGN 4 C13',
   note="Assumptions: the line oracle A-PURE (a line evaluation ends in exactly one of value / UnmetDependency of an unvalued line / MissingInput of a declared unprovided input / MissingInputSpecification of an undeclared input / FieldNotImplemented / other exception), A-FORM/A-CAT (a form's inputs, lines, required lines are a fixed function of its name; C17), A-BAG (order-irrelevant lists as multisets, hence every attempt/drain/prompt order), A-GEN, A-PROMPT; precondition of solve(): distinct not-yet-loaded form names, field_names=[] . A value may be rewritten only by re-evaluation of the same line. A non-discharged obligation is reported as a violation only when the toy-form concretisation search reproduces it on the real Solver; otherwise undecided (exit 2)." + ' The re-run clause is a lemma over contracts: answers are stored as exactly the typed text and written/parsed with the default dialect (obligations here), the exit postconditions make the final state stable for the inputs plus answers, the Lean lemma unique (kernel-checked here) gives the same state for run 2, and InputStore.__getitem__ (C11) never reports a stored key missing; configparser write/read round trip is A-CFG.',
   technique='call-site obligations under the solver invariant, z3'),
 'C20': dict(
   category='proof',
   text='habutax.solve(args) is executed symbolically with Solver.solve() raising any of KeyboardInterrupt, EOFError, NotImplementedError, RuntimeError, AssertionError or returning: on every exit with --writeback-input the input store is written to the input file after the solve, the file is created before it is read, and nothing is written without the option. Inside Solver.solve every answer given is in the store at every normal and exceptional exit and no input present at entry is lost (frame obligations across all loops).',
   design_ref='DESIGN 4 C20',
   note="Assumptions: the line oracle A-PURE (a line evaluation ends in exactly one of value / UnmetDependency of an unvalued line / MissingInput of a declared unprovided input / MissingInputSpecification of an undeclared input / FieldNotImplemented / other exception), A-FORM/A-CAT (a form's inputs, lines, required lines are a fixed function of its name; C17), A-BAG (order-irrelevant lists as multisets, hence every attempt/drain/prompt order), A-GEN, A-PROMPT; precondition of solve(): distinct not-yet-loaded form names, field_names=[] . A value may be rewritten only by re-evaluation of the same line. A non-discharged obligation is reported as a violation only when the toy-form concretisation search reproduces it on the real Solver; otherwise undecided (exit 2)." + ' A-CFG for what InputStore.write puts on disk; a crash inside the write itself is outside the listed interruptions; prompt_input is covered in C11.',
   technique='exceptional postconditions by symbolic execution of the real code (try/finally semantics), z3'),
 'C06': dict(
   category='proof',
   text='Every method of the real DependencyTracker is executed symbolically from an arbitrary well-formed state (dict-of-lists and list abstracted as multisets) and its contract discharged by z3: add_unmet/meet change exactly one count and nothing else; has_unmet/has_met/unmet_dependencies are exact and side-effect free; the drained generator met_dependents() is verified with a pointwise loop invariant (conservation released+remaining = registered for met keys, unmet keys untouched, a key with waiters stays met) and a lexicographic variant, giving: every registered wait on a met dependency is released exactly once, none on an unmet one, the met list ends empty, for every history and every order. At solver level the prompt-site obligations give asked-at-most-once; termination of solve() and the evaluation bound per line are covered only by a bounded stand-in (toy programs on the real solver), labelled bounded.',
   design_ref='DESIGN 3, 4 C06',
   note='A-BAG (order-irrelevant lists as multisets), A-GEN (generator drained atomically at its call sites). A non-discharged obligation is concretised on the real class over small states; only then is it reported as a violation.',
   technique='method contracts + loop invariant/variant on the real code via symbolic execution with multiset views, z3'),
 'C15': dict(
   category='proof',
   text='(a) Non-negativity as a postcondition of every line in the frozen list (about 530 numeric lines per year: deductions, taxable income, tax, credits, payments, refund, owed): each returning path of the real line yields a value >= 0 for all inputs, assuming non-negative amount inputs and the contracts of the lines it reads (>= 0 for listed lines, and their own definitions unfolded up to 6 levels where needed), Sigma-sums non-negative by a base/step lemma on the summand. (b) Balance identities as lemmas over the definitions of the real lines 34/35a/36/37 (overpayment - owed = payments - tax; at most one positive; refund + applied = overpayment) and the NC lines 26a/28/33/34/refund, with stored values as exact decimals. z3, unbounded in inputs and in the number of W-2/1099 copies.',
   design_ref='DESIGN 4 C15',
   note='contracts/nonneg.json is the frozen list (greatest provable set plus hand-added lines the forms define as non-negative); lines that may legitimately be negative (AGI and what follows from it, Form 8606 differences) are not listed; lemmas assume each involved line has a value equal to its definition (C03) and exact decimals (C12); A-REAL.',
   technique='line postconditions and multi-line lemmas over path summaries of the real functions, z3 (LRA + uninterpreted Sigma)'),
 'C09': dict(
   category='proof',
   text='Frozen gate table (192 gate inputs over three years, every other boolean input classified as non-gate): for each gate, every path of every line that reads it with the declaring answer ends in FieldNotImplemented, or a companion line raises on every compatible path and is demanded with the reader (required line of the same form, or a frozen must-read chain that is re-verified on the real read sets every run). Amount gates (Schedule B rows, HSA over-contribution, Form 1116 limit) are postconditions "no returning path is compatible with the excess". Paths come from symbolic execution of the real lines; feasibility and implications by z3.',
   design_ref='DESIGN 4 C09',
   note='contracts/gates.json and contracts/amount_gates.py are the oracle (seeded from the tree once, reviewed against input descriptions, frozen); C01 supplies "a demanded not-implemented line makes the solve fail"; a new boolean input must be classified (exit 3).',
   technique='path-level postconditions on the real line functions (symbolic execution + z3) against a frozen gate table'),
 'C12': dict(
   category='proof',
   text='Contracts of TypedField.value and FloatField.value discharged on the real methods by symbolic execution with the line definition replaced by its contract (returns a symbolic value of each Python kind: None, str blank/non-blank, bool, int, float, member of the declared enum, member of another enum, list) for every field class and places in {0,2,5}: blank -> empty value, exact type or TypeError naming the line, money rounded to `places`. InputForm.__init__: every mirror line of every shipped input form has the matching class and returns exactly its input; unknown input class raises.',
   design_ref='DESIGN 4 C12',
   note='A-REAL (round is a nearest p-decimal), str.strip uninterpreted; "stored only via field.value" is C03; wrongly typed shipped lines are listed as information.',
   technique='method contracts discharged by symbolic execution of the real methods + z3'),
 'C07': dict(
   category='proof',
   text='Spec function tax_y(status, x) (bracket schedules of Rev. Proc. 2020-45/2021-45/2022-38, IRS table row structure) against the real tables and the three real functions of each year: every table row is an IRS row with 4 statutory cells (ground, exact rationals, 23 k cells); the loop body of figure_tax_table is executed symbolically per row (returns float(row[col]) iff lo<=x<hi) and an invariant chain proves exactly one row matches every real x in [0,100000) so the trailing assert is unreachable; every path of figure_tax_worksheet equals the bracket formula for all real x in [100000,1e12] (z3, LRA); figure_tax maps each status to its schedule on the proper side of 100000 (QSS=MFJ); monotonicity/slope lemmas on the spec. All real amounts, not sampled dollars.',
   design_ref='DESIGN 4 C07',
   note='A-REAL (floats as reals; IEEE-754 evaluation only by the bounded native stand-in, labelled bounded), A-ORACLE (transcribed brackets), the loop contract applies to the shape for-row-if-return; a reshaped function is degraded to the bounded stand-in and reported undecided unless the stand-in finds a failing input.',
   technique='VCs from the real AST: ground evaluation of table cells, per-row loop-body VCs with invariant chain, symbolic execution of the worksheet against a z3 spec function'),
 'C08': dict(
   category='proof',
   text='For every (year, status, statutory amount) in the site table the real line is executed symbolically: echo lines must return the published value on every return path for every status; deciding lines must compare the named amount with the published limit (condition atoms proved equivalent to amount <op> official by z3); multipliers must equal the published per-child amounts; 2023 threshold tables are compared member by member. Exhaustive over the finite triple space.',
   design_ref='DESIGN 4 C08',
   note='A-ORACLE: contracts/official.py transcribed from the Rev. Procs and form instructions; contracts/statutory_sites.py says where each amount shows. The site table now also covers the 2021 recovery-rebate phase-out amounts, the NC child-deduction table (every bracket and status), the Schedule B 1,500 thresholds and the Form 8959 triggers; the educator-expense cap and the 2021 ARPA child-credit amounts are not in the table.',
   technique='contract postconditions per statutory site discharged by symbolic execution + z3, ground comparison of threshold tables'),
 'C17': dict(
   category='proof',
   text='Ground obligations on the real classes, exhaustive over every (year, form class, allowed instance): instantiable, tax_year, unique name, metadata, sequence_no where needs_filing can be true, duplicate-free lower-case dot-free input and line names; for every status-keyed threshold table z3 proves exactly one key matches each member (first-match lookup makes overlapping keys dead) and the real Form.threshold returns that value; list_form_inputs output parses as an INI template naming exactly the declared inputs.',
   design_ref='DESIGN 4 C17',
   note='A-CFG for the template parse; numbered input forms instantiated for instances 0, 1, 7 as representatives.',
   technique='class-invariant obligations by ground evaluation on the real objects + z3 over the finite status sort'),
 'C10': dict(
   category='proof',
   text='Every line function of every catalogued form (2021-2023, 2 422 lines incl. auto-generated mirrors) is extracted from the running objects and executed symbolically on all feasible paths with symbolic inputs/values; the obligation per line is that no path ends in an unresolved input/line/form/threshold/enum member/attribute/helper, assertion, KeyError or recursion. Path feasibility is decided by z3; every refuted obligation is replayed natively on the real Field.value. This covers all inputs and all syntactic paths, which no fixture set reaches.',
   design_ref='DESIGN 4 C10',
   note='Trusted: pyvc symbolic executor (A-PY), z3; reads constrained by declared types only (A-READ); frozen deliberately-absent form list; ZeroDivisionError/TypeError paths are listed as information, not as C10 violations.',
   technique='contract-based symbolic execution of the real line functions (VC per path, z3) with native replay'),
}
NOT_APPLICABLE = {}

checks = []
for p in PROPS:
    pid = p['id']
    if pid in CLAIMED:
        c = CLAIMED[pid]
        checks.append({
            'property_id': pid,
            'quick_cmd': f'./check {pid} --tier quick',
            'thorough_cmd': f'./check {pid} --tier thorough',
            'evidence_file': f'evidence/{pid}.json',
            'replay_cmd_template': './check replay {path}',
            'engine': 'pyvc',
            'level_claimed': {'category': c['category'], 'text': c['text'], 'design_ref': c['design_ref']},
            'level_note': c['note'],
            'technique': c['technique'],
        })
na = []
for p in PROPS:
    if p['id'] not in CLAIMED:
        na.append({'property_id': p['id'], 'reason': NOT_APPLICABLE.get(p['id'], 'check under construction in this build (contract-based check planned in DESIGN.md section 4); not claimed until its obligations are generated and discharged by ./check')})
m = {
 'version': 1,
 'setup_cmd': 'sh ./setup.sh',
 'hooks': {
   'guard': 'HABUTAX_VERIF',
   'enable': 'no source hooks are needed: contracts are sidecar files under /verif/contracts and the checks read /repo through PYTHONPATH; the guard name is reserved and unused',
   'baseline_off_cmd': 'cd /repo && /venv/bin/python -m pytest -ra -q -p no:cacheprovider --timeout=900 --continue-on-collection-errors',
   'source_commits': [],
   'add_only': True,
 },
 'engines': [{'name': 'pyvc', 'path': 'pyvc/', 'serves_properties': sorted(CLAIMED), 'kind_free_text': 'self-written VC generator / symbolic executor over the Python AST of the real habutax source (re-read every run), sidecar contracts, z3 + cvc5 back ends, native replay'}],
 'checks': checks,
 'not_applicable': na,
 'notes': 'Exit codes of ./check: 0 held (KNOWN-FINDING lines for listed genuine defects), 1 VIOLATION, 2 undecided, 3 checker error. Genuine defects repaired in /repo are the commits starting with "fix:"; see known_findings.json.',
}
json.dump(m, open(os.path.join(HERE, 'MANIFEST.json'), 'w'), indent=1)
print('claimed', sorted(CLAIMED), 'na', len(na))
