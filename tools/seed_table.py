#!/usr/bin/env python3
"""Print the markdown table of DESIGN section 14 from seeded/*/meta.json."""
import json, os, re
HERE = os.path.dirname(os.path.dirname(os.path.abspath(__file__)))
rows = []
for d in sorted(os.listdir(os.path.join(HERE, 'seeded'))):
    mp = os.path.join(HERE, 'seeded', d, 'meta.json')
    if not os.path.exists(mp):
        continue
    m = json.load(open(mp))
    notes = (m.get('needs_to_manifest') or '').replace('\n', ' ')
    t = re.sub(r'[`*]', '', notes.strip())
    t = re.sub(r'^(?:[-#\s]*)(?:Change\s*\d*\s*(?:\([^)]*\))?\s*[:\u2014-]+\s*|What(?: it does)?\s*:\s*)+', '', t, flags=re.I)
    t = re.sub(r'\s+', ' ', t)
    first = (t[:170].rsplit(' ', 1)[0] + ' …') if len(t) > 170 else t
    det = m.get('detected_by')
    ran = m.get('ran', [])
    how = []
    for r in ran:
        if r.get('exit') == 1:
            nf = r.get('no_failing_input_found', 0)
            how.append(f"{r['check']} ({'replayed input' if nf < r.get('violations', 0) else 'no-failing-input-found'})")
        elif r.get('exit') == 2:
            how.append(f"{r['check']}: undecided")
        elif r.get('exit') == 0:
            how.append(f"{r['check']}: passes")
        elif 'skipped' in r:
            pass
        else:
            how.append(f"{r['check']}: exit {r.get('exit')}")
    status = 'applies' if m.get('patch_applies') else 'does not apply'
    conf = 'confirmed' if m.get('confirmed') else 'not confirmed'
    rows.append(f"| {d} | {first} | {status}, {conf} | {'; '.join(how) or '-'} |")
print('| seed | change (first sentence of the author\'s note) | on the current tree | checks |')
print('|---|---|---|---|')
print('\n'.join(rows))
