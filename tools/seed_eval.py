#!/usr/bin/env python3
"""Evaluate staged seeded changes: for each /verif/seeded_staging/<Cxx>/<n>/ (patch.diff, demo.py, notes.md)
  1. copy /repo to a scratch directory, apply the patch (3-way fallback),
  2. run the repository test suite there (must equal the baseline: 55 passed),
  3. run demo.py with and without the patch (must fail / pass),
  4. run the listed checks with VERIF_REPO pointing at the scratch copy,
  5. write /verif/seeded/<Cxx>-<n>/{patch.diff,demo.py,notes.md,meta.json}; remove the scratch copy.
Usage: seed_eval.py [Cxx ...]   (default: all)
"""
import json
import os
import shutil
import subprocess
import sys
import time

VERIF = os.path.dirname(os.path.dirname(os.path.abspath(__file__)))
STAGE = os.path.join(VERIF, 'seeded_staging')
OUT = os.path.join(VERIF, 'seeded')
SCRATCH = '/dev/shm'

# which checks are expected to be relevant per property of the seed (the property's own check first)
EXTRA = {'C01': ['C06', 'C11', 'C03'], 'C03': ['C01'], 'C04': ['C01', 'C10'], 'C05': ['C01', 'C03', 'C13'], 'C06': ['C01', 'C13'], 'C08': ['C17'], 'C10': ['C04'],
         'C13': ['C01', 'C20'], 'C15': ['C02'], 'C16': ['C02', 'C15'], 'C02': ['C08', 'C12', 'C15'], 'C17': ['C08', 'C10'], 'C20': ['C13'], 'C11': ['C01'],
         'C14': ['C12'], 'C18': ['C19'], 'C19': ['C18']}


HOW = ('tools/seed_eval.py: scratch git worktree of /repo under /dev/shm, patch applied there (never in /repo), repository test suite, demo.py with and '
       'without the patch, then ./check <id> --tier quick with VERIF_REPO pointing at the scratch worktree; the worktree is removed afterwards')
# rounds 4 and 5 (rounds 1-3 carry their round in the committed meta.json)
ROUND_OF = {f'{p}/{n}': 4 for p in ('C02', 'C03', 'C04', 'C05', 'C06', 'C09', 'C13', 'C15', 'C16', 'C19', 'C20') for n in ('7', '8')}
ROUND_OF.update({'C10/5': 4, 'C10/6': 4})
ROUND_OF.update({f'{p}/{n}': 5 for p in ('C01', 'C08', 'C12', 'C14', 'C17', 'C18') for n in ('7', '8')})
ROUND_OF.update({f'{p}/{n}': 5 for p in ('C07', 'C11') for n in ('5', '6')})
ROUND_OF.update({f'{p}/{n}': 6 for p in ('C01', 'C02', 'C03', 'C04', 'C05', 'C06', 'C08', 'C09', 'C12', 'C13', 'C14', 'C15', 'C16', 'C17', 'C18', 'C19', 'C20') for n in ('9', '10')})
ROUND_OF.update({f'{p}/{n}': 6 for p in ('C07', 'C10', 'C11') for n in ('7', '8')})
ROUND_OF.update({f'{p}/{n}': 7 for p in ('C02', 'C08', 'C12', 'C14', 'C15', 'C17', 'C18', 'C19') for n in ('11', '12')})
ROUND_OF.update({'C07/9': 7, 'C07/10': 7})


def sh(cmd, cwd=None, env=None, timeout=1500):
    r = subprocess.run(cmd, shell=True, cwd=cwd, env=env, capture_output=True, text=True, timeout=timeout)
    return r.returncode, (r.stdout + r.stderr)


def claimed():
    m = json.load(open(os.path.join(VERIF, 'MANIFEST.json')))
    return {c['property_id'] for c in m['checks']}


def evaluate(prop, n):
    src = os.path.join(STAGE, prop, n)
    if not os.path.exists(os.path.join(src, 'patch.diff')):
        return None
    tag = f'{prop}-{n}'
    scratch = os.path.join(SCRATCH, f'seed_{tag}_{os.getpid()}')
    shutil.rmtree(scratch, ignore_errors=True)
    sh(f'git -C /repo worktree add --detach -f {scratch} HEAD')
    meta = {'property': prop, 'seed': n, 'base_commit': sh('git -C /repo rev-parse --short HEAD')[1].strip(), 'ran': []}
    try:
        notes = open(os.path.join(src, 'notes.md')).read() if os.path.exists(os.path.join(src, 'notes.md')) else ''
        meta['needs_to_manifest'] = notes.strip()[:1500]
        # the helpers' demonstrations create temporary files: keep them inside the scratch worktree (removed with it), not in /tmp
        os.makedirs(os.path.join(scratch, '.tmp'), exist_ok=True)
        env = dict(os.environ, PYTHONPATH=scratch, PYTHONDONTWRITEBYTECODE='1', TMPDIR=os.path.join(scratch, '.tmp'))
        demo = os.path.join(src, 'demo.py')
        rc0, out0 = sh(f'/venv/bin/python {demo}', cwd=scratch, env=env, timeout=600)
        meta['demo_without_patch_exit'] = rc0
        rc, out = sh(f'git apply {os.path.join(src, "patch.diff")}', cwd=scratch)
        if rc != 0:
            rc, out = sh(f'git apply --3way {os.path.join(src, "patch.diff")}', cwd=scratch)
        meta['patch_applies'] = rc == 0
        if rc != 0:
            meta['apply_error'] = out[-500:]
            return meta
        rc1, out1 = sh(f'/venv/bin/python {demo}', cwd=scratch, env=env, timeout=600)
        meta['demo_with_patch_exit'] = rc1
        meta['demo_with_patch_tail'] = out1[-400:]
        rct, outt = sh('/venv/bin/python -m pytest -q -p no:cacheprovider --continue-on-collection-errors tests 2>&1 | tail -1', cwd=scratch, env=env, timeout=900)
        meta['tests_with_patch'] = outt.strip()[-120:]
        meta['confirmed'] = bool(rc0 == 0 and rc1 != 0 and '55 passed' in outt)
        checks = [prop] + [c for c in EXTRA.get(prop, []) if c != prop]
        cl = claimed()
        meta['detected_by'] = []
        for c in checks:
            if c not in cl:
                meta['ran'].append({'check': c, 'skipped': 'not claimed'})
                continue
            ev = os.path.join(scratch, '.verif_evidence')
            cenv = dict(os.environ, VERIF_REPO=scratch, VERIF_EVIDENCE_DIR=ev, VERIF_REPLAY_DIR=os.path.join(scratch, '.verif_replays'))
            t0 = time.time()
            try:
                rcc, outc = sh(f'./check {c} --tier quick', cwd=VERIF, env=cenv, timeout=2400)
            except subprocess.TimeoutExpired:
                sh(f"pkill -f 'pyvc.main {c} --tier quick'")
                rcc, outc = 124, f'{c}: the check did not finish within 2400 s on the changed tree'
            viol = [l for l in outc.splitlines() if l.startswith('VIOLATION')]
            obls = [l.strip()[:300] for l in outc.splitlines() if l.strip().startswith('obligation ')]
            meta['ran'].append({'check': c, 'cmd': f'VERIF_REPO=<scratch copy with patch> ./check {c} --tier quick', 'exit': rcc, 'violations': len(viol),
                                'no_failing_input_found': sum('no-failing-input-found' in v for v in viol), 'obligations': obls[:6], 'wall_s': round(time.time() - t0, 1),
                                'summary': [l for l in outc.splitlines() if l.startswith(c + ':')][-1:]})
            if rcc == 1:
                meta['detected_by'].append(c)
                if os.environ.get('SEED_ALL') != '1':
                    # the other related checks are only run while no check has reported the change (SEED_ALL=1 runs them all)
                    meta['not_run_after_detection'] = [x for x in checks[checks.index(c) + 1:]]
                    break
        return meta
    finally:
        sh(f'git -C /repo worktree remove --force {scratch}')
        shutil.rmtree(scratch, ignore_errors=True)


def main():
    args = sys.argv[1:]
    only = {a for a in args if '/' in a}          # e.g. C01/5: just that seed
    props = sorted({a.split('/')[0] for a in args}) or sorted(os.listdir(STAGE))
    for prop in props:
        d = os.path.join(STAGE, prop)
        if not os.path.isdir(d):
            continue
        for n in sorted(os.listdir(d)):
            if only and any(a.startswith(prop + '/') for a in only) and f'{prop}/{n}' not in only:
                continue
            meta = evaluate(prop, n)
            if meta is None:
                continue
            dst = os.path.join(OUT, f'{prop}-{n}')
            os.makedirs(dst, exist_ok=True)
            for f in ('patch.diff', 'demo.py', 'notes.md', 'patch.orig.diff'):
                if os.path.exists(os.path.join(d, n, f)):
                    shutil.copy(os.path.join(d, n, f), os.path.join(dst, f))
            # annotations that are not produced by the evaluation itself survive a re-evaluation
            old_meta = {}
            if os.path.exists(os.path.join(dst, 'meta.json')):
                try:
                    old_meta = json.load(open(os.path.join(dst, 'meta.json')))
                except ValueError:
                    old_meta = {}
            for k in ('round', 'ported', 'status_note'):
                if k in old_meta and k not in meta:
                    meta[k] = old_meta[k]
            if 'round' not in meta:
                meta['round'] = ROUND_OF.get(f'{prop}/{n}')
            meta['how_evaluated'] = HOW
            json.dump(meta, open(os.path.join(dst, 'meta.json'), 'w'), indent=1)
            print(prop, n, 'applies' if meta.get('patch_applies') else 'NOAPPLY', 'confirmed' if meta.get('confirmed') else 'unconfirmed',
                  'detected_by', meta.get('detected_by'), flush=True)


if __name__ == '__main__':
    main()
