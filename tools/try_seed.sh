#!/bin/sh
# try_seed.sh <Cxx> <n> [check ...]: apply seeded_staging/<Cxx>/<n>/patch.diff to a scratch worktree and run the check(s) with VERIF_REPO there
p=$1; n=$2; shift 2
checks=${*:-$p}
wt=/dev/shm/try_${p}_${n}_$$
git -C /repo worktree add --detach -f $wt HEAD >/dev/null 2>&1
( cd $wt && git apply /verif/seeded_staging/$p/$n/patch.diff ) || { echo "PATCH DOES NOT APPLY"; }
for c in $checks; do
  ( cd /verif && VERIF_REPO=$wt VERIF_EVIDENCE_DIR=$wt/.ev VERIF_REPLAY_DIR=$wt/.rp ./check $c --tier quick 2>&1 | grep -E "VIOLATION|UNDECIDED|KNOWN|CHECKER|obligations=|exit" | grep -v "^KNOWN" | head -${LINES_MAX:-8}; echo "[$p/$n] $c rc=$?" )
done
git -C /repo worktree remove --force $wt; git -C /repo worktree prune
