#!/usr/bin/env python3
"""One-off: greatest fixed point of 'provably non-negative' over numeric lines -> contracts/nonneg.json (then frozen)."""
import sys, json, warnings, multiprocessing
warnings.simplefilter('ignore')
sys.path.insert(0, '/verif')
from pyvc import extract as X, linevc
from pyvc.props import c15
X.setup_path()

def work(args):
    year, names, cur = args
    cat = linevc.Cat.get(year)
    out = []
    for n in names:
        st = c15.prove_nonneg(year, cat.fields[n.replace('{n}', '0')], set(cur))[0]
        out.append((n, st))
    return out

doc = {'_comment': 'Frozen list (C15) of numeric lines the forms define as non-negative. Seeded as the greatest set S such that every line in S is provably >= 0 when amount inputs and the lines of S it reads are >= 0; reviewed; frozen. Lines that can legitimately be negative (AGI, net amounts, NC refund pseudo-line) are not listed.', 'nonneg': {}}
for year in X.YEARS:
    cat = linevc.Cat.get(year)
    cand = []
    for f, fld in X.all_lines(year):
        if linevc.field_kind(fld)[0] in ('real', 'int'):
            c = c15.canon(fld.name())
            if c not in cand:
                cand.append(c)
    cur = list(cand)
    while True:
        chunks = [cur[i::16] for i in range(16)]
        with multiprocessing.get_context('fork').Pool(16) as pool:
            res = pool.map(work, [(year, ch, cur) for ch in chunks])
        bad = [n for r in res for n, st in r if st != 'discharged']
        print(year, len(cur), 'dropped', bad)
        if not bad:
            break
        cur = [n for n in cur if n not in bad]
    doc['nonneg'][str(year)] = cur
json.dump(doc, open('/verif/contracts/nonneg.json', 'w'), indent=0)
