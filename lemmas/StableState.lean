/-
  C05 / C13: uniqueness of the stable state (DESIGN section 4, C05 layer 2).

  A line definition is a finite reader tree; a *stable state* for a program, a set of requested
  lines R and an input map C is what the solver's exit postconditions describe (obligation ids of
  contracts/core/solver.py in brackets):

    valOk   every stored value is the result of evaluating its line against (C, V)          [C03 stored-value-is-the-evaluation-result + A-PURE stability]
    valTs   every line read by that evaluation was stored earlier                             [C03 wait-on-field-is-justified / met-fields-have-values]
    valDom  a scheduled line whose evaluation succeeds has that value                         [C01 no-lost-line, success/exit postconditions]
    valIn   only scheduled lines have values                                                  [C04 queue-holds-scheduled-lines, values stored only by attempts]
    closed  the scheduled set is closed under "read by the evaluation of a scheduled line"    [C04 the-demanded-line-is-scheduled]
    roots   requested lines are scheduled                                                     [C04 schedules-exactly-the-required-lines]
    minimal every scheduled line is reached from R by such reads                              [C04 schedules-only-the-demanded-line...]

  Theorem `unique`: two stable states for the same program, R and C have the same scheduled set and the
  same values.  Hence the result of a solve does not depend on the attempt order, on the order of the
  requested forms or of the input file, or on whether a value came from the file or from a prompt
  (C05), and a re-run on the written-back inputs ends in the same state (C13).

  Core Lean 4 only (no Mathlib).
-/

abbrev Name := Nat
abbrev Key := Nat
abbrev Val := Int

inductive Tree where
  | ret : Val → Tree
  | ni : Tree
  | readV : Name → (Val → Tree) → Tree
  | readI : Key → (Val → Tree) → Tree

inductive Outcome where
  | ok : Val → Outcome
  | ni : Outcome
  | blockV : Name → Outcome
  | blockI : Key → Outcome

def run (C : Key → Option Val) (V : Name → Option Val) : Tree → Outcome
  | .ret x => .ok x
  | .ni => .ni
  | .readV n k => match V n with
      | some x => run C V (k x)
      | none => .blockV n
  | .readI key k => match C key with
      | some x => run C V (k x)
      | none => .blockI key

/-- `Reads C V t m`: evaluating `t` against `(C, V)` reads line `m` (the blocking read included). -/
inductive Reads (C : Key → Option Val) (V : Name → Option Val) : Tree → Name → Prop where
  | here (m : Name) (k : Val → Tree) : Reads C V (.readV m k) m
  | thereV (m : Name) (k : Val → Tree) (x : Val) (m' : Name) :
      V m = some x → Reads C V (k x) m' → Reads C V (.readV m k) m'
  | thereI (key : Key) (k : Val → Tree) (x : Val) (m' : Name) :
      C key = some x → Reads C V (k x) m' → Reads C V (.readI key k) m'

inductive Reach (step : Name → Name → Prop) (R : Name → Prop) : Name → Prop where
  | root (n : Name) : R n → Reach step R n
  | next (n m : Name) : Reach step R n → step n m → Reach step R m

structure Stable (prog : Name → Tree) (R : Name → Prop) (C : Key → Option Val)
    (S : Name → Prop) (V : Name → Option Val) (ts : Name → Nat) : Prop where
  valOk : ∀ n x, V n = some x → run C V (prog n) = .ok x
  valTs : ∀ n x m, V n = some x → Reads C V (prog n) m → ts m < ts n
  valDom : ∀ n x, S n → run C V (prog n) = .ok x → V n = some x
  valIn : ∀ n x, V n = some x → S n
  closed : ∀ n m, S n → Reads C V (prog n) m → S m
  roots : ∀ n, R n → S n
  minimal : ∀ n, S n → Reach (fun a b => Reads C V (prog a) b) R n

section
variable {C : Key → Option Val} {V V' : Name → Option Val} {S' : Name → Prop}

/-- Walk agreement: if the second state agrees with the first on every valued line the walk reads,
    a successful evaluation under `V` is the same successful evaluation under `V'`. -/
theorem run_agree (t : Tree) :
    (∀ m, Reads C V' t m → S' m) →
    (∀ m y, Reads C V t m → V m = some y → S' m → V' m = some y) →
    ∀ x, run C V t = .ok x → run C V' t = .ok x := by
  induction t with
  | ret v => intro _ _ x h; simpa [run] using h
  | ni => intro _ _ x h; simp [run] at h
  | readV m k ih =>
    intro hS hA x h
    simp only [run] at h
    cases hv : V m with
    | none => simp [hv] at h
    | some y =>
      simp [hv] at h
      have hm : S' m := hS m (Reads.here m k)
      have hv' : V' m = some y := hA m y (Reads.here m k) hv hm
      simp only [run, hv']
      exact ih y (fun m' hr => hS m' (Reads.thereV m k y m' hv' hr))
        (fun m' z hr hz hs => hA m' z (Reads.thereV m k y m' hv hr) hz hs) x h
  | readI key k ih =>
    intro hS hA x h
    simp only [run] at h
    cases hc : C key with
    | none => simp [hc] at h
    | some y =>
      simp [hc] at h
      simp only [run, hc]
      exact ih y (fun m' hr => hS m' (Reads.thereI key k y m' hc hr))
        (fun m' z hr hz hs => hA m' z (Reads.thereI key k y m' hc hr) hz hs) x h

/-- Every line read under `V` lies in the second scheduled set, under the same agreement hypothesis. -/
theorem reads_in (t : Tree) :
    (∀ m, Reads C V' t m → S' m) →
    (∀ m y, Reads C V t m → V m = some y → S' m → V' m = some y) →
    ∀ m, Reads C V t m → S' m := by
  induction t with
  | ret v => intro _ _ m h; cases h
  | ni => intro _ _ m h; cases h
  | readV m0 k ih =>
    intro hS hA m h
    cases h with
    | here => exact hS m0 (Reads.here m0 k)
    | thereV _ _ y _ hv hr =>
      have hm : S' m0 := hS m0 (Reads.here m0 k)
      have hv' : V' m0 = some y := hA m0 y (Reads.here m0 k) hv hm
      exact ih y (fun m' hr' => hS m' (Reads.thereV m0 k y m' hv' hr'))
        (fun m' z hr' hz hs => hA m' z (Reads.thereV m0 k y m' hv hr') hz hs) m hr
  | readI key k ih =>
    intro hS hA m h
    cases h with
    | thereI _ _ y _ hc hr =>
      exact ih y (fun m' hr' => hS m' (Reads.thereI key k y m' hc hr'))
        (fun m' z hr' hz hs => hA m' z (Reads.thereI key k y m' hc hr') hz hs) m hr
end

section
variable {prog : Name → Tree} {R : Name → Prop} {C : Key → Option Val}
variable {S S' : Name → Prop} {V V' : Name → Option Val} {ts ts' : Name → Nat}

/-- (i) A value of the first state is the value of the second state on every line the second schedules. -/
theorem values_agree (h : Stable prog R C S V ts) (h' : Stable prog R C S' V' ts') :
    ∀ N n x, ts n < N → V n = some x → S' n → V' n = some x := by
  intro N
  induction N with
  | zero => intro n x hlt; exact absurd hlt (Nat.not_lt_zero _)
  | succ N ih =>
    intro n x hlt hv hs
    have hrun : run C V (prog n) = .ok x := h.valOk n x hv
    have hA : ∀ m y, Reads C V (prog n) m → V m = some y → S' m → V' m = some y := by
      intro m y hr hy hm
      have : ts m < ts n := h.valTs n x m hv hr
      exact ih m y (by omega) hy hm
    have hS : ∀ m, Reads C V' (prog n) m → S' m := fun m hr => h'.closed n m hs hr
    have hrun' : run C V' (prog n) = .ok x := run_agree (prog n) hS hA x hrun
    exact h'.valDom n x hs hrun'

/-- (ii) Every line reached from R under the first state's reads is scheduled in both states. -/
theorem reach_both (h : Stable prog R C S V ts) (h' : Stable prog R C S' V' ts') :
    ∀ n, Reach (fun a b => Reads C V (prog a) b) R n → S n ∧ S' n := by
  intro n hr
  induction hr with
  | root n hR => exact ⟨h.roots n hR, h'.roots n hR⟩
  | next a b _ hstep ih =>
    have hA : ∀ m y, Reads C V (prog a) m → V m = some y → S' m → V' m = some y := by
      intro m y _ hy hm
      exact values_agree h h' (ts m + 1) m y (by omega) hy hm
    have hS : ∀ m, Reads C V' (prog a) m → S' m := fun m hr => h'.closed a m ih.2 hr
    exact ⟨h.closed a b ih.1 hstep, reads_in (prog a) hS hA b hstep⟩

/-- The first scheduled set is contained in the second. -/
theorem sched_sub (h : Stable prog R C S V ts) (h' : Stable prog R C S' V' ts') :
    ∀ n, S n → S' n :=
  fun n hn => (reach_both h h' n (h.minimal n hn)).2

/-- Two stable states for the same program, requested lines and inputs coincide. -/
theorem unique (h : Stable prog R C S V ts) (h' : Stable prog R C S' V' ts') :
    (∀ n, S n ↔ S' n) ∧ (∀ n, S n → V n = V' n) := by
  have h1 := sched_sub h h'
  have h2 := sched_sub h' h
  refine ⟨fun n => ⟨h1 n, h2 n⟩, ?_⟩
  intro n hn
  cases hv : V n with
  | some x =>
    have := values_agree h h' (ts n + 1) n x (by omega) hv (h1 n hn)
    rw [this]
  | none =>
    cases hv' : V' n with
    | none => rfl
    | some y =>
      have := values_agree h' h (ts' n + 1) n y (by omega) hv' hn
      rw [hv] at this
      cases this
end

#print axioms unique
