"""C08 site table: where a statutory amount shows in a line or decides an outcome.

kind 'echo'   : on every return path of the line that satisfies `assume`, for every
                value of the selectors, result == official(year, selectors).
kind 'cmp'    : every branch condition of the line that mentions one of `amount`
                symbols is, for every selector value, equivalent to
                `amount <op> official` (or its negation), op in `ops`.
kind 'const'  : every branch condition comparing a term that mentions `mentions`
                with a constant uses the official constant (magnitude only).
kind 'coef'   : result == official * <symbol> on return paths satisfying `assume`.

Selectors: 'status' is i|1040.filing_status; others are named read symbols with
their domain.  `official` names a table in contracts/official.py.
Lines are given per year because names moved between years.
"""

S = 'status'

SITES = [
    # --- standard deduction (Form 1040 line 12, standard-deduction path)
    dict(id='standard-deduction', kind='echo', line={2021: '1040.12a', 2022: '1040.12', 2023: '1040.12'},
         official='STANDARD_DEDUCTION', selectors=[S],
         assume=[('v|1040.itemizing', False), ('i|1040.standard_deduction_exceptions', False)]),
    # --- qualified dividends and capital gain tax worksheet
    dict(id='capgain-0pct-breakpoint', kind='echo', line='1040_qualdiv_capgain_tax_wkst.6', official='CAPGAIN_0', selectors=[S]),
    dict(id='capgain-15pct-breakpoint', kind='echo', line='1040_qualdiv_capgain_tax_wkst.13', official='CAPGAIN_15', selectors=[S]),
    # --- AMT screening worksheet
    dict(id='amt-exemption', kind='echo', line='1040_s2_need_6251.6', official='AMT_EXEMPTION', selectors=[S]),
    dict(id='amt-phaseout-start', kind='echo', line='1040_s2_need_6251.8', official='AMT_PHASEOUT', selectors=[S]),
    dict(id='amt-28pct-breakpoint', kind='cmp', line='1040_s2_need_6251.need_6251', amount=['v|1040_s2_need_6251.11'],
         official='AMT_28_BREAK', selectors=[S], ops=['>']),
    # --- child tax credit
    dict(id='ctc-phaseout-start', kind='echo', line={2022: '1040_s8812.9', 2023: '1040_s8812.9'}, official='CTC_PHASEOUT', selectors=[S]),
    dict(id='ctc-per-child', kind='coef', line={2022: '1040_s8812.5', 2023: '1040_s8812.5'}, official='CTC_PER_CHILD', symbol='v|1040_s8812.4'),
    dict(id='odc-per-dependent', kind='coef', line={2022: '1040_s8812.7', 2023: '1040_s8812.7'}, official='ODC_PER_DEPENDENT', symbol='v|1040_s8812.6'),
    dict(id='actc-cap-per-child', kind='coef', line={2022: '1040_s8812.16b', 2023: '1040_s8812.16b'}, official='ACTC_CAP', symbol='v|1040_s8812.4'),
    # --- HSA
    dict(id='hsa-limit-self', kind='echo', line='8889:you.3', official='HSA_SELF', selectors=[],
         assume=[('v|8889:you.1', False)]),
    dict(id='hsa-limit-family', kind='echo', line='8889:you.3', official='HSA_FAMILY', selectors=[],
         assume=[('v|8889:you.1', True)]),
    dict(id='hsa-limit-self-spouse', kind='echo', line='8889:spouse.3', official='HSA_SELF', selectors=[],
         assume=[('v|8889:spouse.1', False)]),
    dict(id='hsa-limit-family-spouse', kind='echo', line='8889:spouse.3', official='HSA_FAMILY', selectors=[],
         assume=[('v|8889:spouse.1', True)]),
    # --- Additional Medicare Tax
    dict(id='addl-medicare-threshold-5', kind='echo', line='8959.5', official='ADDL_MEDICARE', selectors=[S]),
    dict(id='addl-medicare-threshold-9', kind='echo', line='8959.9', official='ADDL_MEDICARE', selectors=[S]),
    dict(id='addl-medicare-threshold-15', kind='echo', line='8959.15', official='ADDL_MEDICARE', selectors=[S]),
    # --- SALT cap (Schedule A line 5e): min(cap, 5d) with 5d huge
    dict(id='salt-cap', kind='echo', line='1040_sa.5e', official='SALT_CAP', selectors=[S],
         assume=[('v|1040_sa.5d', '>=', 10 ** 9)]),
    # --- QBI: Form 8995 usable only at or below the threshold
    dict(id='qbi-threshold', kind='cmp', line='1040.13', amount={2021: ['v|1040.11', '-v|1040.12c'], 2022: ['v|1040.11'], 2023: ['v|1040.11']}, official='QBI_THRESHOLD', selectors=[S], ops=['>']),
    # --- Form 1116 election limit, saver's credit limit
    dict(id='savers-credit-agi-limit', kind='cmp', line='1040_s3.4', amount=['v|1040.11'], official='SAVERS_LIMIT', selectors=[S], ops=['<=']),
    # --- EIC investment income cap and AGI limits
    dict(id='eic-agi-limit', kind='eic', line={2021: '1040.27a', 2022: '1040.27', 2023: '1040.27'}, amount=['v|1040.11']),
    # --- 2021 recovery rebate credit worksheet
    dict(id='rebate-phaseout-start', kind='cmp', line={2021: '1040_recovery_rebate_credit_wkst.9_checkbox'}, amount=['v|1040.11'], official='REBATE_START', selectors=[S], ops=['>']),
    dict(id='rebate-phaseout-end', kind='cmp', line={2021: '1040_recovery_rebate_credit_wkst.10_checkbox'}, amount=['v|1040_recovery_rebate_credit_wkst.9'], official='REBATE_END', selectors=[S], ops=['>']),
    dict(id='rebate-phaseout-range', kind='ratio', line={2021: '1040_recovery_rebate_credit_wkst.11'}, official='REBATE_RANGE', selectors=[S], symbol='v|1040_recovery_rebate_credit_wkst.10'),
    dict(id='rebate-base-both-ssn', kind='echo', line={2021: '1040_recovery_rebate_credit_wkst.6'}, official='REBATE_BASE_BOTH_SSN', selectors=[S],
         assume=[('v|1040_recovery_rebate_credit_wkst.2', True)]),
    dict(id='rebate-base-armed-forces', kind='echo', line={2021: '1040_recovery_rebate_credit_wkst.6'}, official='REBATE_BASE_ARMED_FORCES', selectors=[S], statuses=['MarriedFilingJointly'],
         assume=[('v|1040_recovery_rebate_credit_wkst.2', False), ('v|1040_recovery_rebate_credit_wkst.3', True)]),
    dict(id='rebate-base-one-ssn', kind='echo', line={2021: '1040_recovery_rebate_credit_wkst.6'}, official='REBATE_BASE_ONE_SSN', selectors=[S], statuses=['MarriedFilingJointly'],
         assume=[('v|1040_recovery_rebate_credit_wkst.2', False), ('v|1040_recovery_rebate_credit_wkst.3', False), ('v|1040_recovery_rebate_credit_wkst.4', True)]),
    dict(id='rebate-base-dependents-only', kind='echo', line={2021: '1040_recovery_rebate_credit_wkst.6'}, official='REBATE_BASE_DEPENDENTS_ONLY', selectors=[S],
         assume=[('v|1040_recovery_rebate_credit_wkst.2', False), ('v|1040_recovery_rebate_credit_wkst.3', False), ('v|1040_recovery_rebate_credit_wkst.4', False), ('v|1040_recovery_rebate_credit_wkst.5', True)]),
    dict(id='rebate-per-dependent', kind='coef', line={2021: '1040_recovery_rebate_credit_wkst.7'}, official='REBATE_PER_PERSON', symbol='i|1040_recovery_rebate_credit_wkst.dependents_ssn_before_due_date'),
    # --- Schedule B required above $1,500 of interest / ordinary dividends (Form 1040 lines 2b, 3b)
    dict(id='schedule-b-interest-threshold', kind='const', line='1040.2b', mentions=['1099-int:{n}.box_1'], official='SCHED_B_THRESHOLD', selectors=[]),
    dict(id='schedule-b-dividend-threshold', kind='const', line='1040.3b', mentions=['1099-div:{n}.box_1a'], official='SCHED_B_THRESHOLD', selectors=[]),
    # --- Additional Medicare Tax: employer withholding trigger and threshold on total Medicare wages (Form 1040 line 25c -> Form 8959)
    dict(id='addl-medicare-form-required', kind='const', line={2021: '1040.25c', 2022: '1040.25c', 2023: '1040.25c'}, mentions=['w-2:{n}.box_5'], official='ADDL_MEDICARE_SET', selectors=[S], each_decides=True),   # Form 8959 is required over $200,000 from one employer AND over the status threshold in total
    # --- NC
    dict(id='nc-standard-deduction', kind='echo', line='nc_d-400_sa.nc_standard_deduction', official='NC_STD', selectors=[S],
         assume=[('i|1040.standard_deduction_exceptions', False)]),
    dict(id='nc-use-tax-table', kind='table', line='nc_d-400_consumer_use_tax_wkst.estimate', official='NC_USE_TAX', selectors=[], amount='v|nc_d-400.14',
         at_least_but_less_than=True, beyond_rate='0.000675'),
    dict(id='nc-child-deduction-table', kind='table', line='nc_d-400_child_deduction_wkst.4', official='NC_CHILD', selectors=[S], amount='v|nc_d-400_child_deduction_wkst.2'),
    dict(id='nc-rate', kind='coef', line='nc_d-400.15', official='NC_RATE', symbol='v|nc_d-400.14', floor_at_zero=True),   # D-401: "If North Carolina taxable income is zero or less, enter a zero on Line 15"
]
