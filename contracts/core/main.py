"""Contracts for habutax.solve(args) (the CLI 'solve' command): C01 banner, C20 write-back.

External objects by contract: Path.touch, InputStore (constructor, write), Solver (constructor, solve,
solution, diagnostic getters), ConfigParser solution (item store, write), print, open.
Solver.solve() may return True/False or raise ANY BaseException (a failing line, an unsupported
form, KeyboardInterrupt, EOFError ...).  Every external call is logged in order in ghost['events'].
"""
import argparse
import z3

from pyvc import corevc, sym
from pyvc.corevc import Opaque, AObj, SV, OBJ, fresh, wrap
from pyvc.sym import Raised, Unsupported


class Boom(BaseException):
    """Stands for any exception (including non-Exception ones) raised by an external call."""


class MainSpec(corevc.Spec):
    def __init__(self, interrupt_kind):
        self.interrupt_kind = interrupt_kind      # exception class raised by s.solve() on its raising path

    def make_state(self, it):
        wb = SV('bool', fresh('writeback_input', z3.BoolSort()))
        pm = SV('bool', fresh('prompt_missing', z3.BoolSort()))
        hs = SV('bool', fresh('has_solution_file', z3.BoolSort()))
        args = AObj(argparse.Namespace, {'writeback_input': wb, 'prompt_missing': pm, 'input_file': 'INPUT_FILE', 'year': 2023,
                                         'forms': ['1040', 'nc_d-400'], 'solution': Opaque(fresh('solpath', OBJ), 'solpath')}, name='args')
        it.ghost['events'] = []
        it.ghost['args'] = args
        it.ghost['hs'] = hs
        return [args], {}

    def log(self, it, *ev):
        it.ghost['events'].append(ev)

    def call_hook(self, it, f, args, kwargs, node):
        import pathlib
        import habutax
        from habutax import inputs, solver, forms
        if f is pathlib.Path:
            return Opaque(fresh('path', OBJ), 'path')
        if f is inputs.InputStore:
            self.log(it, 'InputStore', args[0])
            return Opaque(fresh('store', OBJ), 'store')
        if f is solver.Solver:
            self.log(it, 'Solver', kwargs.get('prompt'))
            o = Opaque(fresh('solverobj', OBJ), 'solverobj')
            o.store = args[0]
            return o
        if f is print:
            self.log(it, 'print', args[0] if args else '')
            return None
        if f is open:
            self.log(it, 'open', args)
            return Opaque(fresh('file', OBJ), 'file')
        return NotImplemented

    def truth_of_solution_arg(self, it):
        return it.ghost['hs']

    def opaque_call(self, it, obj, attr, args, kwargs, node):
        k = obj.kind
        if k == 'path' and attr == 'touch':
            self.log(it, 'touch')
            return None
        if k == 'store' and attr == 'write':
            self.log(it, 'write', args[0])
            return None
        if k == 'solverobj':
            if attr == 'solve':
                self.log(it, 'solve', args[0] if args else None)
                if it.run.branch(fresh('solve_raises', z3.BoolSort()), where='solve-raises'):
                    e = self.interrupt_kind('interrupted inside Solver.solve')
                    it.ghost['raised'] = e
                    raise Raised(e, node)
                r = SV('bool', fresh('successful', z3.BoolSort()))
                it.ghost['successful'] = r
                it.ghost['solve_completed'] = True
                return r
            if attr == 'solution':
                self.log(it, 'solution')
                if not it.ghost.get('solve_completed'):
                    e = AssertionError('solution() before solve() completed')
                    it.ghost['raised'] = e
                    raise Raised(e, node)
                if it.run.branch(fresh('solution_raises', z3.BoolSort()), where='solution-raises'):
                    e = AssertionError('solution() failed')
                    it.ghost['raised'] = e
                    raise Raised(e, node)
                return Opaque(fresh('config', OBJ), 'config')
            if attr in ('unimplemented_fields', 'unmet_input_dependencies', 'unmet_field_dependencies'):
                # precondition of the real getters (solver.py: `assert self._done_solving`): only after solve() returned
                if not it.ghost.get('solve_completed'):
                    self.log(it, 'getter-before-solve-completed', attr)
                    e = AssertionError(f'{attr}() before solve() completed')
                    it.ghost['raised'] = e
                    raise Raised(e, node)
                n = fresh('n_' + attr, z3.IntSort())
                it.run.fact(n >= 0)
                it.ghost.setdefault('diag', {})[attr] = n
                return DiagList(n, attr)
        if k == 'config':
            if attr == '__setitem__':
                self.log(it, 'solution-set', args[0])
                return None
            if attr == 'write':
                self.log(it, 'solution-write')
                return None
        raise Unsupported(f'opaque {k}.{attr}')


class DiagList(corevc.Abstract):
    """A diagnostic list/dict known only by its length."""
    def __init__(self, n, name):
        self.n, self.name = n, name

    def sym_len(self, it, node):
        return SV('int', self.n)

    def sym_truth(self, it, node):
        return SV('bool', self.n > 0)

    def sym_iter(self, it, s, frame):
        it.spec.log(it, 'listed', self.name)
        return None

    def sym_method(self, it, attr, args, kwargs, node):
        if attr == 'items':
            return self
        raise Unsupported(attr)
