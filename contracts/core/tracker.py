"""Contracts of habutax.solver.DependencyTracker (C06; used by C01, C13).

Abstract view:  _unmet : Dep -> bag of waiters  (has, cnt, ln);  _met : bag of Dep.
Class invariant INV: every stored list is non-empty (has d => ln d >= 1) and the
multiset axioms (A-BAG).  Postconditions are stated over the *whole* view, so a
change that corrupts another key fails them.
"""
import z3

from pyvc import corevc
from pyvc.corevc import NAME, OBJ, View, AObj, ZBag, ZMapBag, SV, wrap

D = z3.Const('d', NAME)
X = z3.Const('x', OBJ)
D0 = z3.Const('d0', NAME)


def cls():
    from habutax import solver
    return solver.DependencyTracker


VIEWS = {('DependencyTracker', '_unmet'): View('mapbag', NAME, OBJ), ('DependencyTracker', '_met'): View('bag', NAME)}


def inv(U):
    return z3.ForAll([D], z3.Implies(U.has[D], U.ln[D] >= 1))


def same_U(U, U0, except_key=None):
    body = z3.And(U.has[D] == U0.has[D], U.ln[D] == U0.ln[D], z3.ForAll([X], U.cnt[D][X] == U0.cnt[D][X]))
    if except_key is not None:
        body = z3.Implies(D != except_key, body)
    return z3.ForAll([D], body)


def same_M(M, M0):
    return z3.And(M.size == M0.size, z3.ForAll([D], M.cnt[D] == M0.cnt[D]))


class TrackerSpec(corevc.Spec):
    views = VIEWS

    def __init__(self, method):
        self.method = method
        self.YP = None

    def make_state(self, it, nargs=0):
        U = ZMapBag.havoc(NAME, OBJ, '_unmet')
        M = ZBag.havoc(NAME, '_met')
        for f in U.wf() + M.wf() + [inv(U)]:
            it.run.fact(f)
        me = AObj(cls(), {} if self.method == '__init__' else {'_unmet': U, '_met': M}, name='tracker')
        args = [me]
        info = {}
        if self.method in ('add_unmet',):
            d, x = corevc.fresh('dependency_name', NAME), corevc.fresh('dependent', OBJ)
            args += [wrap(d), wrap(x)]
            info = {'d': d, 'x': x}
        elif self.method in ('meet', 'unmet_dependents'):
            d = corevc.fresh('dependency_name', NAME)
            args += [wrap(d)]
            info = {'d': d}
            if self.method == 'unmet_dependents':
                it.run.fact(U.has[d])      # requires: the dependency is registered (call sites iterate unmet_dependencies())
        if self.method == 'met_dependents':
            self.YP0 = z3.K(NAME, z3.K(OBJ, z3.IntVal(0)))
            it.ghost['YP'] = self.YP0
            it.ghost['src'] = corevc.fresh('src', z3.ArraySort(OBJ, NAME))      # ghost: the met key a dependent was last released from
            it.ghost['pre'] = me.snap()
        return args, info

    # ghost: pair-bag of (met dependency, released dependent)
    def on_yield(self, it, v, node, frame):
        met = frame.locals['met']
        YP = it.ghost['YP']
        d, x = corevc.to_term(met), corevc.to_term(v)
        it.ghost['YP'] = z3.Store(YP, d, z3.Store(YP[d], x, YP[d][x] + 1))
        it.ghost['src'] = z3.Store(it.ghost['src'], x, d)

    def havoc(self, it, selfobj, attrs, frame, local_names):
        super().havoc(it, selfobj, attrs, frame, local_names)
        if self.method == 'met_dependents':
            it.ghost['YP'] = corevc.fresh('YP', z3.ArraySort(NAME, z3.ArraySort(OBJ, z3.IntSort())))
            it.ghost['src'] = corevc.fresh('src', z3.ArraySort(OBJ, NAME))
            it.yielded = ZBag.havoc(OBJ, 'yielded')
            for f in it.yielded.wf():
                it.run.fact(f)

    def loop_invariant(self, node):
        if self.method != 'met_dependents':
            return None

        def I(it, me, frame):
            U, M = me.attrs['_unmet'], me.attrs['_met']
            pre = it.ghost['pre']
            U0, M0 = pre.attrs['_unmet'], pre.attrs['_met']
            YP = it.ghost['YP']
            out = [
                ('class-invariant', inv(U)),
                ('untouched-keys', z3.ForAll([D], z3.Implies(M0.cnt[D] == 0, z3.And(
                    M.cnt[D] == 0, U.has[D] == U0.has[D], U.ln[D] == U0.ln[D],
                    z3.ForAll([X], z3.And(U.cnt[D][X] == U0.cnt[D][X], YP[D][X] == 0)))))),
                ('conservation', z3.ForAll([D, X], z3.Implies(M0.cnt[D] > 0, YP[D][X] + U.cnt[D][X] == U0.cnt[D][X]))),
                ('released-nonneg', z3.ForAll([D, X], YP[D][X] >= 0)),
                # what was handed out (the yielded bag) against the pair ghost: never less than any single key released, always from
                # some key, and exactly the releases of one key when no other key released that dependent
                ('handed-out-covers-each-key', z3.ForAll([D, X], YP[D][X] <= it.yielded.cnt[X])),
                ('handed-out-has-a-source', z3.ForAll([X], z3.Implies(it.yielded.cnt[X] > 0, YP[it.ghost['src'][X]][X] > 0))),
                ('handed-out-exactly-when-one-key', z3.ForAll([D0, X], z3.Implies(z3.ForAll([D], z3.Implies(D != D0, YP[D][X] == 0)), it.yielded.cnt[X] == YP[D0][X]))),
                ('met-shrinks', z3.ForAll([D], z3.And(M.cnt[D] >= 0, M.cnt[D] <= M0.cnt[D]))),
                ('waiting-key-stays-met', z3.ForAll([D], z3.Implies(z3.And(M0.cnt[D] > 0, U.has[D]), M.cnt[D] > 0))),
                ('no-new-keys', z3.ForAll([D], z3.Implies(U.has[D], U0.has[D]))),
            ]
            return out

        def variant(it, me, frame):
            U, M = me.attrs['_unmet'], me.attrs['_met']
            h = M._head(it)
            return (M.size, z3.If(U.has[h], U.ln[h], 0))
        return {'inv': I, 'modifies': ['_unmet', '_met'], 'variant': variant}

    # postconditions: list of (label, goal) given pre/post state and outcome
    def post(self, it, pre, me, outcome, info):
        m = self.method
        if '_unmet' not in me.attrs or '_met' not in me.attrs:
            return [('attributes-initialised', z3.BoolVal(False))]
        U, M = me.attrs['_unmet'], me.attrs['_met']
        U0, M0 = (pre.attrs.get('_unmet'), pre.attrs.get('_met')) if m != '__init__' else (None, None)
        out = [('class-invariant', inv(U))]
        if outcome[0] != 'return':
            return [('no-exception', z3.BoolVal(False))]
        r = outcome[1]
        if m == '__init__':
            out += [('empty-unmet', z3.ForAll([D], z3.Not(U.has[D]))), ('empty-met', M.size == 0)]
        elif m == 'add_unmet':
            d, x = info['d'], info['x']
            out += [('registered-once-more', U.cnt[d][x] == U0.cnt[d][x] + 1),
                    ('key-present', U.has[d]),
                    ('length', U.ln[d] == U0.ln[d] + 1),
                    ('other-waiters-of-key-unchanged', z3.ForAll([X], z3.Implies(X != x, U.cnt[d][X] == U0.cnt[d][X]))),
                    ('other-keys-unchanged', same_U(U, U0, except_key=d)),
                    ('met-unchanged', same_M(M, M0))]
        elif m == 'has_met':
            out += [('result', corevc.to_term(r) == (M0.size > 0)), ('frame-unmet', same_U(U, U0)), ('frame-met', same_M(M, M0))]
        elif m == 'has_unmet':
            # witness form of the existential, both directions
            w = corevc.fresh('w', NAME)
            rt = corevc.to_term(r)
            out += [('result-true-has-witness', z3.Implies(rt, z3.Exists([D], z3.And(U0.has[D], U0.ln[D] > 0, M0.cnt[D] == 0)))),
                    ('result-false-means-none', z3.Implies(z3.Not(rt), z3.ForAll([D], z3.Not(z3.And(U0.has[D], U0.ln[D] > 0, M0.cnt[D] == 0))))),
                    ('frame-unmet', same_U(U, U0)), ('frame-met', same_M(M, M0))]
        elif m == 'meet':
            d = info['d']
            out += [('met-once-more', M.cnt[d] == M0.cnt[d] + 1), ('met-size', M.size == M0.size + 1),
                    ('other-met-unchanged', z3.ForAll([D], z3.Implies(D != d, M.cnt[D] == M0.cnt[D]))),
                    ('frame-unmet', same_U(U, U0))]
        elif m == 'unmet_dependencies':
            ok = isinstance(r, ZBag)
            out += [('returns-list', z3.BoolVal(ok))]
            if ok:
                out += [('exactly-the-keys', z3.ForAll([D], r.cnt[D] == z3.If(U0.has[D], 1, 0)))]
            out += [('frame-unmet', same_U(U, U0)), ('frame-met', same_M(M, M0))]
        elif m == 'unmet_dependents':
            d = info['d']
            ok = isinstance(r, corevc.MapBagEntry) and r.parent is U and r.k.sexpr() == d.sexpr()
            out += [('returns-the-waiters-of-d', z3.BoolVal(ok)), ('frame-unmet', same_U(U, U0)), ('frame-met', same_M(M, M0))]
        elif m == 'met_dependents':
            YP = it.ghost['YP']
            Y = it.yielded
            src = it.ghost['src']
            out += [('handed-out-covers-each-key', z3.ForAll([D, X], YP[D][X] <= Y.cnt[X])),
                    ('handed-out-has-a-source', z3.ForAll([X], z3.Implies(Y.cnt[X] > 0, YP[src[X]][X] > 0))),
                    ('handed-out-exactly-when-one-key', z3.ForAll([D0, X], z3.Implies(z3.ForAll([D], z3.Implies(D != D0, YP[D][X] == 0)), Y.cnt[X] == YP[D0][X])))]
            out += [('met-drained', M.size == 0),
                    ('released-exactly-the-registered-waiters-of-met-dependencies',
                     z3.ForAll([D, X], YP[D][X] == z3.If(z3.And(M0.cnt[D] > 0, U0.has[D]), U0.cnt[D][X], 0))),
                    ('met-keys-removed', z3.ForAll([D], z3.Implies(M0.cnt[D] > 0, z3.Not(U.has[D])))),
                    ('unmet-keys-untouched', z3.ForAll([D], z3.Implies(M0.cnt[D] == 0, z3.And(
                        U.has[D] == U0.has[D], U.ln[D] == U0.ln[D], z3.ForAll([X], U.cnt[D][X] == U0.cnt[D][X])))))]
        return out


METHODS = ['__init__', 'add_unmet', 'has_met', 'has_unmet', 'meet', 'unmet_dependencies', 'unmet_dependents', 'met_dependents']


# ---- native re-statement of the contracts, used only to concretise a refuted obligation (replay)
def native_states():
    import itertools
    waiters = ['W1', 'W2']
    lists = [[]] + [[w] for w in waiters] + [[a, b] for a in waiters for b in waiters]
    mets = [[]] + [[k] for k in 'abc'] + [[a, b] for a in 'ab' for b in 'abc']
    for la in lists:
        for lb in lists:
            for met in mets:
                um = {}
                if la:
                    um['a'] = list(la)
                if lb:
                    um['b'] = list(lb)
                yield um, list(met)


def native_check(method):
    """Run the real method on every small well-formed state; return the first state violating the contract."""
    import copy
    from collections import Counter
    T = cls()
    for um, met in native_states():
        for d in 'abc':
            for x in ['W1', 'W3']:
                t = T()
                t._unmet = copy.deepcopy(um)
                t._met = list(met)
                pre_um, pre_met = copy.deepcopy(um), list(met)
                try:
                    if method == '__init__':
                        t = T()
                        ok = t._unmet == {} and t._met == []
                    elif method == 'add_unmet':
                        t.add_unmet(d, x)
                        exp = copy.deepcopy(pre_um)
                        exp.setdefault(d, []).append(x)
                        ok = {k: Counter(v) for k, v in t._unmet.items()} == {k: Counter(v) for k, v in exp.items()} and t._met == pre_met
                    elif method == 'has_met':
                        ok = t.has_met() == (len(pre_met) > 0) and t._unmet == pre_um and t._met == pre_met
                    elif method == 'has_unmet':
                        ok = t.has_unmet() == any(len(v) > 0 and k not in pre_met for k, v in pre_um.items()) and t._unmet == pre_um and t._met == pre_met
                    elif method == 'meet':
                        t.meet(d)
                        ok = Counter(t._met) == Counter(pre_met + [d]) and t._unmet == pre_um
                    elif method == 'unmet_dependencies':
                        ok = Counter(t.unmet_dependencies()) == Counter(pre_um.keys()) and t._unmet == pre_um and t._met == pre_met
                    elif method == 'unmet_dependents':
                        if d not in pre_um:
                            continue
                        ok = Counter(t.unmet_dependents(d)) == Counter(pre_um[d]) and t._unmet == pre_um and t._met == pre_met
                    elif method == 'met_dependents':
                        out = []
                        for n, y in enumerate(t.met_dependents()):
                            out.append(y)
                            if n > 50:
                                break
                        exp = Counter()
                        for k in set(pre_met):
                            exp.update(pre_um.get(k, []))
                        rest = {k: v for k, v in pre_um.items() if k not in pre_met}
                        ok = Counter(out) == exp and t._met == [] and {k: Counter(v) for k, v in t._unmet.items()} == {k: Counter(v) for k, v in rest.items()}
                    else:
                        continue
                except BaseException as ex:
                    return {'unmet': pre_um, 'met': pre_met, 'args': [d, x], 'raised': f'{type(ex).__name__}: {ex}'}
                if not ok:
                    return {'unmet': pre_um, 'met': pre_met, 'args': [d, x], 'after_unmet': t._unmet, 'after_met': t._met}
    return None
