"""Contracts of habutax.solver.Solver (C01, C03, C04, C06, C13, C20) - DESIGN section 3.

Abstract view of the Solver state
    _form_map   : Name -> Obj (form classes)            FMAP
    _input_map  : Name -> Obj (Input objects)           IM
    _field_map  : Name -> Obj (Field objects)           FM
    forms       : Name -> Obj (Form instances)          F
    _v.values   : Name -> Val                           V
    _unattempted_fields   : bag of Obj                  Q
    _unimplemented_fields : bag of Name                 N
    _solving_fields       : set of Name                 S
    _field_dependencies / _input_dependencies : DependencyTracker (U, M)   UF,MF / UI,MI
    _i : InputStore, known through its contract; ghost C = set of provided keys
    _refused_input : Bool
Ghost: wd, wk : Name -> Name (what a waiting line waits on), R (released bag under iteration),
       inflight (the line being attempted).

Line oracle (A-PURE): field.value(i, v) ends in exactly one of
  Ok(x) | UnmetDependency(d) with d not in V | MissingInput(k) with k in IM, k not in C
  | MissingInputSpecification(k) with k not in IM | InvalidInput(k, text) with k in IM, k in C
  | FieldNotImplemented(name_of field) | another exception,
which is what the (separately verified) contracts of FormAccessor / ValueStore /
InputStore.__getitem__ give for any pure sequential reader.
"""
import z3

from pyvc import corevc, sym
from pyvc.corevc import NAME, OBJ, View, AObj, Opaque, ZBag, ZMapBag, ZMap, ZSet, SV, wrap, fresh, to_term
from pyvc.sym import Raised, Unsupported

VAL = z3.DeclareSort('Val')
name_of = z3.Function('name_of', OBJ, NAME)            # Field.name() / Input.name()
form_part = z3.Function('form_part', NAME, NAME)       # 'form.line'.split('.')[0]
base_part = z3.Function('base_part', NAME, NAME)
valid_in = z3.Function('valid', OBJ, z3.StringSort(), z3.BoolSort())   # Input.valid(string)

# The catalogue is a fixed function of names (A-CAT): what a form declares depends only on its name.
DECL_LINE = z3.Function('declares_line', NAME, z3.BoolSort())     # L is a line declared by the form form_part(L)
REQ_LINE = z3.Function('requires_line', NAME, z3.BoolSort())      # ... and it is one of its required lines
DECL_INPUT = z3.Function('declares_input', NAME, z3.BoolSort())
class_part = z3.Function('class_part', NAME, NAME)                # 'form:inst' -> 'form'
instance_part = z3.Function('instance_part', NAME, NAME)

L = z3.Const('L', NAME)
L2 = z3.Const('L2', NAME)
Fo = z3.Const('f', OBJ)
Dn = z3.Const('d', NAME)

VIEWS = {
    ('Solver', '_form_map'): View('map', NAME, OBJ), ('Solver', '_input_map'): View('map', NAME, OBJ),
    ('Solver', '_field_map'): View('map', NAME, OBJ), ('Solver', 'forms'): View('map', NAME, OBJ),
    ('Solver', '_unattempted_fields'): View('bag', OBJ), ('Solver', '_unimplemented_fields'): View('bag', NAME),
    ('Solver', '_solving_fields'): View('set', NAME),
    ('DependencyTracker', '_unmet'): View('mapbag', NAME, OBJ), ('DependencyTracker', '_met'): View('bag', NAME),
    ('ValueStore', 'values'): View('map', NAME, VAL),
}


def classes():
    from habutax import solver, values, inputs, fields, form
    return solver, values, inputs, fields, form


class St(object):
    """Convenience accessor over the abstract Solver state."""
    def __init__(self, me, ghost):
        a = me.attrs
        self.FMAP, self.IM, self.FM, self.F = a['_form_map'], a['_input_map'], a['_field_map'], a['forms']
        self.V = a['_v'].attrs['values']
        self.Q, self.N, self.S = a['_unattempted_fields'], a['_unimplemented_fields'], a['_solving_fields']
        self.UF, self.MF = a['_field_dependencies'].attrs['_unmet'], a['_field_dependencies'].attrs['_met']
        self.UI, self.MI = a['_input_dependencies'].attrs['_unmet'], a['_input_dependencies'].attrs['_met']
        self.refused = a['_refused_input']
        self.C = ghost['C']
        self.A = ghost.get('A') or ZSet(NAME, z3.K(NAME, z3.BoolVal(False)), 'A')
        self.ticks = ghost.get('ticks', z3.IntVal(0))
        zi, zb = z3.K(NAME, z3.IntVal(0)), z3.K(OBJ, z3.K(NAME, z3.BoolVal(False)))
        self.ev, self.wt, self.sl = ghost.get('ev', zi), ghost.get('wt', zi), ghost.get('sl', zi)
        self.wtdF, self.wtdI, self.ldd = ghost.get('wtdF', zb), ghost.get('wtdI', zb), ghost.get('ldd', zb)
        self.Rk = ghost.get('Rk')
        self.wd, self.wk = ghost['wd'], ghost['wk']
        self.R = ghost.get('R') or ZBag(OBJ, name='R')
        self.inflight = ghost.get('inflight')


def fld(s, l):
    return s.FM.val[l]


def located(s, l):
    """Line l has a value, is recorded unimplemented, or an attempt of it is pending somewhere."""
    f = fld(s, l)
    alts = [s.V.has[l], s.N.cnt[l] >= 1, s.Q.cnt[f] >= 1,
            z3.And(s.UF.has[s.wd[l]], s.UF.cnt[s.wd[l]][f] >= 1),
            z3.And(s.UI.has[s.wk[l]], s.UI.cnt[s.wk[l]][f] >= 1),
            s.R.cnt[f] >= 1]
    if s.inflight is not None:
        alts.append(l == s.inflight)
    return z3.Or(*alts)


def tokens(s, l):
    """How many places hold line l: queue, released list under iteration, the wait it is registered for (field / input),
    the attempt in flight, and "done" (has a value / recorded unimplemented)."""
    f = fld(s, l)
    one = lambda b: z3.If(b, 1, 0)
    t = s.Q.cnt[f] + s.R.cnt[f] + s.UF.cnt[s.wd[l]][f] + s.UI.cnt[s.wk[l]][f] + one(s.V.has[l]) + s.N.cnt[l]
    if s.inflight is not None:
        t = t + one(l == s.inflight)
    return t


def known(s, f):
    """f is the registered Field object of a scheduled line."""
    return z3.And(s.FM.has[name_of(f)], s.FM.val[name_of(f)] == f, s.S.mem[name_of(f)])


def invariant(s):
    """Inv: list of (label, formula)."""
    return [
        ('field-map-coherent', z3.ForAll([L], z3.Implies(s.FM.has[L], name_of(s.FM.val[L]) == L))),
        ('input-map-coherent', z3.ForAll([L], z3.Implies(s.IM.has[L], name_of(s.IM.val[L]) == L))),
        ('scheduled-lines-are-known', z3.ForAll([L], z3.Implies(s.S.mem[L], s.FM.has[L]))),
        ('queue-holds-scheduled-lines', z3.ForAll([Fo], z3.Implies(s.Q.cnt[Fo] > 0, known(s, Fo)))),
        ('released-are-scheduled-lines', z3.ForAll([Fo], z3.Implies(s.R.cnt[Fo] > 0, known(s, Fo)))),
        ('field-waiters-are-scheduled-lines', z3.ForAll([Dn, Fo], z3.Implies(s.UF.cnt[Dn][Fo] > 0, z3.And(known(s, Fo), s.S.mem[Dn])))),
        ('input-waiters-are-scheduled-lines', z3.ForAll([Dn, Fo], z3.Implies(s.UI.cnt[Dn][Fo] > 0, z3.And(known(s, Fo), s.IM.has[Dn])))),
        ('no-lost-line', z3.ForAll([L], z3.Implies(s.S.mem[L], located(s, L)))),
        ('wait-on-field-is-justified', z3.ForAll([Dn, Fo], z3.Implies(s.UF.cnt[Dn][Fo] > 0, z3.Or(z3.Not(s.V.has[Dn]), s.MF.cnt[Dn] > 0)))),
        ('wait-on-input-is-justified', z3.ForAll([Dn, Fo], z3.Implies(s.UI.cnt[Dn][Fo] > 0, z3.Or(z3.Not(s.C.mem[Dn]), s.MI.cnt[Dn] > 0)))),
        ('met-fields-have-values', z3.ForAll([Dn], z3.Implies(s.MF.cnt[Dn] > 0, s.V.has[Dn]))),
        ('met-inputs-are-provided', z3.ForAll([Dn], z3.Implies(s.MI.cnt[Dn] > 0, s.C.mem[Dn]))),
        ('registered-lines-belong-to-loaded-forms', z3.ForAll([L], z3.Implies(s.FM.has[L], z3.And(s.F.has[form_part(L)], DECL_LINE(L))))),
        ('loaded-forms-have-all-their-lines-registered', z3.ForAll([L], z3.Implies(z3.And(s.F.has[form_part(L)], DECL_LINE(L)), s.FM.has[L]))),
        ('required-lines-of-loaded-forms-are-scheduled', z3.ForAll([L], z3.Implies(z3.And(s.F.has[form_part(L)], REQ_LINE(L)), s.S.mem[L]))),
        ('tracker-lists-nonempty-F', z3.ForAll([Dn], z3.Implies(s.UF.has[Dn], s.UF.ln[Dn] >= 1))),
        ('tracker-lists-nonempty-I', z3.ForAll([Dn], z3.Implies(s.UI.has[Dn], s.UI.ln[Dn] >= 1))),
        ('every-answer-given-is-stored', z3.ForAll([L], z3.Implies(s.A.mem[L], s.C.mem[L]))),
        # C06 accounting: a line waits on at most one thing, registered once, and that thing is the one its ghost names
        ('a-field-wait-is-the-registered-one', z3.ForAll([Dn, Fo], z3.Implies(s.UF.cnt[Dn][Fo] > 0, z3.And(s.UF.cnt[Dn][Fo] == 1, s.wd[name_of(Fo)] == Dn)))),
        ('an-input-wait-is-the-registered-one', z3.ForAll([Dn, Fo], z3.Implies(s.UI.cnt[Dn][Fo] > 0, z3.And(s.UI.cnt[Dn][Fo] == 1, s.wk[name_of(Fo)] == Dn)))),
        ('values-belong-to-scheduled-lines', z3.ForAll([L], z3.Implies(s.V.has[L], s.S.mem[L]))),
        ('unimplemented-lines-are-scheduled', z3.ForAll([L], z3.Implies(s.N.cnt[L] > 0, s.S.mem[L]))),
        # ... and every scheduled line is in exactly one place (never queued twice, never re-queued once done)
        ('exactly-one-place-per-line', z3.ForAll([L], z3.Implies(s.S.mem[L], tokens(s, L) == 1))),
        # work accounting: every evaluation of a line ended in a value / not-implemented, in a newly registered wait, or in the
        # loading of an input declaration (the evaluation in flight is counted when the attempt returns)
        ('evaluations-are-accounted-for', z3.ForAll([L], s.ev[L] == s.wt[L] + s.sl[L] + z3.If(s.V.has[L], 1, 0) + s.N.cnt[L])),
        # the things a line waited for are distinct: a recorded wait is either still registered or its dependency has been met for good
        ('a-past-wait-on-a-line-is-over-for-good', z3.ForAll([Fo, Dn], z3.Implies(s.wtdF[Fo][Dn], z3.Or(s.V.has[Dn], s.UF.cnt[Dn][Fo] > 0)))),
        ('a-past-wait-on-an-input-is-over-for-good', z3.ForAll([Fo, Dn], z3.Implies(s.wtdI[Fo][Dn], z3.Or(s.C.mem[Dn], s.UI.cnt[Dn][Fo] > 0)))),
        ('a-loaded-declaration-stays-loaded', z3.ForAll([Fo, Dn], z3.Implies(s.ldd[Fo][Dn], s.IM.has[Dn]))),
    ]


def grows(s0, s, attempted=None):
    """Frame: nothing is removed; no value is overwritten except by a re-evaluation of that same line
    (which by A-PURE and stability of the line oracle yields the same value) (C03 (c), C20 I11)."""
    same = (lambda l: s.V.val[l] == s0.V.val[l]) if attempted is None else (lambda l: z3.Or(s.V.val[l] == s0.V.val[l], l == attempted))
    return [
        ('values-only-grow', z3.ForAll([L], z3.Implies(s0.V.has[L], z3.And(s.V.has[L], same(L))))),
        ('inputs-only-grow', z3.ForAll([L], z3.Implies(s0.C.mem[L], s.C.mem[L]))),
        ('answers-given-only-grow', z3.ForAll([L], z3.Implies(s0.A.mem[L], s.A.mem[L]))),
        ('work-counter-only-grows', s.ticks >= s0.ticks),
        ('per-line-counters-only-grow', z3.ForAll([L], z3.And(s.ev[L] >= s0.ev[L], s.wt[L] >= s0.wt[L], s.sl[L] >= s0.sl[L]))),
        ('scheduled-only-grows', z3.ForAll([L], z3.Implies(s0.S.mem[L], s.S.mem[L]))),
        ('field-map-only-grows', z3.ForAll([L], z3.Implies(s0.FM.has[L], z3.And(s.FM.has[L], s.FM.val[L] == s0.FM.val[L])))),
        ('input-map-only-grows', z3.ForAll([L], z3.Implies(s0.IM.has[L], s.IM.has[L]))),
        ('loaded-forms-only-grow', z3.ForAll([L], z3.Implies(s0.F.has[L], s.F.has[L]))),
        ('unimplemented-only-grows', z3.ForAll([L], s.N.cnt[L] >= s0.N.cnt[L])),
    ]


class SolverSpec(corevc.Spec):
    views = VIEWS
    name_of = staticmethod(lambda t: name_of(t))

    def __init__(self, unit, has_prompt=True):
        self.unit = unit
        self.has_prompt = has_prompt

    # ------------------------------------------------------------ state
    def fresh_tracker(self, it, nm):
        solver, *_ = classes()
        U = ZMapBag.havoc(NAME, OBJ, nm + '._unmet')
        M = ZBag.havoc(NAME, nm + '._met')
        for f in U.wf() + M.wf():
            it.run.fact(f)
        return AObj(solver.DependencyTracker, {'_unmet': U, '_met': M}, name=nm)

    def fresh_state(self, it):
        solver, values, inputs, fields, form = classes()
        a = {}
        a['_prompt'] = Opaque(fresh('prompt', OBJ), 'prompt') if self.has_prompt else None
        a['_refused_input'] = SV('bool', fresh('refused', z3.BoolSort())) if self.has_prompt else True
        for nm in ('_form_map', '_input_map', '_field_map', 'forms'):
            a[nm] = ZMap.havoc(NAME, OBJ, nm)
        a['_i'] = Opaque(fresh('inputstore', OBJ), 'inputstore')
        a['_v'] = AObj(values.ValueStore, {'values': ZMap.havoc(NAME, VAL, 'values')}, name='_v')
        a['_unattempted_fields'] = ZBag.havoc(OBJ, 'Q')
        a['_unimplemented_fields'] = ZBag.havoc(NAME, 'N')
        a['_solving_fields'] = ZSet.havoc(NAME, 'S')
        for b in (a['_unattempted_fields'], a['_unimplemented_fields']):
            for f in b.wf():
                it.run.fact(f)
        a['_field_dependencies'] = self.fresh_tracker(it, 'FD')
        a['_input_dependencies'] = self.fresh_tracker(it, 'ID')
        a['_done_solving'] = False
        a['_solved'] = False
        me = AObj(solver.Solver, a, name='solver')
        it.ghost['C'] = ZSet.havoc(NAME, 'C')
        it.ghost['A'] = ZSet.havoc(NAME, 'A')      # ghost: inputs the user has answered (prompt returned supplied with a valid string)
        # ghost work counter (C06): +1 per evaluation of a line, per question asked, per drain of a non-empty "met" list
        it.ghost['ticks'] = fresh('ticks', z3.IntSort())
        self.fresh_counters(it)
        it.ghost['wd'] = fresh('wd', z3.ArraySort(NAME, NAME))
        it.ghost['wk'] = fresh('wk', z3.ArraySort(NAME, NAME))
        it.ghost['R'] = ZBag(OBJ, name='R')
        it.ghost['inflight'] = None
        it.run.fact(z3.ForAll([L], z3.Implies(REQ_LINE(L), DECL_LINE(L))))
        return me

    def fresh_counters(self, it):
        """Per-line ghost counters (C06): evaluations, waits registered, declarations loaded on the line's behalf; and the
        relations "line L has waited on field / input d", "a declaration of input k was loaded for line L"."""
        for nm in ('ev', 'wt', 'sl'):
            it.ghost[nm] = fresh(nm, z3.ArraySort(NAME, z3.IntSort()))
        for nm in ('wtdF', 'wtdI', 'ldd'):
            it.ghost[nm] = fresh(nm, z3.ArraySort(OBJ, z3.ArraySort(NAME, z3.BoolSort())))     # keyed by the line's Field object

    def st(self, it, me):
        return St(me, it.ghost)

    def assume_inv(self, it, me):
        for label, f in invariant(self.st(it, me)):
            it.run.fact(f)

    def havoc(self, it, me, attrs, frame, local_names):
        """Loop havoc: everything a loop of solve() can change (or only the listed maps)."""
        solver, values, inputs, fields, form = classes()
        a = me.attrs
        if attrs and attrs != ['*']:
            for nm in attrs:
                a[nm] = ZMap.havoc(NAME, OBJ, nm)
            return
        for nm in ('_input_map', '_field_map', 'forms'):
            a[nm] = ZMap.havoc(NAME, OBJ, nm)
        a['_v'] = AObj(values.ValueStore, {'values': ZMap.havoc(NAME, VAL, 'values')}, name='_v')
        a['_unattempted_fields'] = ZBag.havoc(OBJ, 'Q')
        a['_unimplemented_fields'] = ZBag.havoc(NAME, 'N')
        a['_solving_fields'] = ZSet.havoc(NAME, 'S')
        for b in (a['_unattempted_fields'], a['_unimplemented_fields']):
            for f in b.wf():
                it.run.fact(f)
        a['_field_dependencies'] = self.fresh_tracker(it, 'FD')
        a['_input_dependencies'] = self.fresh_tracker(it, 'ID')
        if self.has_prompt:
            a['_refused_input'] = SV('bool', fresh('refused', z3.BoolSort()))
        it.ghost['C'] = ZSet.havoc(NAME, 'C')
        it.ghost['A'] = ZSet.havoc(NAME, 'A')
        it.ghost['ticks'] = fresh('ticks', z3.IntSort())
        self.fresh_counters(it)
        it.ghost['wd'] = fresh('wd', z3.ArraySort(NAME, NAME))
        it.ghost['wk'] = fresh('wk', z3.ArraySort(NAME, NAME))
        # frame facts relative to the state at loop entry (everything only grows)
        pre = it.ghost.get('entry_state')
        if pre is not None:
            for label, f in grows(pre, self.st(it, me)):
                it.run.fact(f)

    # ------------------------------------------------------------ opaque objects
    def sym_attr_call(self, it, obj, attr, args, node):
        return NotImplemented

    def opaque_call(self, it, obj, attr, args, kwargs, node):
        solver, values, inputs, fields, form = classes()
        k = obj.kind
        if k in ('field', 'input') and attr == 'name' and not args:
            return wrap(name_of(obj.ref))
        if k == 'field' and attr == 'form' and not args:
            return Opaque(z3.Function('form_of_field', OBJ, OBJ)(obj.ref), 'form')
        if k == 'field' and attr == 'value' and len(args) == 2:
            it.ghost['oracle_args'] = args
            return self.line_oracle(it, obj, node)
        if k == 'input' and attr == 'valid' and len(args) == 1:
            return SV('bool', valid_in(obj.ref, to_term(args[0])))
        if k == 'inputstore' and attr == 'update_input_spec':
            return None
        if k == 'inputstore' and attr == '__contains__' and len(args) == 1:
            # InputStore.__contains__: has_option(section, base) of the file - an uninterpreted fact about the file
            return SV('bool', z3.Function('file_has_option', NAME, z3.BoolSort())(to_term(args[0])))
        if k == 'inputstore' and attr == '__getitem__' and len(args) == 1:
            # InputStore.__getitem__ outside a line evaluation (C11 contract): undeclared / missing / rejected / a value
            kk = to_term(args[0])
            me = it.ghost['self']
            s = self.st(it, me)
            if it.run.branch(z3.Not(s.IM.has[kk]), where=f'iget-undeclared@{node.lineno}'):
                raise Raised(inputs.MissingInputSpecification(args[0]), node)
            if it.run.branch(z3.Not(s.C.mem[kk]), where=f'iget-missing@{node.lineno}'):
                raise Raised(inputs.MissingInput(args[0]), node)
            if it.run.branch(fresh('iget_invalid', z3.BoolSort()), where=f'iget-invalid@{node.lineno}'):
                raise Raised(inputs.InvalidInput(args[0], wrap(fresh('text', z3.StringSort()))), node)
            return wrap(fresh('input_value', VAL))
        if k == 'newform':
            info = obj.info
            if attr == 'inputs' and not args:
                return info['inputs'].snap()
            if attr == 'fields' and not args:
                return info['fields'].snap()
            if attr == 'required_fields' and not args:
                return info['required'].snap()
            if attr == 'name' and not args:
                return wrap(info['name'])
        raise Unsupported(f'opaque {k}.{attr}')

    def line_oracle(self, it, fobj, node):
        solver, values, inputs, fields, form = classes()
        me = it.ghost['self']
        s = self.st(it, me)
        r = it.run
        it.ghost['evaluations'] = it.ghost.get('evaluations', 0) + 1
        it.ghost['ticks'] = it.ghost.get('ticks', z3.IntVal(0)) + 1
        ln = name_of(fobj.ref)
        if 'ev' in it.ghost:
            it.ghost['ev'] = z3.Store(it.ghost['ev'], ln, it.ghost['ev'][ln] + 1)
        acc = it.ghost.get('oracle_args')
        ok_acc = False
        if acc is not None and len(acc) == 2:
            ai, av = acc
            ok_acc = isinstance(ai, form.FormAccessor) and isinstance(av, form.FormAccessor) and ai.mapping is me.attrs['_i'] \
                and av.mapping is me.attrs['_v'] and isinstance(ai.form, Opaque) and isinstance(av.form, Opaque) \
                and ai.form.ref.sexpr() == z3.Function('form_of_field', OBJ, OBJ)(fobj.ref).sexpr() and av.form.ref.sexpr() == ai.form.ref.sexpr()
        it.oblige(f'{it.site(node)}/eval/evaluated-against-the-current-input-and-value-stores', z3.BoolVal(bool(ok_acc)))
        if r.branch(fresh('line_ok', z3.BoolSort()), where=f'oracle-ok@{node.lineno}'):
            v = fresh('value', VAL)
            it.ghost['oracle_ok'] = (name_of(fobj.ref), v)
            return wrap(v)
        if r.branch(fresh('line_unmet', z3.BoolSort()), where=f'oracle-unmet@{node.lineno}'):
            d = fresh('dep', NAME)
            r.fact(z3.Not(s.V.has[d]))
            it.ghost['oracle_dep'] = d
            raise Raised(values.UnmetDependency(wrap(d)), node)
        if r.branch(fresh('line_missing_input', z3.BoolSort()), where=f'oracle-mi@{node.lineno}'):
            k = fresh('key', NAME)
            r.fact(z3.And(s.IM.has[k], z3.Not(s.C.mem[k])))
            it.ghost['oracle_mi'] = k
            raise Raised(inputs.MissingInput(wrap(k)), node)
        if r.branch(fresh('line_missing_spec', z3.BoolSort()), where=f'oracle-mis@{node.lineno}'):
            k = fresh('key', NAME)
            r.fact(z3.Not(s.IM.has[k]))
            it.ghost['oracle_key'] = k
            if 'sl' in it.ghost:
                # a declaration is loaded on behalf of this line at most once per undeclared input
                it.oblige(f'{it.site(node)}/eval/a-declaration-is-loaded-for-a-line-once-per-input', z3.Not(s.ldd[fobj.ref][k]))
                it.ghost['sl'] = z3.Store(it.ghost['sl'], ln, it.ghost['sl'][ln] + 1)
                it.ghost['ldd'] = z3.Store(it.ghost['ldd'], fobj.ref, z3.Store(it.ghost['ldd'][fobj.ref], k, z3.BoolVal(True)))
            raise Raised(inputs.MissingInputSpecification(wrap(k)), node)
        if r.branch(fresh('line_invalid_input', z3.BoolSort()), where=f'oracle-inv@{node.lineno}'):
            # InputStore.__getitem__ (C11): a provided text the validator rejects is reported as InvalidInput, never turned into a value
            k = fresh('key', NAME)
            r.fact(z3.And(s.IM.has[k], s.C.mem[k]))
            raise Raised(inputs.InvalidInput(wrap(k), wrap(fresh('text', z3.StringSort()))), node)
        if r.branch(fresh('line_ni', z3.BoolSort()), where=f'oracle-ni@{node.lineno}'):
            it.ghost['oracle_ni'] = name_of(fobj.ref)
            raise Raised(fields.FieldNotImplemented(wrap(name_of(fobj.ref))), node)
        raise Raised(RuntimeError('any other exception raised by a line definition'), node)

    def call_hook(self, it, f, args, kwargs, node):
        solver, values, inputs, fields, form = classes()
        # self._i[name] = value / FormAccessor(...) are handled through Opaque + native construction
        if f is form.name_and_instance:
            n = to_term(args[0])
            return (wrap(class_part(n)), wrap(instance_part(n)))
        if isinstance(f, SV) and f.kind == 'obj':
            # calling a form class: self._form_map[form_name](solver=self, instance=...)
            return self.new_form(it, f, kwargs, node)
        if f is isinstance and len(args) == 2 and isinstance(args[0], Opaque) and args[1] in (list, tuple, dict, set, frozenset, str, int, float, bool, bytes):
            return False      # the objects of the contract view are instances of habutax classes, never of a builtin container or scalar
        if f is isinstance and len(args) == 2 and isinstance(args[0], Opaque) and isinstance(args[1], type):
            # the class of an object the contract view does not construct: an uninterpreted predicate of the object
            return SV('bool', z3.Function(f'is_instance_{args[1].__name__}', OBJ, z3.BoolSort())(args[0].ref))
        if isinstance(f, Opaque) and f.kind == 'prompt':
            value = SV('str', fresh('answer', z3.StringSort()))
            supplied = SV('bool', fresh('supplied', z3.BoolSort()))
            me = it.ghost['self']
            s = self.st(it, me)
            missing = to_term(args[0])
            k = name_of(missing)
            nb = args[1]
            ref = me.attrs['_refused_input']
            it.oblige(f'prompt@{it.site(node)}/only-while-not-refused', z3.Not(to_term(ref)) if isinstance(ref, SV) else z3.BoolVal(ref is False))
            it.oblige(f'prompt@{it.site(node)}/asked-input-is-declared', z3.And(s.IM.has[k], s.IM.val[k] == missing))
            it.oblige(f'prompt@{it.site(node)}/asked-input-is-not-already-supplied', z3.Not(s.C.mem[k]))
            it.oblige(f'prompt@{it.site(node)}/asked-input-has-a-registered-waiting-line', z3.And(s.UI.has[k], s.UI.ln[k] >= 1))
            is_entry = isinstance(nb, corevc.MapBagEntry) and nb.parent is s.UI
            it.oblige(f'prompt@{it.site(node)}/needed-by-is-the-list-of-lines-waiting-on-that-input',
                      z3.And(z3.BoolVal(bool(is_entry)), (nb.k == k) if is_entry else z3.BoolVal(False)))
            it.ghost['prompts'] = it.ghost.get('prompts', []) + [(k, value, supplied)]
            it.ghost['ticks'] = it.ghost.get('ticks', z3.IntVal(0)) + 1
            # A-PROMPT: the callback either raises (input ended, a signal, ...) or returns; an answer counts as given
            # when it is returned as supplied and passes the input's validator (C11 proves prompt_input returns only such answers)
            if it.run.branch(fresh('prompt_raises', z3.BoolSort()), where=f'prompt-raises@{node.lineno}'):
                raise Raised(RuntimeError('exception raised by the prompt callback (input ended, interrupt, ...)'), node)
            A = s.A
            given = z3.And(to_term(supplied), valid_in(s.IM.val[k], to_term(value)))
            it.ghost['A'] = ZSet(NAME, z3.Store(A.mem, k, z3.Or(A.mem[k], given)), 'A')
            return (value, supplied)
        return NotImplemented

    def new_form(self, it, cls, kwargs, node):
        """A-FORM (C17): constructing the form class registered under class_part(n) with instance_part(n)
        yields a form named n whose inputs / lines / required lines are exactly those the catalogue declares for n."""
        nm = it.ghost.get('adding_form_name')
        if nm is None:
            raise Unsupported('form construction outside _add_form')
        ins, fl, req = ZBag.havoc(OBJ, 'nf.inputs'), ZBag.havoc(OBJ, 'nf.fields'), ZBag.havoc(OBJ, 'nf.required')
        for b in (ins, fl, req):
            for f in b.wf():
                it.run.fact(f)
        x = z3.Const('_x', OBJ)
        lineobj = z3.Function(f'lineobj!{next(corevc._fresh)}', NAME, OBJ)
        inobj = z3.Function(f'inobj!{next(corevc._fresh)}', NAME, OBJ)
        it.run.fact(z3.ForAll([x], z3.Implies(fl.cnt[x] > 0, z3.And(fl.cnt[x] == 1, DECL_LINE(name_of(x)), form_part(name_of(x)) == nm, lineobj(name_of(x)) == x))))
        it.run.fact(z3.ForAll([L], z3.Implies(z3.And(DECL_LINE(L), form_part(L) == nm), z3.And(fl.cnt[lineobj(L)] > 0, name_of(lineobj(L)) == L))))
        it.run.fact(z3.ForAll([x], req.cnt[x] == z3.If(z3.And(fl.cnt[x] > 0, REQ_LINE(name_of(x))), 1, 0)))
        it.run.fact(z3.ForAll([L], z3.Implies(REQ_LINE(L), DECL_LINE(L))))
        it.run.fact(z3.ForAll([x], z3.Implies(ins.cnt[x] > 0, z3.And(ins.cnt[x] == 1, DECL_INPUT(name_of(x)), form_part(name_of(x)) == nm, inobj(name_of(x)) == x))))
        it.run.fact(z3.ForAll([L], z3.Implies(z3.And(DECL_INPUT(L), form_part(L) == nm), z3.And(ins.cnt[inobj(L)] > 0, name_of(inobj(L)) == L))))
        o = Opaque(fresh('newform', OBJ), 'newform')
        o.info = {'inputs': ins, 'fields': fl, 'required': req, 'name': nm, 'lineobj': lineobj, 'inobj': inobj}
        it.ghost['newform'] = o
        return o


class NamedSV(SV):
    pass


# =====================================================================================
# units: how each function under contract is set up, what it may assume, what it must ensure
def _spec_methods():
    solver, values, inputs, fields, form = classes()

    def sym_attr_call(self, it, obj, attr, args, node):
        if attr == 'split' and len(args) == 1 and args[0] == '.' and obj.t.sort() == NAME:
            return (wrap(form_part(obj.t)), wrap(base_part(obj.t)))
        if obj.t.sort() == OBJ and not args:
            # a line / input definition taken out of the registered maps
            if attr == 'name':
                return wrap(name_of(obj.t))
            if attr == 'form':
                return Opaque(z3.Function('form_of_field', OBJ, OBJ)(obj.t), 'form')
        return NotImplemented

    def spec_call_hook(self, it, f, args, kwargs, node):
        import types as _t
        r = SolverSpec._base_call_hook(self, it, f, args, kwargs, node)
        if r is not NotImplemented:
            return r
        if f is form.FormAccessor:
            return form.FormAccessor(*args)
        if isinstance(f, _t.MethodType) and isinstance(f.__self__, AObj) and f.__self__.cls is solver.DependencyTracker:
            nm = f.__func__.__name__
            me = it.ghost['self']
            if nm == 'add_unmet' and len(args) == 2:
                r = it.call_function(f.__func__, [f.__self__] + list(args), kwargs, node)
                d, x = to_term(args[0]), to_term(args[1])
                key = 'wd' if f.__self__ is me.attrs['_field_dependencies'] else 'wk'
                it.ghost[key] = z3.Store(it.ghost[key], name_of(x), d)   # ghost: the line now waits on d
                if 'wt' in it.ghost:
                    lx = name_of(x)
                    rel = 'wtdF' if key == 'wd' else 'wtdI'
                    it.oblige(f'{it.site(node)}/add_unmet/a-line-waits-for-a-thing-at-most-once', z3.Not(it.ghost[rel][x][d]))
                    it.ghost['wt'] = z3.Store(it.ghost['wt'], lx, it.ghost['wt'][lx] + 1)
                    it.ghost[rel] = z3.Store(it.ghost[rel], x, z3.Store(it.ghost[rel][x], d, z3.BoolVal(True)))
                regs = it.ghost.setdefault('registrations', [])
                regs.append((key, d, x))
                return r
            if nm == 'met_dependents' and not args:
                return self.drain_contract(it, f.__self__, node)
        return NotImplemented

    def opaque_setitem(self, it, obj, attr, args, kwargs, node):
        if obj.kind == 'inputstore' and attr == '__setitem__':
            k = to_term(args[0])
            me = it.ghost['self']
            s = self.st(it, me)
            # InputStore.__setitem__ (verified in C11): MissingInputSpecification unless the key is declared
            if it.run.branch(z3.Not(s.IM.has[k]), where=f'iset@{node.lineno}'):
                raise Raised(inputs.MissingInputSpecification(args[0]), node)
            it.oblige(f'store@{it.site(node)}/stored-answer-passed-the-validator', valid_in(s.IM.val[k], to_term(args[1])))
            C = it.ghost['C']
            C2 = ZSet(NAME, z3.Store(C.mem, k, z3.BoolVal(True)), 'C')
            it.ghost['C'] = C2
            it.ghost.setdefault('answers_stored', []).append(k)
            return None
        return SolverSpec._base_opaque_call(self, it, obj, attr, args, kwargs, node)

    def drain_contract(self, it, tracker, node):
        """Caller-side contract of met_dependents() drained by sorted()/list() (verified in contracts/core/tracker.py)."""
        U0, M0 = tracker.attrs['_unmet'].snap(), tracker.attrs['_met'].snap()
        U, M = ZMapBag.havoc(NAME, OBJ, 'U'), ZBag(NAME, name='M')
        Y = ZBag.havoc(OBJ, 'released')
        YP = fresh('YP', z3.ArraySort(NAME, z3.ArraySort(OBJ, z3.IntSort())))
        src = fresh('src', z3.ArraySort(OBJ, NAME))
        for f in U.wf() + Y.wf():
            it.run.fact(f)
        d, x = z3.Const('_d', NAME), z3.Const('_x', OBJ)
        it.run.fact(z3.ForAll([d, x], YP[d][x] == z3.If(z3.And(M0.cnt[d] > 0, U0.has[d]), U0.cnt[d][x], 0)))
        it.run.fact(z3.ForAll([d], z3.Implies(M0.cnt[d] > 0, z3.Not(U.has[d]))))
        it.run.fact(z3.ForAll([d], z3.Implies(M0.cnt[d] == 0, z3.And(U.has[d] == U0.has[d], U.ln[d] == U0.ln[d],
                                                                       z3.ForAll([x], U.cnt[d][x] == U0.cnt[d][x])))))
        it.run.fact(z3.ForAll([d, x], YP[d][x] <= Y.cnt[x]))
        it.run.fact(z3.ForAll([x], z3.Implies(Y.cnt[x] > 0, YP[src[x]][x] > 0)))
        # exactness (tracker post "handed-out-exactly-when-one-key"), instantiated at the key the waiter's ghost names
        me = it.ghost['self']
        wmap = it.ghost['wd'] if tracker is me.attrs['_field_dependencies'] else it.ghost['wk']
        d2 = z3.Const('_d2', NAME)
        it.run.fact(z3.ForAll([x], z3.Implies(z3.ForAll([d2], z3.Implies(d2 != wmap[name_of(x)], YP[d2][x] == 0)), Y.cnt[x] == YP[wmap[name_of(x)]][x])))
        tracker.attrs['_unmet'], tracker.attrs['_met'] = U, M
        it.ghost['ticks'] = it.ghost.get('ticks', z3.IntVal(0)) + z3.If(M0.size > 0, 1, 0)     # emptying a non-empty "met" list is work
        return Y

    SolverSpec.sym_attr_call = sym_attr_call
    SolverSpec._base_call_hook = SolverSpec.call_hook
    SolverSpec.call_hook = spec_call_hook
    SolverSpec._base_opaque_call = SolverSpec.opaque_call
    SolverSpec.opaque_call = opaque_setitem
    SolverSpec.drain_contract = drain_contract


_spec_methods()


def add_form_contract(spec):
    """Caller-side contract of Solver._add_form(form_name, input_only=False) (body verified in unit _add_form)."""
    solver, values, inputs, fields, form = classes()

    def contract(it, me, args, kwargs, node):
        fname = to_term(args[0])
        input_only = kwargs.get('input_only', args[1] if len(args) > 1 else False)
        s0 = spec.st(it, me)
        if it.run.branch(z3.Not(s0.FMAP.has[class_part(fname)]), where=f'addform-unknown@{node.lineno}'):
            raise Raised(NotImplementedError('Form is not supported.'), node)
        apply_add_form_effect(spec, it, me, fname, input_only)
        return None
    return contract


def apply_add_form_effect(spec, it, me, fname, input_only):
    """The state change of a completed _add_form(fname, input_only), as facts about fresh post-state maps."""
    s0 = spec.st(it, me)
    isin = lambda l: z3.And(DECL_INPUT(l), form_part(l) == fname)
    isline = lambda l: z3.And(DECL_LINE(l), form_part(l) == fname)
    isreq = lambda l: z3.And(REQ_LINE(l), form_part(l) == fname)
    IM2 = ZMap.havoc(NAME, OBJ, '_input_map')
    it.run.fact(z3.ForAll([L], IM2.has[L] == z3.Or(s0.IM.has[L], isin(L))))
    it.run.fact(z3.ForAll([L], z3.Implies(z3.And(s0.IM.has[L], z3.Not(isin(L))), IM2.val[L] == s0.IM.val[L])))
    it.run.fact(z3.ForAll([L], z3.Implies(isin(L), name_of(IM2.val[L]) == L)))
    me.attrs['_input_map'] = IM2
    if input_only is True:
        return
    if input_only is not False:
        raise Unsupported('symbolic input_only')
    FM2 = ZMap.havoc(NAME, OBJ, '_field_map')
    it.run.fact(z3.ForAll([L], FM2.has[L] == z3.Or(s0.FM.has[L], isline(L))))
    it.run.fact(z3.ForAll([L], z3.Implies(z3.And(s0.FM.has[L], z3.Not(isline(L))), FM2.val[L] == s0.FM.val[L])))
    it.run.fact(z3.ForAll([L], z3.Implies(isline(L), name_of(FM2.val[L]) == L)))
    me.attrs['_field_map'] = FM2
    F2 = ZMap.havoc(NAME, OBJ, 'forms')
    it.run.fact(z3.ForAll([L], F2.has[L] == z3.Or(s0.F.has[L], L == fname)))
    it.run.fact(z3.ForAll([L], z3.Implies(z3.And(s0.F.has[L], L != fname), F2.val[L] == s0.F.val[L])))
    me.attrs['forms'] = F2
    Q2 = ZBag.havoc(OBJ, 'Q')
    for f in Q2.wf():
        it.run.fact(f)
    x = z3.Const('_x', OBJ)
    it.run.fact(z3.ForAll([x], Q2.cnt[x] == s0.Q.cnt[x] + z3.If(z3.And(isreq(name_of(x)), FM2.val[name_of(x)] == x), 1, 0)))
    me.attrs['_unattempted_fields'] = Q2
    S2 = ZSet.havoc(NAME, 'S')
    it.run.fact(z3.ForAll([L], S2.mem[L] == z3.Or(s0.S.mem[L], isreq(L))))
    me.attrs['_solving_fields'] = S2
    it.ghost['last_requires_line'] = isreq
    it.ghost['last_added_form'] = fname


def attempt_field_contract(spec):
    """Caller-side contract of Solver._attempt_field(field)."""
    def contract(it, me, args, kwargs, node):
        fobj = args[0]
        ft = to_term(fobj)
        s0 = spec.st(it, me)
        # requires: the attempted line is a scheduled, registered line; invariant with it in flight
        it.oblige(f'call@{it.site(node)}/_attempt_field/requires/known-line', known(s0, ft))
        old_inflight = it.ghost.get('inflight')
        it.ghost['inflight'] = name_of(ft)
        s0 = spec.st(it, me)
        for label, g in invariant(s0):
            it.oblige(f'call@{it.site(node)}/_attempt_field/requires/{label}', g)
        it.ghost['inflight'] = old_inflight
        if spec.unit == '_attempt_field' and it.ghost.get('oracle_key') is not None:
            # the retry after a missing declaration terminates because the declaration is there now: the same evaluation cannot
            # report it missing again (C06 work bound, C10 "no unbounded recursion")
            it.oblige(f'call@{it.site(node)}/_attempt_field/requires/a-line-is-retried-only-once-the-missing-declaration-is-loaded',
                      s0.IM.has[it.ghost['oracle_key']])
        pre = St(me.snap(), dict(it.ghost))
        # outcome: returns normally or propagates an exception that is not one of the handled four
        if it.run.branch(fresh('attempt_raises', z3.BoolSort()), where=f'attempt-raises@{node.lineno}'):
            raise Raised(RuntimeError('exception propagated by _attempt_field'), node)
        keepR = it.ghost.get('R')
        entry = it.ghost.get('entry_state')
        it.ghost['entry_state'] = None
        spec.havoc(it, me, [], None, [])
        it.ghost['entry_state'] = entry
        it.ghost['R'] = keepR
        it.ghost['inflight'] = None     # the attempted line ends located; callers have no other line in flight
        s1 = spec.st(it, me)
        for label, g in invariant(s1) + grows(pre, s1, attempted=name_of(ft)):
            it.run.fact(g)
        x = z3.Const('_x', OBJ)
        it.run.fact(z3.ForAll([x], s1.Q.cnt[x] >= pre.Q.cnt[x]))
        it.run.fact(z3.And(s1.MI.size == pre.MI.size, z3.ForAll([L], s1.MI.cnt[L] == pre.MI.cnt[L])))
        it.run.fact(s1.C.mem == pre.C.mem)
        it.run.fact(s1.A.mem == pre.A.mem)
        it.run.fact(s1.ticks >= pre.ticks + 1)      # an attempt evaluates the line at least once
        it.run.fact(z3.ForAll([Dn], z3.Implies(pre.UI.has[Dn], s1.UI.has[Dn])))     # an attempt never drops a wait on an input
        it.run.fact(s1.MF.size >= pre.MF.size)      # ... nor an undrained "met" entry
        if isinstance(pre.refused, SV):
            it.run.fact(to_term(s1.refused) == to_term(pre.refused))
        it.ghost['attempts'] = it.ghost.get('attempts', 0) + 1
        return None
    return contract


def solver_callee_contract(self, selfobj, func):
    solver, values, inputs, fields, form = classes()
    if selfobj.cls is solver.Solver:
        if func.__name__ == '_add_form' and self.unit != '_add_form':
            return add_form_contract(self)
        if func.__name__ == '_attempt_field':
            return attempt_field_contract(self)
    return None


def solver_is_self(self, func):
    return func.__name__ == self.unit


SolverSpec.callee_contract = solver_callee_contract
SolverSpec.is_self = solver_is_self


# ------------------------------------------------------------------ solve(): loop invariants
def input_map_coherent(s):
    return ('input-map-coherent', z3.ForAll([L], z3.Implies(s.IM.has[L], name_of(s.IM.val[L]) == L)))


def loop_ordinal(fn, node):
    import ast
    from pyvc import extract
    fnode = extract.func_ast(fn)
    loops = sorted([n for n in ast.walk(fnode) if isinstance(n, (ast.For, ast.While))], key=lambda n: (n.lineno, n.col_offset))
    for ix, n in enumerate(loops):
        if n.lineno == node.lineno and n.col_offset == node.col_offset:
            return ix, len(loops)
    return None, len(loops)


def add_form_loop_invariant(self, node):
    solver, values, inputs, fields, form = classes()
    ix, n = loop_ordinal(solver.Solver._add_form, node)
    if n != 2 or ix is None:
        return None

    def I(it, me, frame):
        s = self.st(it, me)
        pre = it.ghost['pre']
        nf = it.ghost['newform'].info
        nm = nf['name']
        R = it.ghost.get('R') or ZBag(OBJ, name='R')
        x = z3.Const('_x', OBJ)
        if ix == 0:
            obj, M, M0, bag = nf['inobj'], s.IM, pre.IM, nf['inputs']
            decl = lambda l: z3.And(DECL_INPUT(l), form_part(l) == nm)
        else:
            obj, M, M0, bag = nf['lineobj'], s.FM, pre.FM, nf['fields']
            decl = lambda l: z3.And(DECL_LINE(l), form_part(l) == nm)
        done = lambda l: z3.And(decl(l), R.cnt[obj(l)] == 0)
        return [
            ('remaining-are-declared', z3.ForAll([x], z3.And(R.cnt[x] >= 0, R.cnt[x] <= bag.cnt[x]))),
            ('keys', z3.ForAll([L], M.has[L] == z3.Or(M0.has[L], done(L)))),
            ('new-values', z3.ForAll([L], z3.Implies(done(L), M.val[L] == obj(L)))),
            ('old-values', z3.ForAll([L], z3.Implies(z3.And(M0.has[L], z3.Not(done(L))), M.val[L] == M0.val[L]))),
        ]
    return {'inv': I, 'modifies': ['_input_map'] if ix == 0 else ['_field_map']}


def solve_loop_invariant(self, node):
    solver, values, inputs, fields, form = classes()
    if self.unit == '_add_form':
        return add_form_loop_invariant(self, node)
    if self.unit != 'solve':
        return None
    ix, n = loop_ordinal(solver.Solver.solve, node)
    if n != 7 or ix is None:
        return None    # the function no longer has the loop structure the contract was written for

    def I(it, me, frame):
        s = self.st(it, me)
        out = invariant(s)
        entry = it.ghost.get('entry_state')
        if entry is not None:
            out += grows(entry, s, attempted=None) if False else [g for g in grows(entry, s) if g[0] != 'values-only-grow'] + [
                ('values-never-removed', z3.ForAll([L], z3.Implies(entry.V.has[L], s.V.has[L])))]
        if ix in (0, 1):
            pass
        if ix != 5:
            out.append(('no-answered-input-pending-before-prompting', s.MI.size == 0))
        if ix == 0:
            Rk = it.ghost.get('Rk')
            if Rk is not None:
                out.append(('requested-forms-not-yet-loaded', z3.ForAll([Dn], z3.Implies(Rk.cnt[Dn] > 0, z3.And(z3.Not(s.F.has[Dn]), Rk.cnt[Dn] <= 1)))))
        if ix == 5:
            Rk = it.ghost.get('Rk')
            if Rk is not None:
                out.append(('prompted-keys-are-waited-on', z3.ForAll([Dn], z3.Implies(Rk.cnt[Dn] > 0, s.UI.has[Dn]))))
                ref = me.attrs['_refused_input']
                out.append(('not-refused-while-prompting', z3.Not(to_term(ref)) if isinstance(ref, SV) else z3.BoolVal(ref is False)))
                out.append(('remaining-keys-not-yet-answered', z3.ForAll([Dn], z3.Implies(Rk.cnt[Dn] > 0, z3.And(s.MI.cnt[Dn] == 0, Rk.cnt[Dn] <= 1)))))
        if ix not in (4, 6):
            out.append(('nothing-released-pending', z3.ForAll([Fo], s.R.cnt[Fo] == 0)))
        # C06 progress: a loop that consumed nothing did no work, so leaving it with something consumed means work was done
        if ix in (3, 4) and entry is not None:
            out.append(('waits-on-inputs-are-kept-by-attempts', z3.ForAll([Dn], z3.Implies(entry.UI.has[Dn], s.UI.has[Dn]))))
            if isinstance(entry.refused, SV) and isinstance(s.refused, SV):
                out.append(('refusal-flag-kept-by-attempts', to_term(s.refused) == to_term(entry.refused)))
        if ix == 3 and entry is not None:
            out.append(('met-lines-not-yet-drained-are-kept', s.MF.size >= entry.MF.size))
        if ix in (3, 4, 5) and entry is not None:
            out.append(('answered-inputs-not-yet-drained-are-kept', s.MI.size >= entry.MI.size))
        if ix == 3 and entry is not None:
            out.append(('idle-means-queue-unchanged', z3.Implies(s.ticks == entry.ticks, s.Q.size == entry.Q.size)))
        if ix == 5 and entry is not None and entry.Rk is not None and it.ghost.get('Rk') is not None:
            out.append(('idle-means-no-question-consumed', z3.Implies(s.ticks == entry.ticks, it.ghost['Rk'].size == entry.Rk.size)))
        return out
    spec = {'inv': I, 'modifies': ['*']}
    if ix == 2:
        # every iteration of the main loop evaluates a line, asks a question or empties a non-empty "met" list: with finitely many
        # lines, inputs and waits (finite catalogue) the loop cannot spin
        spec['iter_begin'] = lambda it, me, frame: self.st(it, me).ticks
        spec['iter_end'] = lambda it, me, frame, t0: [('every-iteration-of-the-main-loop-does-work', self.st(it, me).ticks > t0)]
    return spec


SolverSpec.loop_invariant = solve_loop_invariant


def _sym_attr_call2(self, it, obj, attr, args, node):
    r = SolverSpec._sym_attr_call1(self, it, obj, attr, args, node)
    if r is not NotImplemented:
        return r
    if obj.t.sort() == OBJ:
        if attr == 'name' and not args:
            return wrap(name_of(obj.t))
        if attr == 'valid' and len(args) == 1:
            return SV('bool', valid_in(obj.t, to_term(args[0])))
    return NotImplemented


SolverSpec._sym_attr_call1 = SolverSpec.sym_attr_call
SolverSpec.sym_attr_call = _sym_attr_call2


def _loop_begin(self, it, me):
    """Frame clauses of a loop invariant are relative to the state at that loop's entry."""
    tok = it.ghost.get('entry_state')
    it.ghost['entry_state'] = St(me.snap(), dict(it.ghost))
    return tok


def _loop_end(self, it, tok):
    it.ghost['entry_state'] = tok


SolverSpec.loop_begin = _loop_begin
SolverSpec.loop_end = _loop_end
