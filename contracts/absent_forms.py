"""Frozen list of forms that line definitions refer to but that HabuTax
deliberately does not ship.  A reference to one of these makes the solver abort
with NotImplementedError('Form X is not supported.') (Solver._add_form), which
the property C10 allows.  A reference to a missing form that is NOT in this list
is a refuted C10 obligation.

Reviewed against the form files: each entry is referenced only behind a
condition under which the shipped forms cannot compute the return.
"""
ABSENT = {
    '1040_s2': 'Schedule 2 (additional taxes): only the need-6251 screening worksheet ships',
    '1099-oid': 'Form 1099-OID input form is not shipped; number_1099-oid > 0 aborts',
}
