"""C09 amount gates: amounts beyond an implemented limit never yield a value.

Each entry: line (same name in all three years unless a dict), a condition over
read symbols (built with the helper `S(name)` -> z3 term, or 'result'), and the
requirement that no *returning* path is compatible with the condition.
kind 'never-returns-when': pathcond /\ cond is unsatisfiable on every return path.
kind 'result-at-most'    : on every return path result <= official[status].
"""
NUM_SCHEDULE_B_ROWS = 14   # Schedule B, Part I line 1 and Part II line 5 have 14 payer rows each

GATES = [
    dict(id='schedule-b-rows-interest', line='1040_sb.part_3', kind='never-returns-when',
         cond=lambda S: S('i|1040.number_1099-int') > NUM_SCHEDULE_B_ROWS,
         text='more 1099-INT payers than Schedule B part I has rows'),
    dict(id='schedule-b-rows-dividends', line='1040_sb.part_3', kind='never-returns-when',
         cond=lambda S: S('i|1040.number_1099-div') > NUM_SCHEDULE_B_ROWS,
         text='more 1099-DIV payers than Schedule B part II has rows'),
    dict(id='hsa-contribution-above-limit-you', line='8889:you.hsa_deduction', kind='never-returns-when',
         cond=lambda S: S('v|8889:you.2') > S('v|8889:you.13'),
         text='HSA contributions (line 2) above the limitation (line 13 = smaller of line 2 and line 12)'),
    dict(id='hsa-contribution-above-limit-spouse', line='8889:spouse.hsa_deduction', kind='never-returns-when',
         cond=lambda S: S('v|8889:spouse.2') > S('v|8889:spouse.13'),
         text='HSA contributions (line 2) above the limitation (line 13)'),
    dict(id='foreign-tax-above-1116-limit', line='1040_s3.1', kind='result-at-most', official='F1116_LIMIT',
         text='foreign tax above the Form 1116 election limit ($300, $600 joint) is never returned as the credit'),
]
