"""Which texts denote a value, per input class (C11 oracle; from the classes' own format_suggestion() texts and the README).

Vocabulary: the executor's uninterpreted string functions strip / lower / replace('-', '') and the assumed builtin grammars
INT_OK / FLOAT_OK / FLOAT_FINITE (A-BUILTIN).  accepts(text) is the exact set of accepted texts; value(text) what they denote.

  String            every text; the stripped text
  Boolean           lower(strip(text)) is one of true/yes/y/1/on (True) or false/no/n/0/off (False)
  Integer           strip(text) empty (0) or accepted by int()
  Float             strip(text) empty (0.0) or accepted by float() and finite
  Enum              strip(text) is exactly a member name; with allow_empty also the empty text (None) - nothing else
  Regex             strip(text) matches the pattern
  SSN               strip(text) with '-' removed is exactly nine ASCII digits 0-9
"""
import z3

TRUE_WORDS = ['true', 'yes', 'y', '1', 'on']
FALSE_WORDS = ['false', 'no', 'n', '0', 'off']


def fn(name):
    return z3.Function(name, z3.StringSort(), z3.StringSort())


def axioms(s):
    """Facts about the uninterpreted string functions that the Python semantics guarantee (used by code and spec alike)."""
    strip, lower = fn('str_strip'), fn('str_lower')
    t = strip(s)
    return [strip(t) == t, z3.Length(t) <= z3.Length(s), lower(lower(t)) == lower(t)]


def ascii_digits(u, n):
    """u consists of exactly n characters, each one of 0-9 (a one-character piece of "0123456789")."""
    j = z3.Int('_gj')
    return z3.And(z3.Length(u) == n, z3.ForAll([j], z3.Implies(z3.And(j >= 0, j < n), z3.Contains(z3.StringVal('0123456789'), z3.SubString(u, j, 1)))))


def accepts(name, obj, s, sym):
    """-> z3 Bool: the text s denotes a value for this input (None: no independent grammar, e.g. Regex by its own pattern)."""
    strip, lower = fn('str_strip'), fn('str_lower')
    t = strip(s)
    if name == 'StringInput':
        return z3.BoolVal(True)
    if name == 'BooleanInput':
        return z3.Or(*[lower(t) == z3.StringVal(w) for w in TRUE_WORDS + FALSE_WORDS])
    if name == 'IntegerInput':
        return z3.Or(z3.Length(t) == 0, sym.INT_OK(t))
    if name == 'FloatInput':
        return z3.Or(z3.Length(t) == 0, z3.And(sym.FLOAT_OK(t), sym.FLOAT_FINITE(t)))
    if name.startswith('EnumInput'):
        names = list(obj.enum.__members__)
        alts = [t == z3.StringVal(n) for n in names]
        if obj.allow_empty:
            alts.append(z3.Length(t) == 0)
        return z3.Or(*alts)
    if name == 'SSNInput':
        rep = fn(f'str_replace_{abs(hash(("-", ""))) % 10**8}')
        return ascii_digits(rep(t), 9)
    return None
