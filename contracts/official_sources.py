"""Where the transcribed amounts of contracts/official.py can be read in official text that ships with the repository
(habutax/forms/ty<year>/instructions/*.pdf, decoded by pyvc/pdftext.py).  Each entry is a sentence of the booklet with the
amounts taken from official.py; C08 checks on every run that the sentence occurs verbatim (modulo typography) in the bundled
booklet.  This ties the A-ORACLE transcription to a source inside the repository for the amounts listed here; the others
(brackets, standard deduction, capital-gain and AMT amounts: Form 1040 general instructions / Rev. Procs, not bundled - the bundled
i1040gi.pdf is an empty file - and all 2021 amounts, no booklets bundled) stay transcriptions cited in official.py.
The N.C. D-401 booklets are encrypted against editing (standard handler revision 6, empty user password): pyvc/pdfcrypt.py.
"""
from contracts import official as O


def usd(x):
    return f'${int(x):,}'


def sources():
    out = []
    for y in (2022, 2023):
        qss = 'QualifyingSurvivingSpouse'
        am = O.ADDL_MEDICARE[y]
        out.append((y, 'additional Medicare tax thresholds (Form 8959 instructions, chart)', 'i8959.pdf',
                    f'Married filing jointly {usd(am["MarriedFilingJointly"])} Married filing separately {usd(am["MarriedFilingSeparately"])} Single {usd(am["Single"])} '
                    f'Head of household {usd(am["HeadOfHousehold"])} Qualifying surviving spouse {usd(am[qss])}'))
        out.append((y, 'HSA contribution limits (Form 8889 instructions)', 'i8889.pdf',
                    f'If you have self-only coverage, your maximum contribution is {usd(O.HSA_SELF[y])}. If you have family coverage, your maximum contribution is {usd(O.HSA_FAMILY[y])}.'))
        q = O.QBI_THRESHOLD[y]
        assert q['Single'] == q['HeadOfHousehold'] == q[qss]
        out.append((y, 'Form 8995 taxable income threshold (Form 8995 instructions)', 'i8995.pdf',
                    f'less than or equal to {usd(q["Single"])} if single, head of household, qualifying surviving spouse, or are a trust or estate, or {usd(q["MarriedFilingJointly"])} if married filing jointly'))
        c = O.CTC_PHASEOUT[y]
        assert c['Single'] == c['MarriedFilingSeparately'] == c['HeadOfHousehold'] == c[qss]
        out.append((y, 'child tax credit phase-out start (Schedule 8812 instructions)', 'i1040s8.pdf',
                    f'Married filing jointly -{usd(c["MarriedFilingJointly"])} • All other filing statuses -{usd(c["Single"])}'))
        out.append((y, 'maximum additional child tax credit per child (Schedule 8812 instructions)', 'i1040s8.pdf',
                    f'for each qualifying child increased to {usd(O.ACTC_CAP[y])}.'))
        s = O.SALT_CAP[y]
        out.append((y, 'state and local tax deduction limit (Schedule A instructions)', 'i1040sca.pdf',
                    f'generally limited to {usd(s["Single"])} ({usd(s["MarriedFilingSeparately"])} if married filing separately)'))
        out.append((y, 'Schedule B filing threshold (Schedule B instructions)', 'i1040sb.pdf',
                    f'You had over {usd(O.SCHED_B_THRESHOLD)} of taxable interest or ordinary dividends.'))
    for y in (2022, 2023):
        r = O.NC_RATE[y]
        pct = f'{float(r * 100):.2f}%'
        out.append((y, 'N.C. individual income tax rate (D-401 instructions)', 'nc_d-401.pdf',
                    f'For tax year {y}, the individual income tax rate is {pct}. To calculate your North Carolina tax liability, multiply your North Carolina taxable income by {pct} ({float(r):.4f}).'))
        st = O.NC_STD[y]
        out.append((y, 'N.C. standard deduction chart (D-401 instructions): single', 'nc_d-401.pdf', f'Your standard deduction is: Single $ {int(st["Single"]):,}'))
        out.append((y, 'N.C. standard deduction chart (D-401 instructions): joint and surviving spouse', 'nc_d-401.pdf', f'Surviving spouse $ {int(st["MarriedFilingJointly"]):,} Married filing separately If spouse does not claim itemized deductions $ {int(st["MarriedFilingSeparately"]):,}'))
        out.append((y, 'N.C. standard deduction chart (D-401 instructions): head of household', 'nc_d-401.pdf', f'Head of household $ {int(st["HeadOfHousehold"]):,} N.C. Standard Deduction Chart'))

        def rows(tab):
            parts, lo = [], None
            for hi, amt in tab:
                parts.append((f'Up to {usd(hi)}' if lo is None else f'Over {usd(lo)} - Up to {usd(hi)}') + f' {usd(amt)}')
                lo = hi
            parts.append(f'Over {usd(lo)} $0')
            return ' '.join(parts)
        nc = O.NC_CHILD[y]
        assert nc['Single'] == nc['MarriedFilingSeparately']
        out.append((y, 'N.C. child deduction table (D-401 instructions)', 'nc_d-401.pdf',
                    'Surviving Spouse ' + rows(nc['MarriedFilingJointly']) + ' Head of Household ' + rows(nc['HeadOfHousehold']) + ' Single/Married Filing Separately ' + rows(nc['Single']) + ' Child Deduction Worksheet'))
    out.append((2022, 'child tax credit per child (Schedule 8812 instructions)', 'i1040s8.pdf',
                f'the initial amount of the CTC is {usd(O.CTC_PER_CHILD[2022])} for each qualifying child'))
    # N.C. consumer use tax estimate (2023 booklet bundled): the rows as printed, the at-least / but-less-than heading, the rate beyond the table
    rows = O.NC_USE_TAX[2023]
    los = [0] + [b for b, _ in rows[:-1]]
    for lo, (hi, amt) in list(zip(los, rows))[1:10] + list(zip(los, rows))[11:20] + list(zip(los, rows))[21:]:
        if hi == 11100:
            continue        # printed "9,600 - 1 1,100" (a kerning gap inside the number)
        out.append((2023, f'N.C. use tax table row up to {hi:,} (D-401 instructions)', 'nc_d-401.pdf', f'{lo:,} - {hi:,} {amt}'))
    out.append((2023, 'N.C. use tax table beyond the last row (D-401 instructions)', 'nc_d-401.pdf', f'{rows[-1][0]:,} and over Line 14 x {O.NC_USE_TAX_RATE.lstrip("0")}'))
    out.append((2023, 'N.C. use tax table heading (D-401 instructions)', 'nc_d-401.pdf', 'At Least But Less Than Use Tax Amount is'))
    return out
