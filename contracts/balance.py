"""C15: balance identities and the frozen list of lines the forms define as non-negative.

LEMMAS: per lemma the lines whose definitions are related (all must have a value in
the solution), and the identity over their stored values V(name).  Hypotheses used:
each listed line's stored value equals its definition applied to the other stored
values (fixed point, C03), stored money values are exact `places`-decimals (C12),
amount inputs are non-negative.
"""
import z3


def lemmas(year):
    a12 = '12c' if year == 2021 else '12'
    L = [
        dict(id='1040/overpayment-minus-owed', lines=['1040.34', '1040.37'],
             identity=lambda V: V('1040.34') - V('1040.37') == V('1040.33') - V('1040.24'),
             text='line 34 (overpaid) minus line 37 (amount you owe) equals total payments (33) minus total tax (24)'),
        dict(id='1040/at-most-one-positive', lines=['1040.34', '1040.37'],
             identity=lambda V: z3.Or(V('1040.34') == 0, V('1040.37') == 0),
             text='at most one of overpayment and amount owed is positive'),
        dict(id='1040/refund-plus-applied', lines=['1040.35a', '1040.36', '1040.34'],
             identity=lambda V: V('1040.35a') + V('1040.36') == V('1040.34'),
             text='refund (35a) plus amount applied to next year (36) equals the overpayment (34)'),
        dict(id='nc/overpayment', lines=['nc_d-400.28'],
             identity=lambda V: z3.And(V('nc_d-400.28') == V('nc_d-400.25') - V('nc_d-400.19') - V('nc_d-400.26e'), V('nc_d-400.28') >= 0),
             text='NC line 28 (overpayment) equals line 25 minus line 19 and any interest on line 26e (D-401: "Subtract Line 19 (and any amount shown on Line 26e) from Line 25") and is non-negative whenever it has a value'),
        dict(id='nc/tax-due', lines=['nc_d-400.26a'],
             identity=lambda V: z3.And(V('nc_d-400.26a') == V('nc_d-400.19') - V('nc_d-400.25'), V('nc_d-400.26a') > 0),
             text='NC line 26a (tax due) equals line 19 minus line 25 and is positive whenever it has a value'),
        dict(id='nc/refund-plus-contributions', lines=['nc_d-400.34', 'nc_d-400.33'],
             identity=lambda V: z3.And(V('nc_d-400.34') + V('nc_d-400.33') == V('nc_d-400.28'), V('nc_d-400.34') >= 0),
             text='NC refund (34) plus amounts applied/contributed (33) equals the overpayment (28)'),
        dict(id='nc/refund-line-selects-branch', lines=['nc_d-400.refund'],
             identity=lambda V: z3.If(V('nc_d-400.19') <= V('nc_d-400.25'), V('nc_d-400.refund') == V('nc_d-400.34'), V('nc_d-400.refund') == -V('nc_d-400.27')),
             text='the NC refund pseudo-line is the refund when payments cover the tax and minus the amount due otherwise'),
    ]
    return L
