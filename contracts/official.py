"""Transcribed official values (A-ORACLE). Each entry cites its source.

Order of statuses in tuples: Single, MFJ (= QSS / QW), MFS, HoH.
"""
from fractions import Fraction as F

RATES = [F(10, 100), F(12, 100), F(22, 100), F(24, 100), F(32, 100), F(35, 100), F(37, 100)]

# Upper ends of the first six brackets. Rev. Proc. 2020-45 / 2021-45 / 2022-38, section 3.01, tables 1-4.
BRACKETS = {
    2021: {
        'Single': [9950, 40525, 86375, 164925, 209425, 523600],
        'MFJ':    [19900, 81050, 172750, 329850, 418850, 628300],
        'MFS':    [9950, 40525, 86375, 164925, 209425, 314150],
        'HoH':    [14200, 54200, 86350, 164900, 209400, 523600],
    },
    2022: {
        'Single': [10275, 41775, 89075, 170050, 215950, 539900],
        'MFJ':    [20550, 83550, 178150, 340100, 431900, 647850],
        'MFS':    [10275, 41775, 89075, 170050, 215950, 323925],
        'HoH':    [14650, 55900, 89050, 170050, 215950, 539900],
    },
    2023: {
        'Single': [11000, 44725, 95375, 182100, 231250, 578125],
        'MFJ':    [22000, 89450, 190750, 364200, 462500, 693750],
        'MFS':    [11000, 44725, 95375, 182100, 231250, 346875],
        'HoH':    [15700, 59850, 95350, 182100, 231250, 578100],
    },
}
BRACKET_SOURCE = {2021: 'Rev. Proc. 2020-45 sec. 3.01', 2022: 'Rev. Proc. 2021-45 sec. 3.01', 2023: 'Rev. Proc. 2022-38 sec. 3.01'}

# column index in TAX_TABLE rows / index passed by figure_tax: 2 Single, 3 MFJ/QSS, 4 MFS, 5 HoH
COLUMN_STATUS = {2: 'Single', 3: 'MFJ', 4: 'MFS', 5: 'HoH'}
# member name -> schedule
STATUS_SCHEDULE = {
    'Single': 'Single', 'MarriedFilingJointly': 'MFJ', 'MarriedFilingSeparately': 'MFS',
    'HeadOfHousehold': 'HoH', 'QualifyingSurvivingSpouse': 'MFJ', 'QualifyingWidowWidower': 'MFJ',
}

TABLE_LIMIT = 100000          # Tax Table below, Tax Computation Worksheet at or above (Form 1040 instructions, line 16)
SUPPORTED_MAX = 10 ** 12


def tax(year, sched, x):
    """Exact bracket formula (Fraction)."""
    x = F(x)
    ends = BRACKETS[year][sched]
    total = F(0)
    lo = F(0)
    for r, hi in zip(RATES, ends + [None]):
        if hi is None or x <= hi:
            return total + (x - lo) * r
        total += (F(hi) - lo) * r
        lo = F(hi)
    raise AssertionError


def irs_rows():
    """Tax Table row structure (Form 1040 instructions): [0,5) [5,15) [15,25), width 25 to 3000, width 50 to 100000."""
    rows = [(0, 5), (5, 15), (15, 25)]
    x = 25
    while x < 3000:
        rows.append((x, x + 25))
        x += 25
    while x < TABLE_LIMIT:
        rows.append((x, x + 50))
        x += 50
    return rows


def is_irs_row(lo, hi):
    if (lo, hi) in ((0, 5), (5, 15), (15, 25)):
        return True
    if 25 <= lo < 3000:
        return lo % 25 == 0 and hi == lo + 25
    if 3000 <= lo < TABLE_LIMIT:
        return lo % 50 == 0 and hi == lo + 50
    return False


def round_half_up(fr):
    import math
    return int(math.floor(fr + F(1, 2)))


def table_cell(year, sched, lo, hi):
    """Tax on the midpoint of the row, rounded half-up to whole dollars."""
    return round_half_up(tax(year, sched, F(lo + hi, 2)))


# ---------------------------------------------------------------------------
# C08: statutory amounts. Keys: (year, amount-id) -> {status-group: value}.
# Sources: Rev. Proc. 2020-45 / 2021-45 / 2022-38; Form 1040 instructions and the
# named forms for each year; NC D-401 for each year.  See DESIGN Appendix A.
ALL5_2021 = ('Single', 'MarriedFilingJointly', 'MarriedFilingSeparately', 'HeadOfHousehold', 'QualifyingWidowWidower')
ALL5 = ('Single', 'MarriedFilingJointly', 'MarriedFilingSeparately', 'HeadOfHousehold', 'QualifyingSurvivingSpouse')


def by_status(year, single, mfj, mfs, hoh, qss=None):
    q = 'QualifyingWidowWidower' if year == 2021 else 'QualifyingSurvivingSpouse'
    return {'Single': single, 'MarriedFilingJointly': mfj, 'MarriedFilingSeparately': mfs,
            'HeadOfHousehold': hoh, q: mfj if qss is None else qss}


STANDARD_DEDUCTION = {  # Rev. Proc. sec. 3.16 (2021), 3.15 (2022, 2023); printed on Form 1040 page 1
    2021: by_status(2021, 12550, 25100, 12550, 18800),
    2022: by_status(2022, 12950, 25900, 12950, 19400),
    2023: by_status(2023, 13850, 27700, 13850, 20800),
}
CAPGAIN_0 = {  # Rev. Proc. sec. 3.03 maximum zero rate amount; Qualified Dividends and Capital Gain Tax Worksheet line 6
    2021: by_status(2021, 40400, 80800, 40400, 54100),
    2022: by_status(2022, 41675, 83350, 41675, 55800),
    2023: by_status(2023, 44625, 89250, 44625, 59750),
}
CAPGAIN_15 = {  # maximum 15% rate amount; worksheet line 13
    2021: by_status(2021, 445850, 501600, 250800, 473750),
    2022: by_status(2022, 459750, 517200, 258600, 488500),
    2023: by_status(2023, 492300, 553850, 276900, 523050),
}
AMT_EXEMPTION = {  # Rev. Proc. sec. 3.11; Form 6251 line 5 / "Should you fill in Form 6251" worksheet
    2021: by_status(2021, 73600, 114600, 57300, 73600),
    2022: by_status(2022, 75900, 118100, 59050, 75900),
    2023: by_status(2023, 81300, 126500, 63250, 81300),
}
AMT_PHASEOUT = {
    2021: by_status(2021, 523600, 1047200, 523600, 523600),
    2022: by_status(2022, 539900, 1079800, 539900, 539900),
    2023: by_status(2023, 578150, 1156300, 578150, 578150),
}
AMT_28_BREAK = {
    2021: by_status(2021, 199900, 199900, 99950, 199900),
    2022: by_status(2022, 206100, 206100, 103050, 206100),
    2023: by_status(2023, 220700, 220700, 110350, 220700),
}
QBI_THRESHOLD = {  # Form 8995 header / Rev. Proc. sec. 3.27-3.29: use Form 8995 if taxable income before QBI deduction is at or below
    2021: by_status(2021, 164900, 329800, 164925, 164900, qss=164900),
    2022: by_status(2022, 170050, 340100, 170050, 170050, qss=170050),
    2023: by_status(2023, 182100, 364200, 182100, 182100, qss=182100),
}
ADDL_MEDICARE = {y: by_status(y, 200000, 250000, 125000, 200000, qss=200000) for y in (2021, 2022, 2023)}  # Form 8959 instructions
ADDL_MEDICARE_WITHHOLD = 200000
HSA_SELF = {2021: 3600, 2022: 3650, 2023: 3850}   # Rev. Proc. 2020-32 / 2021-25 / 2022-24; Form 8889 line 3 instructions
HSA_FAMILY = {2021: 7200, 2022: 7300, 2023: 7750}
SALT_CAP = {y: by_status(y, 10000, 10000, 5000, 10000) for y in (2021, 2022, 2023)}  # Schedule A line 5e
EIC_LIMIT = {  # Form 1040 instructions line 27, by number of children 3/2/1/0: (others, MFJ)
    2021: {3: (51464, 57414), 2: (47915, 53865), 1: (42158, 48108), 0: (21430, 27380)},
    2022: {3: (53057, 59187), 2: (49399, 55529), 1: (43492, 49622), 0: (16480, 22610)},
    2023: {3: (56838, 63398), 2: (52918, 59478), 1: (46560, 53120), 0: (17640, 24210)},
}
EIC_INVESTMENT = {2021: 10000, 2022: 10300, 2023: 11000}
F1116_LIMIT = {y: by_status(y, 300, 600, 300, 300, qss=300) for y in (2021, 2022, 2023)}
SAVERS_LIMIT = {
    2021: by_status(2021, 33000, 66000, 33000, 49500, qss=33000),
    2022: by_status(2022, 34000, 68000, 34000, 51000, qss=34000),
    2023: by_status(2023, 36500, 73000, 36500, 54750, qss=36500),
}
SCHED_B_THRESHOLD = 1500
EDUCATOR_CAP = {2021: 250, 2022: 300, 2023: 300}
CTC_PER_CHILD = {2022: 2000, 2023: 2000}
ODC_PER_DEPENDENT = {2021: 500, 2022: 500, 2023: 500}
CTC_PHASEOUT = {y: by_status(y, 200000, 400000, 200000, 200000, qss=200000) for y in (2021, 2022, 2023)}
ACTC_CAP = {2022: 1500, 2023: 1600}
NC_RATE = {2021: F(525, 10000), 2022: F(499, 10000), 2023: F(475, 10000)}   # D-401 instructions, line 15
NC_STD = {
    2021: by_status(2021, 10750, 21500, 10750, 16125),
    2022: by_status(2022, 12750, 25500, 12750, 19125),
    2023: by_status(2023, 12750, 25500, 12750, 19125),
}

# 2021 Recovery Rebate Credit Worksheet (Form 1040 instructions 2021, line 30): phase-out starts / ends / range; amount per person
REBATE_START = {2021: by_status(2021, 75000, 150000, 75000, 112500)}
REBATE_END = {2021: by_status(2021, 80000, 160000, 80000, 120000)}
REBATE_RANGE = {2021: by_status(2021, 5000, 10000, 5000, 7500)}
REBATE_PER_PERSON = {2021: 1400}
# I.R.C. 6428B(b)(1): $1,400 per eligible individual, $2,800 for eligible individuals filing a joint return; 6428B(e)(2)(B): a joint
# return on which only one spouse has a valid SSN gets $1,400, unless at least one spouse was a member of the Armed Forces (then
# $2,800).  2021 Form 1040 instructions, Recovery Rebate Credit Worksheet line 6: "$1,400 if single, head of household, married
# filing separately, qualifying widow(er), or if married filing jointly and you answered 'Yes' to question 4; $2,800 if married
# filing jointly and you answered 'Yes' to question 2 or 3; zero if you answered 'Yes' to question 5" (cited transcription: the 2021
# booklet is not bundled).
REBATE_BASE_BOTH_SSN = {2021: by_status(2021, 1400, 2800, 1400, 1400, qss=1400)}        # question 2 answered Yes
REBATE_BASE_ARMED_FORCES = {2021: {'MarriedFilingJointly': 2800}}                        # joint, question 2 No, question 3 Yes
REBATE_BASE_ONE_SSN = {2021: {'MarriedFilingJointly': 1400}}                             # joint, questions 2 and 3 No, question 4 Yes
REBATE_BASE_DEPENDENTS_ONLY = {2021: by_status(2021, 0, 0, 0, 0, qss=0)}                 # no valid SSN of one's own, question 5 Yes

# NC child deduction per qualifying child by federal AGI (D-401 instructions, Child Deduction Table).
# list of (AGI upper bound inclusive, amount); above the last bound the deduction is 0.
def _nc_child(year, scale):
    amounts = [2500, 2000, 1500, 1000, 500] if year == 2021 else [3000, 2500, 2000, 1500, 1000, 500]
    return [(scale * (k + 2), a) for k, a in enumerate(amounts)]


NC_CHILD = {}
for _y in (2021, 2022, 2023):
    _q = 'QualifyingWidowWidower' if _y == 2021 else 'QualifyingSurvivingSpouse'
    NC_CHILD[_y] = {'MarriedFilingJointly': _nc_child(_y, 20000), _q: _nc_child(_y, 20000), 'HeadOfHousehold': _nc_child(_y, 15000),
                    'Single': _nc_child(_y, 10000), 'MarriedFilingSeparately': _nc_child(_y, 10000)}

# N.C. D-401 (bundled for 2023), page "Consumer Use Tax for Taxpayers Who Do Not Have Complete Records of Out-Of-State Purchases": "If Line 14,
# D-400 is: At Least / But Less Than / Use Tax Amount is": $0 - 2,200 $1; 2,200 - 3,700 2; ... 43,700 - 45,200 30; "45,200 and over  Line 14 x .000675".
# (upper bound of the row, amount); the same table is printed in the 2021 and 2022 booklets (cited).
NC_USE_TAX_ROWS = [(2200, 1), (3700, 2), (5200, 3), (6700, 4), (8100, 5), (9600, 6), (11100, 7), (12600, 8), (14100, 9), (15600, 10), (17000, 11), (18500, 12), (20000, 13),
                   (21500, 14), (23000, 15), (24400, 16), (25900, 17), (27400, 18), (28900, 19), (30400, 20), (31900, 21), (33300, 22), (34800, 23), (36300, 24), (37800, 25),
                   (39300, 26), (40700, 27), (42200, 28), (43700, 29), (45200, 30)]
NC_USE_TAX = {2021: NC_USE_TAX_ROWS, 2022: NC_USE_TAX_ROWS, 2023: NC_USE_TAX_ROWS}
NC_USE_TAX_RATE = '0.000675'

# constants that may appear in the decision "is Form 8959 required": the employer withholding trigger and the status threshold
ADDL_MEDICARE_SET = {y: {m: {ADDL_MEDICARE_WITHHOLD, v} for m, v in ADDL_MEDICARE[y].items()} for y in (2021, 2022, 2023)}
