"""Standard security handler, revision 6 (AES-256, "AESV3") with the empty user password - enough to read the bundled
N.C. D-401 instruction booklet, which is encrypted only to restrict editing.  ISO 32000-2, 7.6.4 (Algorithms 2.A, 2.B, 11).

Pure Python (no crypto library is installed in the sandbox): AES block cipher (FIPS-197) with CBC mode, SHA-2 from hashlib.
Only used by pyvc/pdftext.py to obtain official text for verbatim comparison; never part of a proof.
"""
import hashlib
import re

# ---------------------------------------------------------------------------------------------- AES (FIPS-197)
_SBOX = [0] * 256
_INV = [0] * 256


def _init_tables():
    p = q = 1
    while True:
        # multiply p by 3
        p = p ^ ((p << 1) & 0xFF) ^ (0x1B if p & 0x80 else 0)
        # divide q by 3
        q ^= q << 1
        q ^= q << 2
        q ^= q << 4
        q &= 0xFF
        if q & 0x80:
            q ^= 0x09
        x = q ^ ((q << 1) | (q >> 7)) & 0xFF ^ ((q << 2) | (q >> 6)) & 0xFF ^ ((q << 3) | (q >> 5)) & 0xFF ^ ((q << 4) | (q >> 4)) & 0xFF
        _SBOX[p] = (x ^ 0x63) & 0xFF
        if p == 1:
            break
    _SBOX[0] = 0x63
    for i, v in enumerate(_SBOX):
        _INV[v] = i


_init_tables()


def _xt(a):
    return ((a << 1) ^ 0x1B) & 0xFF if a & 0x80 else a << 1


def _mul(a, b):
    r = 0
    while b:
        if b & 1:
            r ^= a
        a = _xt(a)
        b >>= 1
    return r


_M2 = [_mul(x, 2) for x in range(256)]
_M3 = [_mul(x, 3) for x in range(256)]
_M9 = [_mul(x, 9) for x in range(256)]
_M11 = [_mul(x, 11) for x in range(256)]
_M13 = [_mul(x, 13) for x in range(256)]
_M14 = [_mul(x, 14) for x in range(256)]


def expand_key(key):
    nk = len(key) // 4
    nr = nk + 6
    w = [list(key[4 * i:4 * i + 4]) for i in range(nk)]
    rcon = 1
    for i in range(nk, 4 * (nr + 1)):
        t = list(w[i - 1])
        if i % nk == 0:
            t = t[1:] + t[:1]
            t = [_SBOX[b] for b in t]
            t[0] ^= rcon
            rcon = _xt(rcon)
        elif nk > 6 and i % nk == 4:
            t = [_SBOX[b] for b in t]
        w.append([a ^ b for a, b in zip(w[i - nk], t)])
    return [sum(w[4 * r:4 * r + 4], []) for r in range(nr + 1)]


def encrypt_block(rk, block):
    s = [b ^ k for b, k in zip(block, rk[0])]
    nr = len(rk) - 1
    for r in range(1, nr + 1):
        s = [_SBOX[b] for b in s]
        s = [s[0], s[5], s[10], s[15], s[4], s[9], s[14], s[3], s[8], s[13], s[2], s[7], s[12], s[1], s[6], s[11]]
        if r != nr:
            t = []
            for c in range(4):
                a0, a1, a2, a3 = s[4 * c:4 * c + 4]
                t += [_M2[a0] ^ _M3[a1] ^ a2 ^ a3, a0 ^ _M2[a1] ^ _M3[a2] ^ a3, a0 ^ a1 ^ _M2[a2] ^ _M3[a3], _M3[a0] ^ a1 ^ a2 ^ _M2[a3]]
            s = t
        s = [b ^ k for b, k in zip(s, rk[r])]
    return bytes(s)


def decrypt_block(rk, block):
    nr = len(rk) - 1
    s = [b ^ k for b, k in zip(block, rk[nr])]
    for r in range(nr - 1, -1, -1):
        s = [s[0], s[13], s[10], s[7], s[4], s[1], s[14], s[11], s[8], s[5], s[2], s[15], s[12], s[9], s[6], s[3]]
        s = [_INV[b] for b in s]
        s = [b ^ k for b, k in zip(s, rk[r])]
        if r != 0:
            t = []
            for c in range(4):
                a0, a1, a2, a3 = s[4 * c:4 * c + 4]
                t += [_M14[a0] ^ _M11[a1] ^ _M13[a2] ^ _M9[a3], _M9[a0] ^ _M14[a1] ^ _M11[a2] ^ _M13[a3],
                      _M13[a0] ^ _M9[a1] ^ _M14[a2] ^ _M11[a3], _M11[a0] ^ _M13[a1] ^ _M9[a2] ^ _M14[a3]]
            s = t
    return bytes(s)


def cbc_encrypt(key, iv, data):
    rk = expand_key(key)
    out, prev = [], iv
    for i in range(0, len(data), 16):
        blk = bytes(a ^ b for a, b in zip(data[i:i + 16], prev))
        prev = encrypt_block(rk, blk)
        out.append(prev)
    return b''.join(out)


def cbc_decrypt(key, iv, data, rk=None):
    rk = rk or expand_key(key)
    out, prev = [], iv
    for i in range(0, len(data) - len(data) % 16, 16):
        blk = data[i:i + 16]
        out.append(bytes(a ^ b for a, b in zip(decrypt_block(rk, blk), prev)))
        prev = blk
    return b''.join(out)


# ---------------------------------------------------------------------------------------------- ISO 32000-2 7.6.4
def hash_2b(password, salt, udata=b''):
    k = hashlib.sha256(password + salt + udata).digest()
    i = 0
    while True:
        k1 = (password + k + udata) * 64
        e = cbc_encrypt(k[:16], k[16:32], k1)
        m = int.from_bytes(e[:16], 'big') % 3
        k = (hashlib.sha256, hashlib.sha384, hashlib.sha512)[m](e).digest()
        i += 1
        if i >= 64 and e[-1] <= i - 32:
            break
    return k[:32]


def _pdf_string(raw):
    """bytes of a PDF literal string body (escapes resolved)."""
    out = bytearray()
    i = 0
    while i < len(raw):
        c = raw[i]
        if c == 0x5C and i + 1 < len(raw):
            n = raw[i + 1]
            m = {0x6E: 10, 0x72: 13, 0x74: 9, 0x62: 8, 0x66: 12, 0x28: 0x28, 0x29: 0x29, 0x5C: 0x5C}
            if n in m:
                out.append(m[n])
                i += 2
            elif 0x30 <= n <= 0x37:
                j, v = i + 1, 0
                while j < len(raw) and j < i + 4 and 0x30 <= raw[j] <= 0x37:
                    v = v * 8 + raw[j] - 0x30
                    j += 1
                out.append(v & 0xFF)
                i = j
            elif n in (10, 13):
                i += 2
                if n == 13 and i < len(raw) and raw[i] == 10:
                    i += 1
            else:
                out.append(n)
                i += 2
        else:
            out.append(c)
            i += 1
    return bytes(out)


def _string_value(d, key):
    m = re.search(rb'/' + key + rb'\s*\(', d)
    if m:
        i, depth = m.end(), 1
        start = i
        while i < len(d) and depth:
            if d[i] == 0x5C:
                i += 2
                continue
            if d[i] == 0x28:
                depth += 1
            elif d[i] == 0x29:
                depth -= 1
            i += 1
        return _pdf_string(d[start:i - 1])
    m = re.search(rb'/' + key + rb'\s*<([0-9A-Fa-f\s]+)>', d)
    if m:
        return bytes.fromhex(re.sub(rb'\s+', b'', m.group(1)).decode())
    return None


def file_key(encrypt_dict, password=b''):
    """-> 32-byte file encryption key for /V 5 /R 6 with the user password, or None."""
    if not re.search(rb'/R\s+6\b', encrypt_dict) or b'AESV3' not in encrypt_dict:
        return None
    u, ue = _string_value(encrypt_dict, rb'U'), _string_value(encrypt_dict, rb'UE')
    if not u or not ue or len(u) < 48 or len(ue) < 32:
        return None
    if hash_2b(password, u[32:40]) != u[:32]:
        return None          # not openable with the empty user password
    ik = hash_2b(password, u[40:48])
    return cbc_decrypt(ik, b'\x00' * 16, ue[:32])


class Decryptor(object):
    def __init__(self, key):
        self.rk = expand_key(key)
        self.key = key

    def __call__(self, data):
        if len(data) < 32:
            return b''
        out = cbc_decrypt(self.key, data[:16], data[16:], self.rk)
        pad = out[-1] if out else 0
        return out[:-pad] if 1 <= pad <= 16 else out
