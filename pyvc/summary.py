"""Strongest-postcondition summaries of lines: def_L(reads) as a z3 term.

The summary of a line is obtained by symbolic execution of the real function;
TypedField.value's blank convention is applied (None / blank -> empty value).
Used by lemma-level obligations (C15, C16) where several lines' definitions
are related over the shared read symbols of one solution (fixed point, C03).
"""
import z3

from . import extract, linevc, sym
from .sym import SV


def own_symbol(year, fld):
    """The symbol other lines get when they read this line."""
    kind, ecls, opt = linevc.field_kind(fld)
    name = fld.name()
    fname = name.split('.')[0]
    if ':' in fname and fname.split(':')[0] in extract.NUMBERED:
        inst = fname.split(':')[1]
        full = name.replace(f':{inst}.', ':{n}.')
        return linevc.read_symbol('v', full, kind, ecls, index=z3.IntVal(int(inst))), kind
    return linevc.read_symbol('v', name, kind, ecls), kind


class Summary(object):
    def __init__(self, year, fld, max_paths=400):
        self.year, self.fld = year, fld
        self.paths = linevc.explore_line(year, fld, max_paths=max_paths)
        self.kind = linevc.field_kind(fld)[0]
        self.unsupported = [p.outcome[1] for p in self.paths if p.outcome[0] == 'unsupported']
        zero = {'real': z3.RealVal(0), 'int': z3.IntVal(0), 'bool': z3.BoolVal(False), 'str': z3.StringVal('')}.get(self.kind)
        self.cases = []      # (cond, value term) for returning, well-typed paths
        self.ni = []         # conds of not-implemented paths
        self.other = []      # conds of other raises / wrongly typed returns
        self.facts = []
        for p in self.paths:
            nq = [f for f in p.facts if not z3.is_quantifier(f)]
            cond = z3.And(*(p.conds + nq)) if (p.conds or nq) else z3.BoolVal(True)
            if p.outcome[0] == 'return':
                v = p.outcome[1]
                if v is None or (isinstance(v, str) and v.strip() == ''):
                    if zero is None:
                        self.other.append(cond)
                    else:
                        self.cases.append((cond, zero, p))
                elif sym.kind_of(v) == self.kind and self.kind in ('real', 'int', 'bool', 'str'):
                    self.cases.append((cond, sym.term(v), p))
                else:
                    self.other.append(cond)
            elif p.outcome[0] == 'raise' and type(p.outcome[1]).__name__ == 'FieldNotImplemented':
                self.ni.append(cond)
            else:
                self.other.append(cond)

    def returns(self):
        return z3.Or(*[c for c, _, _ in self.cases]) if self.cases else z3.BoolVal(False)

    def value(self):
        """ite over the returning cases (meaningful under returns())."""
        if not self.cases:
            return None
        t = self.cases[-1][1]
        for c, v, _ in reversed(self.cases[:-1]):
            t = z3.If(c, v, t)
        return t

    def defining_fact(self):
        """own symbol == def(reads), assuming the line has a value."""
        s, k = own_symbol(self.year, self.fld)
        v = self.value()
        if v is None:
            return z3.BoolVal(False)
        return z3.And(self.returns(), s == v)
