"""Native interactive sessions of the REAL command-line path habutax.solve(args) (replay / refutation mode only).

Toy form classes (pyvc.toyforms.build) are registered as an extra "tax year" of habutax.forms.available_forms; the real
`habutax.solve` then runs with the real InputStore (file on disk), the real Solver, the real prompt_input and the real
write-back, while builtins.input is scripted: it answers from a table and, at a chosen prompt index, raises
KeyboardInterrupt or EOFError.  A line definition may also fail (RuntimeError) or hit an unsupported case.

Observable statements checked (taken from the property texts):
  C20  after any interrupted session with write-back the file parses, holds every value it held before and every answer
       given before the interruption, and a re-run does not ask for those answers again;
  C13  after a completed session with write-back a re-run asks nothing and prints the identical solution; only inputs a
       line read and found absent are asked for, never one the file supplied.
Used only to turn a refuted / undecided obligation into a concrete failing session; never evidence that a property holds.
"""
import builtins
import configparser
import contextlib
import io
import os
import random
import shutil
import signal
import tempfile
import types

from . import toyforms

YEAR = 9999
STR_ANSWERS = ['x', 'Unit #12', 'a ; b', 'p=q', '[z]', '  padded  ', '12', '']


def _args(path, forms, prompt=True, writeback=True):
    return types.SimpleNamespace(input_file=path, writeback_input=writeback, prompt_missing=prompt, year=YEAR, forms=list(forms), solution=None)


def run_session(program, requested, provided, answers, stop_at=None, stop_kind=None, boom=None):
    """One real `habutax.solve` run.  provided: {qualified key: text}; answers: {qualified key: text};
    stop_at/stop_kind: raise KeyboardInterrupt / EOFError at that prompt index.  -> observation dict."""
    import habutax
    from habutax import forms as hforms
    classes, evals, traces = toyforms.build(program)
    tmp = tempfile.mkdtemp(prefix='verif_sess_', dir='/dev/shm' if os.path.isdir('/dev/shm') else None)
    path = os.path.join(tmp, 'in.ini')
    cfg = configparser.ConfigParser()
    for k, v in provided.items():
        sec, base = k.split('.')
        if not cfg.has_section(sec):
            cfg.add_section(sec)
        cfg.set(sec, base, str(v))
    with open(path, 'w') as f:
        cfg.write(f)
    obs = {'program': program, 'requested': list(requested), 'provided': dict(provided), 'answers': dict(answers), 'stop_at': stop_at, 'stop_kind': stop_kind}
    hforms.available_forms[YEAR] = classes
    try:
        obs['first'] = _one(habutax, path, requested, answers, stop_at, stop_kind)
        obs['file_after'] = open(path).read()
        try:
            after = configparser.ConfigParser()
            after.read_string(obs['file_after'])
            obs['after'] = {f'{s}.{k}': v for s in after.sections() for k, v in after[s].items()}
        except Exception as ex:
            obs['after_error'] = f'{type(ex).__name__}: {ex}'
        # second run on the written-back file: records what is asked; answers everything so that it can complete
        classes2, _, _ = toyforms.build(program)
        hforms.available_forms[YEAR] = classes2
        obs['second'] = _one(habutax, path, requested, answers, None, None)
    finally:
        hforms.available_forms.pop(YEAR, None)
        shutil.rmtree(tmp, ignore_errors=True)
    return obs


def _one(habutax, path, requested, answers, stop_at, stop_kind, budget_s=5):
    """answers[name] is a text or a list of texts tried in turn (an invalid one makes prompt_input ask again);
    stop_at counts calls of input(), so an interruption can fall on a retry prompt too."""
    asked, given, calls = [], [], [0]
    tries = {}

    def fake_input(prompt=''):
        name = None
        for line in str(prompt).splitlines():
            if line.startswith('----[ '):
                name = line.split('----[ ')[1].split(' ]')[0]
        if name is None:           # "Invalid input, try again?: " -> same question again
            name = asked[-1] if asked else None
        else:
            asked.append(name)
        calls[0] += 1
        if stop_at is not None and calls[0] > stop_at:
            raise (KeyboardInterrupt() if stop_kind == 'ctrl-c' else EOFError('input ended'))
        if name in answers:
            seq = answers[name] if isinstance(answers[name], list) else [answers[name]]
            ix = tries.get(name, 0)
            tries[name] = ix + 1
            if ix >= len(seq):
                raise KeyboardInterrupt()
            if ix == len(seq) - 1:
                given.append(name)
            return str(seq[ix])
        raise KeyboardInterrupt()

    def alarm(*a):
        raise toyforms.Budget()
    out = io.StringIO()
    res = {'asked': asked, 'given': given}
    old = builtins.input
    builtins.input = fake_input
    oldh = signal.signal(signal.SIGALRM, alarm)
    signal.alarm(budget_s)
    try:
        with contextlib.redirect_stdout(out):
            try:
                habutax.solve(_args(path, requested))
                res['ended'] = 'returned'
            except toyforms.Budget:
                res['ended'] = 'did not terminate'
            except BaseException as ex:
                res['ended'] = f'{type(ex).__name__}: {str(ex)[:120]}'
    finally:
        signal.alarm(0)
        signal.signal(signal.SIGALRM, oldh)
        builtins.input = old
    text = out.getvalue()
    res['solved'] = 'Successfully solved!' in text
    # the printed solution (everything after the verdict) is the observable result
    res['solution_text'] = text.split('Successfully solved!')[-1] if res['solved'] else None
    return res


def _final(answers, k):
    v = answers[k]
    return str(v[-1] if isinstance(v, list) else v)


def check_c20(o):
    f = o['first']
    if f['ended'] == 'did not terminate':
        return f'the session did not end after the interruption (asked {f["asked"]}); nothing is written back'
    if 'after_error' in o:
        return f'the input file does not parse after the session: {o["after_error"]}'
    for k, v in o['provided'].items():
        if o['after'].get(k) != str(v).strip():
            return f'value {k}={v!r} held before the session is {o["after"].get(k)!r} in the file afterwards (session ended: {f["ended"]})'
    complete = [k for ix, k in enumerate(f['given'])]
    for k in complete:
        if o['after'].get(k) != _final(o['answers'], k).strip():
            return f'answer {k}={_final(o["answers"], k)!r} given at a prompt is {o["after"].get(k)!r} in the file afterwards (session ended: {f["ended"]})'
    again = [k for k in o['second']['asked'] if k in complete]
    if again:
        return f'the re-run asks again for {again}, answered before the interruption (session ended: {f["ended"]})'
    return None


def check_c13(o):
    f, s = o['first'], o['second']
    for k in f['asked']:
        if k in o['provided']:
            return f'asked for {k} which the input file already supplied'
    if len(set(f['asked'])) != len(f['asked']):
        return f'an input was asked for twice in one session: {f["asked"]}'
    again = [k for k in s['asked'] if k in f['given']]
    if again and 'after_error' not in o:
        return f'with write-back, the re-run asks again for {again}, answered in the previous session (which ended: {f["ended"]})'
    if f['solved'] and f['ended'] == 'returned':
        if s['asked']:
            return f'after a completed run with write-back the re-run asks for {s["asked"]}'
        if _parsed(s['solution_text']) != _parsed(f['solution_text']):
            return f'after a completed run with write-back the re-run gives a different solution: {_parsed(f["solution_text"])} then {_parsed(s["solution_text"])}'
    return None


def _parsed(text):
    if text is None:
        return None
    c = configparser.ConfigParser()
    c.read_string(text)
    return {sec: dict(c[sec]) for sec in c.sections()}


CHECKS = {'C20': check_c20, 'C13': check_c13}


def sessions(seed=0, n_random=40):
    rnd = random.Random(seed)
    progs = toyforms.fixed_programs() + [toyforms.random_program(rnd) for _ in range(n_random)]
    # a form with string inputs, so that answers containing comment / section / assignment characters are exercised
    progs.insert(0, {'a': {'inputs': ['s0', 's1', 'i0'], 'lines': {'l0': [('in', 's0'), ('in', 's1')], 'l1': [('in', 'i0'), ('v', 'l0')]}, 'required': ['l0', 'l1']}})
    for prog in progs:
        all_inputs = [f'{f}.{i}' for f, fd in prog.items() for i in fd['inputs']]
        for requested in ([list(prog)[0]],) + ((list(prog),) if len(prog) > 1 else ()):
            full = {}
            for k in all_inputs:
                full[k] = rnd.choice(STR_ANSWERS) if k.split('.')[1].startswith('s') else str(rnd.choice([0, 1, 2]))
            half = {k: v for k, v in full.items() if rnd.random() < 0.4}
            rest = {k: v for k, v in full.items() if k not in half}
            yield prog, requested, {}, full, None, None
            yield prog, requested, half, rest, None, None
            yield prog, requested, {}, {k: '' for k in all_inputs}, None, None     # blank answers are answers
            # an invalid first answer to every integer question: prompt_input asks again
            retry = {k: (['not a number', v] if not k.split('.')[1].startswith('s') else v) for k, v in full.items()}
            yield prog, requested, {}, retry, None, None
            for k in range(1, 5):
                for kind in ('ctrl-c', 'eof'):
                    yield prog, requested, {}, retry, k, kind
            for k in range(0, 4):
                for kind in ('ctrl-c', 'eof'):
                    yield prog, requested, half, rest, k, kind
                    if k < 2:
                        yield prog, requested, {}, full, k, kind


def search(prop, seed=0, n_random=40):
    chk = CHECKS[prop]
    n = 0
    for prog, requested, provided, answers, stop_at, kind in sessions(seed, n_random):
        n += 1
        try:
            o = run_session(prog, requested, provided, answers, stop_at, kind)
        except Exception as ex:
            continue
        msg = chk(o)
        if msg:
            return {'violated': msg, 'program': prog, 'requested': requested, 'provided': provided, 'answers': answers, 'stop_at': stop_at, 'stop_kind': kind,
                    'first_run': {k: o['first'][k] for k in ('asked', 'given', 'ended', 'solved')}, 'second_run_asked': o['second']['asked'],
                    'file_after': o.get('file_after', '')[:600], 'sessions_tried': n}
    return None


if __name__ == '__main__':
    import sys
    import time
    from . import extract
    extract.setup_path()
    for p in sys.argv[1:] or ['C20', 'C13']:
        t0 = time.time()
        print(p, search(p), round(time.time() - t0, 1), 's')
