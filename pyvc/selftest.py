"""./check selftest [Cxx-n ...]: the machinery tested against itself (DESIGN 2.7).

Every kept seeded change (/verif/seeded/<Cxx>-<n>/patch.diff, written by independent sub-agents from the property text
alone) is applied to a scratch worktree of /repo (never to /repo itself) and the checks recorded as catching it in its
meta.json are run with VERIF_REPO pointing at the scratch tree: each must report a VIOLATION (exit 1).  The unchanged
tree must pass (that is what the registered checks themselves establish).  Exit 0: every recorded detection reproduces;
1: a recorded detection no longer reproduces (a check got weaker); the scratch trees are removed afterwards.
This is not a property check and is not registered in MANIFEST.json.
"""
import json
import os
import shutil
import subprocess
import sys

from . import oblig

SCRATCH = '/dev/shm' if os.path.isdir('/dev/shm') else None


def sh(cmd, cwd=None, env=None, timeout=2400):
    r = subprocess.run(cmd, shell=True, cwd=cwd, env=env, capture_output=True, text=True, timeout=timeout)
    return r.returncode, r.stdout + r.stderr


def main(argv):
    root = os.path.join(oblig.VERIF, 'seeded')
    names = argv or sorted(d for d in os.listdir(root) if os.path.exists(os.path.join(root, d, 'meta.json')))
    bad = 0
    for name in names:
        d = os.path.join(root, name)
        meta = json.load(open(os.path.join(d, 'meta.json')))
        want = meta.get('detected_by') or []
        if not want or not meta.get('patch_applies'):
            print(f'{name}: skipped (recorded as {"not applying" if not meta.get("patch_applies") else "caught by no check"})')
            continue
        scratch = os.path.join(SCRATCH or '/var/tmp', f'selftest_{name}_{os.getpid()}')
        shutil.rmtree(scratch, ignore_errors=True)
        sh(f'git -C /repo worktree add --detach -f {scratch} HEAD')
        try:
            rc, out = sh(f'git apply {os.path.join(d, "patch.diff")}', cwd=scratch)
            if rc != 0:
                print(f'{name}: patch no longer applies to the current tree ({out.strip()[-120:]})')
                bad += 1
                continue
            for c in want:
                env = dict(os.environ, VERIF_REPO=scratch, VERIF_EVIDENCE_DIR=os.path.join(scratch, '.ev'), VERIF_REPLAY_DIR=os.path.join(scratch, '.rp'))
                rc, out = sh(f'./check {c} --tier quick', cwd=oblig.VERIF, env=env)
                ok = rc == 1 and any(l.startswith(f'VIOLATION property={c}') for l in out.splitlines())
                print(f'{name}: {c} {"reports the change" if ok else "DOES NOT report the change (exit %d)" % rc}')
                bad += 0 if ok else 1
        finally:
            sh(f'git -C /repo worktree remove --force {scratch}')
            shutil.rmtree(scratch, ignore_errors=True)
    sh('git -C /repo worktree prune')
    print(f'selftest: {len(names)} seeded change(s), {bad} recorded detection(s) lost')
    return 1 if bad else 0
