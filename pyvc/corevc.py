"""corevc: modular VC generation for the core classes (mutable object state).

The real method bodies are executed by the same symbolic interpreter (sym.Interp);
object attributes hold *abstract views* whose operations are encoded in z3:

  ZBag(E)        list whose order no property mentions: count array + size (+ head for [0]/pop(0))
  ZMapBag(K, E)  dict K -> list-as-bag (DependencyTracker._unmet)
  ZMap(K, V)     dict K -> value (field map, input map, value store, forms)
  ZSet(E)        set

Loops with symbolic bounds use invariants from the contract files (havoc rule):
check at entry, havoc the modified state, assume invariant and condition, run the
body once, check preservation; continue after the loop with invariant and the
negated condition.  Calls to methods under contract are replaced by their
contracts (requires checked, modifies havocked, ensures assumed).
Obligations are collected on the path and discharged afterwards.
"""
import copy
import itertools
import types

import z3

from . import extract, smt, sym
from .sym import SV, Raised, Unsupported, has_sym

_fresh = itertools.count()


def fresh(prefix, sort):
    return z3.Const(f'{prefix}!{next(_fresh)}', sort)


NAME = z3.DeclareSort('Name')      # names of lines / inputs / forms
OBJ = z3.DeclareSort('Obj')        # opaque objects (Field / Input / Form instances)


class Abstract(object):
    _pyvc_symbolic = True

    def snap(self):
        return copy.copy(self)


def to_term(x, sort=None):
    if isinstance(x, SV):
        return x.t
    if isinstance(x, (AObj, Opaque)) and x.ref is not None:
        return x.ref
    if z3.is_expr(x):
        return x
    return sym.term(x)


def wrap(t, hint=None):
    """z3 term -> interpreter value."""
    s = t.sort()
    if s == z3.IntSort():
        return SV('int', t)
    if s == z3.RealSort():
        return SV('real', t)
    if s == z3.BoolSort():
        return SV('bool', t)
    if s == z3.StringSort():
        return SV('str', t)
    return SV('obj', t)


class ZBag(Abstract):
    """Multiset (A-BAG)."""
    def __init__(self, esort, cnt=None, size=None, head=None, name='bag'):
        self.esort = esort
        self.name = name
        self.cnt = cnt if cnt is not None else z3.K(esort, z3.IntVal(0))
        self.size = size if size is not None else z3.IntVal(0)
        self.head = head

    @classmethod
    def havoc(cls, esort, name):
        b = cls(esort, fresh(name + '.cnt', z3.ArraySort(esort, z3.IntSort())), fresh(name + '.size', z3.IntSort()), None, name)
        return b

    def wf(self):
        e = z3.Const('_e', self.esort)
        facts = [z3.ForAll([e], z3.And(self.cnt[e] >= 0, self.cnt[e] <= self.size)), self.size >= 0,
                 z3.Implies(self.size == 0, z3.ForAll([e], self.cnt[e] == 0))]
        # size > 0 => some element present (skolem witness)
        w = fresh(self.name + '.wit', self.esort)
        facts.append(z3.Implies(self.size > 0, self.cnt[w] > 0))
        return facts

    def _head(self, it):
        if self.head is None:
            self.head = fresh(self.name + '.head', self.esort)
            it.run.fact(z3.Implies(self.size > 0, self.cnt[self.head] > 0))
        return self.head

    def sym_len(self, it, node):
        return SV('int', self.size)

    def sym_truth(self, it, node):
        return SV('bool', self.size > 0)

    def sym_contains(self, it, x, node):
        return SV('bool', self.cnt[to_term(x)] > 0)

    def sym_getitem(self, it, key, node):
        if key == 0 and not isinstance(key, bool):
            if it.run.branch(self.size <= 0, where=f'bag0@{node.lineno}'):
                raise Raised(IndexError('list index out of range'), node)
            return wrap(self._head(it))
        raise Unsupported('bag index other than [0]')

    def add(self, x, n=1):
        t = to_term(x)
        self.cnt = z3.Store(self.cnt, t, self.cnt[t] + n)
        self.size = self.size + n

    def remove_one(self, t):
        self.cnt = z3.Store(self.cnt, t, self.cnt[t] - 1)
        self.size = self.size - 1
        self.head = None

    def sym_method(self, it, attr, args, kwargs, node):
        if attr == 'append' and len(args) == 1:
            self.add(args[0])
            return None
        if attr == 'extend' and len(args) == 1:
            o = args[0]
            if isinstance(o, (list, tuple)):
                for x in o:
                    self.add(x)
                return None
            if isinstance(o, ZBag):
                new = fresh(self.name + '.cnt', z3.ArraySort(self.esort, z3.IntSort()))
                e = z3.Const('_e', self.esort)
                it.run.fact(z3.ForAll([e], new[e] == self.cnt[e] + o.cnt[e]))
                self.cnt, self.size, self.head = new, self.size + o.size, None
                return None
        if attr == 'sort':
            self.head = None
            return None
        if attr == 'pop':
            if it.run.branch(self.size <= 0, where=f'bagpop@{node.lineno}'):
                raise Raised(IndexError('pop from empty list'), node)
            if args and args[0] == 0:
                e = self._head(it)
            elif not args:
                e = fresh(self.name + '.pop', self.esort)
                it.run.fact(self.cnt[e] > 0)
            else:
                raise Unsupported('bag pop(i)')
            self.remove_one(e)
            return wrap(e)
        if attr == 'clear' and not args:
            self.cnt, self.size, self.head = z3.K(self.esort, z3.IntVal(0)), z3.IntVal(0), None
            return None
        if attr == 'reverse' and not args:
            self.head = None
            return None
        if attr == 'remove' and len(args) == 1:
            t = to_term(args[0])
            if it.run.branch(self.cnt[t] <= 0, where=f'bagremove@{node.lineno}'):
                raise Raised(ValueError('list.remove(x): x not in list'), node)
            self.remove_one(t)
            return None
        raise Unsupported(f'bag method {attr}')


def _zbag_sym_delitem(self, it, key, node):
    """del bag[i] / del bag[a:b]: some elements leave the list (which ones the multiset view does not track)."""
    if isinstance(key, slice):
        new_cnt = fresh(self.name + '.delslice', z3.ArraySort(self.esort, z3.IntSort()))
        new_size = fresh(self.name + '.dellen', z3.IntSort())
        e = z3.Const('_e', self.esort)
        it.run.fact(z3.ForAll([e], z3.And(new_cnt[e] >= 0, new_cnt[e] <= self.cnt[e], new_cnt[e] <= new_size)))
        it.run.fact(z3.And(new_size >= 0, new_size <= self.size))
        it.run.fact(z3.Implies(new_size == self.size, new_cnt == self.cnt))
        if key.step is None and key.stop is None and isinstance(key.start, int) and key.start >= 0:
            it.run.fact(new_size == z3.If(self.size < key.start, self.size, z3.IntVal(key.start)))
        self.cnt, self.size, self.head = new_cnt, new_size, None
        return
    if it.run.branch(self.size <= 0, where=f'bagdel@{node.lineno}'):
        raise Raised(IndexError('list assignment index out of range'), node)
    x = fresh(self.name + '.del', self.esort)
    it.run.fact(self.cnt[x] > 0)
    self.remove_one(x)


ZBag.sym_delitem = _zbag_sym_delitem


def _zbag_sym_iter(self, it, s, frame):
    return it.iterate_bag(self, s, frame)


ZBag.sym_iter = _zbag_sym_iter


class NameImage(Abstract):
    """[f.name() for f in bag]: the multiset image under name_of (only membership is used)."""
    def __init__(self, bag, fn):
        self.bag, self.fn = bag, fn


class ZSet(Abstract):
    def __init__(self, esort, mem=None, name='set'):
        self.esort, self.name = esort, name
        self.mem = mem if mem is not None else z3.K(esort, z3.BoolVal(False))

    @classmethod
    def havoc(cls, esort, name):
        return cls(esort, fresh(name + '.mem', z3.ArraySort(esort, z3.BoolSort())), name)

    def sym_contains(self, it, x, node):
        return SV('bool', self.mem[to_term(x)])

    def sym_method(self, it, attr, args, kwargs, node):
        if attr == 'add':
            self.mem = z3.Store(self.mem, to_term(args[0]), z3.BoolVal(True))
            return None
        if attr == 'discard':
            self.mem = z3.Store(self.mem, to_term(args[0]), z3.BoolVal(False))
            return None
        raise Unsupported(f'set method {attr}')

    def union_update(self, it, other):
        new = fresh(self.name + '.mem', z3.ArraySort(self.esort, z3.BoolSort()))
        e = z3.Const('_e', self.esort)
        if isinstance(other, ZSet):
            it.run.fact(z3.ForAll([e], new[e] == z3.Or(self.mem[e], other.mem[e])))
        elif isinstance(other, (set, frozenset, list, tuple)):
            cur = self.mem
            for x in other:
                cur = z3.Store(cur, to_term(x), z3.BoolVal(True))
            self.mem = cur
            return
        else:
            raise Unsupported('set union with unsupported operand')
        self.mem = new


def _sort_ok(t, sort):
    return z3.is_expr(t) and t.sort() == sort


class ZMap(Abstract):
    """dict K -> V with V a z3 sort."""
    def __init__(self, ksort, vsort, has=None, val=None, name='map'):
        self.ksort, self.vsort, self.name = ksort, vsort, name
        self.has = has if has is not None else z3.K(ksort, z3.BoolVal(False))
        self.val = val if val is not None else fresh(name + '.val0', z3.ArraySort(ksort, vsort))

    @classmethod
    def havoc(cls, ksort, vsort, name):
        return cls(ksort, vsort, fresh(name + '.has', z3.ArraySort(ksort, z3.BoolSort())), fresh(name + '.val', z3.ArraySort(ksort, vsort)), name)

    def sym_contains(self, it, x, node):
        t = to_term(x)
        if not _sort_ok(t, self.ksort):
            return False   # an object of another type never equals a key
        return SV('bool', self.has[t])

    def sym_getitem(self, it, key, node):
        k = to_term(key)
        if it.run.branch(z3.Not(self.has[k]), where=f'mapget@{node.lineno}:{node.col_offset}'):
            raise Raised(KeyError('key not in map'), node)
        return wrap(self.val[k])

    def sym_setitem(self, it, key, v, node):
        k = to_term(key)
        self.has = z3.Store(self.has, k, z3.BoolVal(True))
        self.val = z3.Store(self.val, k, to_term(v))

    def sym_delitem(self, it, key, node):
        k = to_term(key)
        if it.run.branch(z3.Not(self.has[k]), where=f'mapdel@{node.lineno}'):
            raise Raised(KeyError('key not in map'), node)
        self.has = z3.Store(self.has, k, z3.BoolVal(False))

    def sym_method(self, it, attr, args, kwargs, node):
        if attr == 'items' and not args:
            return ItemsView(self)
        if attr == 'keys' and not args:
            return KeysView(self)
        if attr == 'get' and 1 <= len(args) <= 2 and not kwargs:
            k = to_term(args[0])
            if it.run.branch(z3.Not(self.has[k]), where=f'mapgetd@{node.lineno}:{node.col_offset}'):
                return args[1] if len(args) == 2 else None
            return wrap(self.val[k])
        if attr == 'pop' and 1 <= len(args) <= 2 and not kwargs:
            k = to_term(args[0])
            if it.run.branch(z3.Not(self.has[k]), where=f'mappop@{node.lineno}:{node.col_offset}'):
                if len(args) == 2:
                    return args[1]
                raise Raised(KeyError('key not in map'), node)
            v = wrap(self.val[k])
            self.has = z3.Store(self.has, k, z3.BoolVal(False))
            return v
        if attr == 'setdefault' and len(args) == 2 and not kwargs:
            k = to_term(args[0])
            if it.run.branch(z3.Not(self.has[k]), where=f'mapsetd@{node.lineno}:{node.col_offset}'):
                self.sym_setitem(it, args[0], args[1], node)
                return args[1]
            return wrap(self.val[k])
        raise Unsupported(f'dict method {attr}')


class ZMapBag(Abstract):
    """dict K -> list (as bag of E).  Invariant kept by the operations: an absent key has an all-zero bag."""
    def __init__(self, ksort, esort, has=None, cnt=None, ln=None, name='mapbag'):
        self.ksort, self.esort, self.name = ksort, esort, name
        self.has = has if has is not None else z3.K(ksort, z3.BoolVal(False))
        self.cnt = cnt if cnt is not None else z3.K(ksort, z3.K(esort, z3.IntVal(0)))
        self.ln = ln if ln is not None else z3.K(ksort, z3.IntVal(0))

    @classmethod
    def havoc(cls, ksort, esort, name):
        return cls(ksort, esort, fresh(name + '.has', z3.ArraySort(ksort, z3.BoolSort())),
                   fresh(name + '.cnt', z3.ArraySort(ksort, z3.ArraySort(esort, z3.IntSort()))),
                   fresh(name + '.len', z3.ArraySort(ksort, z3.IntSort())), name)

    def wf(self):
        k = z3.Const('_k', self.ksort)
        e = z3.Const('_e', self.esort)
        return [z3.ForAll([k, e], z3.And(self.cnt[k][e] >= 0, self.cnt[k][e] <= self.ln[k])),
                z3.ForAll([k], self.ln[k] >= 0),
                z3.ForAll([k, e], z3.Implies(self.ln[k] == 0, self.cnt[k][e] == 0)),
                z3.ForAll([k, e], z3.Implies(z3.Not(self.has[k]), z3.And(self.ln[k] == 0, self.cnt[k][e] == 0))),
                z3.ForAll([k], z3.Implies(self.ln[k] > 0, self.cnt[k][self._witness()[k]] > 0))]

    def _witness(self):
        if not hasattr(self, '_wit'):
            self._wit = fresh(self.name + '.wit', z3.ArraySort(self.ksort, self.esort))
        return self._wit

    def sym_contains(self, it, x, node):
        return SV('bool', self.has[to_term(x)])

    def sym_getitem(self, it, key, node):
        k = to_term(key)
        if it.run.branch(z3.Not(self.has[k]), where=f'mbget@{node.lineno}:{node.col_offset}'):
            raise Raised(KeyError('key not in dict'), node)
        return MapBagEntry(self, k)

    def sym_setitem(self, it, key, v, node):
        k = to_term(key)
        if isinstance(v, (list, tuple)):
            bag = z3.K(self.esort, z3.IntVal(0))
            for x in v:
                t = to_term(x)
                bag = z3.Store(bag, t, bag[t] + 1)
            n = z3.IntVal(len(v))
        elif isinstance(v, ZBag):
            bag, n = v.cnt, v.size
        else:
            raise Unsupported('dict-of-lists store of a non-list')
        self.has = z3.Store(self.has, k, z3.BoolVal(True))
        self.cnt = z3.Store(self.cnt, k, bag)
        self.ln = z3.Store(self.ln, k, n)

    def sym_delitem(self, it, key, node):
        k = to_term(key)
        if it.run.branch(z3.Not(self.has[k]), where=f'mbdel@{node.lineno}'):
            raise Raised(KeyError('key not in dict'), node)
        self.has = z3.Store(self.has, k, z3.BoolVal(False))
        self.cnt = z3.Store(self.cnt, k, z3.K(self.esort, z3.IntVal(0)))
        self.ln = z3.Store(self.ln, k, z3.IntVal(0))

    def sym_method(self, it, attr, args, kwargs, node):
        if attr == 'keys' and not args:
            return KeysView(self)
        if attr == 'items' and not args:
            return ItemsView(self)
        if attr == 'pop' and 1 <= len(args) <= 2 and not kwargs:
            k = to_term(args[0])
            if it.run.branch(z3.Not(self.has[k]), where=f'mbpopkey@{node.lineno}'):
                if len(args) == 2:
                    return args[1]
                raise Raised(KeyError('key not in dict'), node)
            out = ZBag(self.esort, self.cnt[k], self.ln[k], name=self.name + '.popped')
            self.has = z3.Store(self.has, k, z3.BoolVal(False))
            self.cnt = z3.Store(self.cnt, k, z3.K(self.esort, z3.IntVal(0)))
            self.ln = z3.Store(self.ln, k, z3.IntVal(0))
            return out
        raise Unsupported(f'dict method {attr}')


class MapBagEntry(Abstract):
    """Alias of the list stored under key k (mutations go to the parent)."""
    def __init__(self, parent, k):
        self.parent, self.k = parent, k

    def _wf(self, it):
        # A-BAG: the multiset axioms hold for the updated list as for any list
        p, k = self.parent, self.k
        e = z3.Const('_e', p.esort)
        it.run.fact(z3.ForAll([e], z3.And(p.cnt[k][e] >= 0, p.cnt[k][e] <= p.ln[k])))
        it.run.fact(z3.Implies(p.ln[k] == 0, z3.ForAll([e], p.cnt[k][e] == 0)))
        it.run.fact(p.ln[k] >= 0)

    def sym_len(self, it, node):
        return SV('int', self.parent.ln[self.k])

    def sym_truth(self, it, node):
        return SV('bool', self.parent.ln[self.k] > 0)

    def sym_contains(self, it, x, node):
        return SV('bool', self.parent.cnt[self.k][to_term(x)] > 0)

    def sym_method(self, it, attr, args, kwargs, node):
        p, k = self.parent, self.k
        if attr == 'append' and len(args) == 1:
            t = to_term(args[0])
            p.cnt = z3.Store(p.cnt, k, z3.Store(p.cnt[k], t, p.cnt[k][t] + 1))
            p.ln = z3.Store(p.ln, k, p.ln[k] + 1)
            self._wf(it)
            return None
        if attr == 'pop' and not args:
            if it.run.branch(p.ln[k] <= 0, where=f'mbpop@{node.lineno}'):
                raise Raised(IndexError('pop from empty list'), node)
            e = fresh(p.name + '.pop', p.esort)
            it.run.fact(p.cnt[k][e] > 0)
            p.cnt = z3.Store(p.cnt, k, z3.Store(p.cnt[k], e, p.cnt[k][e] - 1))
            p.ln = z3.Store(p.ln, k, p.ln[k] - 1)
            self._wf(it)
            return wrap(e)
        if attr in ('sort', 'reverse') and not args:
            # a permutation of the list: the multiset view is unchanged (the key function is assumed total)
            return None
        if attr == 'clear' and not args:
            p.cnt = z3.Store(p.cnt, k, z3.K(p.esort, z3.IntVal(0)))
            p.ln = z3.Store(p.ln, k, z3.IntVal(0))
            return None
        if attr == 'remove' and len(args) == 1:
            t = to_term(args[0])
            if it.run.branch(p.cnt[k][t] <= 0, where=f'mbremove@{node.lineno}'):
                raise Raised(ValueError('list.remove(x): x not in list'), node)
            p.cnt = z3.Store(p.cnt, k, z3.Store(p.cnt[k], t, p.cnt[k][t] - 1))
            p.ln = z3.Store(p.ln, k, p.ln[k] - 1)
            self._wf(it)
            return None
        raise Unsupported(f'list method {attr} on a dict-of-lists entry')

    def sym_delitem(self, it, key, node):
        """del entry[i] / del entry[a:b]: some elements leave the list (which ones is not tracked by the multiset view)."""
        p, k = self.parent, self.k
        old_cnt, old_ln = p.cnt[k], p.ln[k]
        if isinstance(key, slice):
            new_cnt = fresh(p.name + '.delslice', z3.ArraySort(p.esort, z3.IntSort()))
            new_ln = fresh(p.name + '.dellen', z3.IntSort())
            e = z3.Const('_e', p.esort)
            it.run.fact(z3.ForAll([e], z3.And(new_cnt[e] >= 0, new_cnt[e] <= old_cnt[e])))
            it.run.fact(z3.And(new_ln >= 0, new_ln <= old_ln))
            it.run.fact(z3.Implies(new_ln == old_ln, new_cnt == old_cnt))
            if key.step is None and key.stop is None and isinstance(key.start, int) and key.start >= 0:
                it.run.fact(new_ln == z3.If(old_ln < key.start, old_ln, z3.IntVal(key.start)))
            elif key.step is None and key.start is None and isinstance(key.stop, int) and key.stop >= 0:
                it.run.fact(new_ln == z3.If(old_ln < key.stop, z3.IntVal(0), old_ln - key.stop))
            p.cnt = z3.Store(p.cnt, k, new_cnt)
            p.ln = z3.Store(p.ln, k, new_ln)
            self._wf(it)
            return
        if isinstance(key, int) or (isinstance(key, SV) and key.kind == 'int'):
            if it.run.branch(old_ln <= 0, where=f'mbdelidx@{node.lineno}'):
                raise Raised(IndexError('list assignment index out of range'), node)
            e = fresh(p.name + '.del', p.esort)
            it.run.fact(old_cnt[e] > 0)
            p.cnt = z3.Store(p.cnt, k, z3.Store(old_cnt, e, old_cnt[e] - 1))
            p.ln = z3.Store(p.ln, k, old_ln - 1)
            self._wf(it)
            return
        raise Unsupported('del with a symbolic slice on a dict-of-lists entry')


class KeysView(Abstract):
    def __init__(self, m):
        self.m = m

    def as_bag(self, it):
        b = ZBag.havoc(self.m.ksort, self.m.name + '.keys')
        k = z3.Const('_k', self.m.ksort)
        it.run.fact(z3.ForAll([k], b.cnt[k] == z3.If(self.m.has[k], 1, 0)))
        for f in b.wf():
            it.run.fact(f)
        return b

    def sym_contains(self, it, x, node):
        return SV('bool', self.m.has[to_term(x)])


class ItemsView(Abstract):
    def __init__(self, m):
        self.m = m

    def sym_iter(self, it, s, frame):
        return it.iterate_keys(self.m, s, frame, items=True)


class AObj(Abstract):
    """Symbolic object: real class, abstract attribute values."""
    def __init__(self, cls, attrs=None, ref=None, name='obj'):
        self.__dict__['cls'] = cls
        self.__dict__['attrs'] = attrs or {}
        self.__dict__['ref'] = ref
        self.__dict__['oname'] = name

    def snap(self):
        c = AObj(self.cls, {k: (v.snap() if isinstance(v, Abstract) else v) for k, v in self.attrs.items()}, self.ref, self.oname)
        return c


class Opaque(Abstract):
    """Object known only through contracts of its methods (uninterpreted functions of its reference)."""
    def __init__(self, ref, kind):
        self.ref, self.kind = ref, kind

    def sym_contains(self, it, x, node):
        # `x in obj`: by the contract of the object's __contains__ (Unsupported when the unit's contract has none)
        spec = getattr(it, 'spec', None)
        if spec is None:
            raise Unsupported(f'membership in opaque {self.kind}')
        return spec.opaque_call(it, self, '__contains__', [x], {}, node)


class CoreInterp(sym.Interp):
    def __init__(self, run, spec=None):
        super().__init__(run)
        self.spec = spec            # contract object for the function under verification
        self.yielded = None
        self.ghost = {}
        if not hasattr(run.path, 'obligations'):
            run.path.obligations = []

    # --- obligations
    def oblige(self, label, goal):
        self.run.path.obligations.append((label, list(self.run.path.conds) + list(self.run.path.facts), goal))

    # --- attribute access on symbolic objects
    def getattr_hook(self, obj, attr, node):
        if isinstance(obj, AObj):
            if attr in obj.attrs:
                return obj.attrs[attr]
            try:
                v = getattr(obj.cls, attr)
            except AttributeError:
                raise Raised(AttributeError(f"'{obj.cls.__name__}' object has no attribute '{attr}'"), node)
            if isinstance(v, types.FunctionType):
                return types.MethodType(v, obj)
            return v
        if isinstance(obj, Opaque):
            return OpaqueMethod(obj, attr)
        return NotImplemented

    def getitem_hook(self, obj, key, node):
        if isinstance(obj, AObj) and hasattr(obj.cls, '__getitem__'):
            return self.call_function(obj.cls.__getitem__, [obj, key], {}, node)
        if isinstance(obj, Opaque) and self.spec is not None:
            return self.spec.opaque_call(self, obj, '__getitem__', [key], {}, node)
        return NotImplemented

    def setitem(self, obj, key, v, node):
        if isinstance(obj, AObj) and hasattr(obj.cls, '__setitem__'):
            return self.call_function(obj.cls.__setitem__, [obj, key, v], {}, node)
        if isinstance(obj, Opaque) and self.spec is not None:
            return self.spec.opaque_call(self, obj, '__setitem__', [key, v], {}, node)
        return super().setitem(obj, key, v, node)

    def to_str_term(self, v):
        if isinstance(v, SV) and v.kind == 'obj':
            return z3.Function(f'str_of_{v.t.sort().name()}', v.t.sort(), z3.StringSort())(v.t)
        if isinstance(v, Opaque):
            return z3.Function('str_of_Obj', OBJ, z3.StringSort())(v.ref)
        return super().to_str_term(v)

    def sym_method(self, obj, attr, args, kwargs, node):
        if isinstance(obj, SV) and self.spec is not None:
            r = self.spec.sym_attr_call(self, obj, attr, args, node)
            if r is not NotImplemented:
                return r
        return super().sym_method(obj, attr, args, kwargs, node)

    def setattr(self, obj, attr, v, node):
        if isinstance(obj, AObj):
            view = self.spec.view_of(obj.cls, attr) if self.spec is not None else None
            if view is not None:
                v = view.from_concrete(v)
            obj.attrs[attr] = v
            return
        raise Unsupported(f'attribute store on {type(obj).__name__}')

    def call_hook(self, f, args, kwargs, node):
        if isinstance(f, OpaqueMethod):
            if self.spec is None:
                raise Unsupported('opaque method without contract')
            return self.spec.opaque_call(self, f.obj, f.attr, args, kwargs, node)
        if isinstance(f, types.MethodType) and isinstance(f.__self__, AObj) and self.spec is not None:
            c = self.spec.callee_contract(f.__self__, f.__func__)
            if c is not None and self.depth > 0 and not (self.spec.is_self(f.__func__) and self.depth == 0):
                return c(self, f.__self__, args, kwargs, node)
        if f is set and len(args) == 1 and isinstance(args[0], NameImage):
            ni = args[0]
            out = ZSet.havoc(NAME, 'nameset')
            L = z3.Const('_L', NAME)
            x = z3.Const('_x', ni.bag.esort)
            # membership both ways (skolemised by the image function on the forward direction)
            self.run.fact(z3.ForAll([x], z3.Implies(ni.bag.cnt[x] > 0, out.mem[ni.fn(x)])))
            wit = z3.Function(f'wit!{next(_fresh)}', NAME, ni.bag.esort)
            self.run.fact(z3.ForAll([L], z3.Implies(out.mem[L], z3.And(ni.bag.cnt[wit(L)] > 0, ni.fn(wit(L)) == L))))
            return out
        if f is set and len(args) == 1 and isinstance(args[0], (list, tuple)) and any(sym.is_sym(a) for a in args[0]):
            out = ZSet(NAME, name='nameset')
            for a in args[0]:
                out.mem = z3.Store(out.mem, to_term(a), z3.BoolVal(True))
            return out
        if f is isinstance and len(args) == 2 and isinstance(args[0], Opaque):
            # the class of an object the view does not construct is not known here: the unit's contract must say (or the unit is outside the subset)
            r = self.spec.call_hook(self, f, args, kwargs, node) if self.spec is not None else NotImplemented
            if r is NotImplemented:
                raise Unsupported('isinstance() of an object the contract view does not construct')
            return r
        if f is isinstance and len(args) == 2 and isinstance(args[0], Abstract):
            if isinstance(args[0], ZBag):
                return args[1] is list or (isinstance(args[1], tuple) and list in args[1])
            return False
        if f is isinstance and len(args) == 2 and isinstance(args[0], SV) and args[0].kind == 'obj':
            if args[1] is list:
                return False
        if f is list and len(args) == 1 and isinstance(args[0], KeysView):
            return args[0].as_bag(self)
        if f is list and len(args) == 1 and isinstance(args[0], ZBag):
            return args[0].snap()
        if f is sorted and args and isinstance(args[0], (ZBag, KeysView)):
            b = args[0].as_bag(self) if isinstance(args[0], KeysView) else args[0].snap()
            return b
        if self.spec is not None:
            r = self.spec.call_hook(self, f, args, kwargs, node)
            if r is not NotImplemented:
                return r
        return NotImplemented

    def on_yield(self, v, node, frame):
        if self.yielded is None:
            raise Unsupported('yield outside a generator under contract')
        self.yielded.add(v)
        if self.spec is not None:
            self.spec.on_yield(self, v, node, frame)

    # --- loops
    def has_loop_contract(self, s):
        return self.spec is not None and self.spec.loop_invariant(s) is not None

    def symbolic_while(self, s, frame, first_cond):
        inv = self.spec.loop_invariant(s) if self.spec is not None else None
        if inv is None:
            raise Unsupported('while with symbolic condition and no invariant in the contract')
        selfobj = frame.locals.get('self')
        tok = self.spec.loop_begin(self, selfobj)
        # 1. invariant at entry
        for label, g in inv['inv'](self, selfobj, frame):
            self.oblige(f'{self.site(s)}/entry/{label}', g)
        # 2. havoc
        pre = selfobj.snap() if isinstance(selfobj, AObj) else None
        self.spec.havoc(self, selfobj, inv.get('modifies', []), frame, inv.get('locals', []))
        for label, g in inv['inv'](self, selfobj, frame):
            self.run.fact(g)
        variant0 = inv['variant'](self, selfobj, frame) if 'variant' in inv else None
        c = self.eval(s.test, frame)
        if self.truth(c, s.test):
            iter0 = inv['iter_begin'](self, selfobj, frame) if 'iter_begin' in inv else None
            try:
                self.exec_block(s.body, frame)
            except sym._Continue:
                pass
            except sym._Break:
                raise Unsupported('break in invariant loop')
            for label, g in inv['inv'](self, selfobj, frame):
                self.oblige(f'{self.site(s)}/preserve/{label}', g)
            if 'iter_end' in inv:
                # progress: what one iteration must achieve relative to its own start (not an invariant)
                for label, g in inv['iter_end'](self, selfobj, frame, iter0):
                    self.oblige(f'{self.site(s)}/progress/{label}', g)
            if variant0 is not None:
                v1 = inv['variant'](self, selfobj, frame)
                a0, a1 = (variant0 if isinstance(variant0, tuple) else (variant0,)), (v1 if isinstance(v1, tuple) else (v1,))
                dec = z3.BoolVal(False)
                for ix in range(len(a0)):
                    dec = z3.Or(dec, z3.And(*[a1[j] == a0[j] for j in range(ix)], a1[ix] < a0[ix]))
                self.oblige(f'{self.site(s)}/variant-decreases', z3.And(dec, *[x >= 0 for x in a0]))
            raise LoopIterationDone()
        # loop exit: continue after the loop
        self.spec.loop_end(self, tok)
        return None

    def binop(self, op, a, b, node):
        import ast as _ast
        if isinstance(op, _ast.BitOr) and isinstance(a, ZSet):
            a.union_update(self, b)
            return a
        return super().binop(op, a, b, node)

    def comprehension(self, e, frame):
        import ast as _ast
        # [f.name() for f in <bag>]  ->  NameImage
        if len(e.generators) == 1 and not e.generators[0].ifs and isinstance(e.generators[0].target, _ast.Name):
            seq = self.eval(e.generators[0].iter, frame)
            if isinstance(seq, ZBag):
                el = e.elt
                tn = e.generators[0].target.id
                if isinstance(el, _ast.Call) and isinstance(el.func, _ast.Attribute) and isinstance(el.func.value, _ast.Name) \
                        and el.func.value.id == tn and el.func.attr == 'name' and not el.args:
                    return NameImage(seq, self.spec.name_of)
                raise Unsupported('comprehension over an abstract list (only [x.name() for x in list] is modelled)')
        return super().comprehension(e, frame)

    def iterate_bag(self, bag, s, frame):
        """for x in <bag>: body   with an invariant over (state, remaining bag R)."""
        inv = self.spec.loop_invariant(s) if self.spec is not None else None
        if inv is None:
            raise Unsupported(f'loop over an abstract list at line {s.lineno} without an invariant in the contract')
        selfobj = frame.locals.get('self')
        R = bag.snap()
        rkey = 'R' if bag.esort == OBJ else 'Rk'
        self.ghost[rkey] = R
        tok = self.spec.loop_begin(self, selfobj)
        for label, g in inv['inv'](self, selfobj, frame):
            self.oblige(f'{self.site(s)}/entry/{label}', g)
        self.spec.havoc(self, selfobj, inv.get('modifies', []), frame, inv.get('locals', []))
        R = ZBag.havoc(bag.esort, 'R')
        for f in R.wf():
            self.run.fact(f)
        self.ghost[rkey] = R
        for label, g in inv['inv'](self, selfobj, frame):
            self.run.fact(g)
        if self.run.branch(R.size > 0, where=f'for@{s.lineno}'):
            x = fresh('elem', bag.esort)
            self.run.fact(R.cnt[x] > 0)
            R.remove_one(x)
            for f in R.wf():
                self.run.fact(f)
            self.assign(s.target, wrap(x), frame)
            try:
                self.exec_block(s.body, frame)
            except sym._Continue:
                pass
            except sym._Break:
                # leaving the loop early: continue after it with the current state (R is dropped)
                self.ghost[rkey] = ZBag(bag.esort, name='R')
                self.ghost['broke'] = True
                self.spec.loop_end(self, tok)
                return None
            for label, g in inv['inv'](self, selfobj, frame):
                self.oblige(f'{self.site(s)}/preserve/{label}', g)
            raise LoopIterationDone()
        self.ghost[rkey] = ZBag(bag.esort, name='R')
        self.spec.loop_end(self, tok)
        return None

    def iterate_keys(self, m, s, frame, items=False):
        """for k[, v] in d.items(): body without mutation, possibly with early return/raise.
        Exit paths get a skolem key; the fall-through gets 'no key exits'."""
        outer = self
        k = z3.Const('_key', m.ksort)

        def body(run):
            sub = outer.fork(run)
            fr = sym.Frame(dict(frame.locals), frame.fn, frame.parent)
            if items:
                sub.assign(s.target, (wrap(k), MapBagEntry(m, k) if isinstance(m, ZMapBag) else wrap(m.val[k])), fr)
            else:
                sub.assign(s.target, wrap(k), fr)
            try:
                sub.exec_block(s.body, fr)
            except sym._Continue:
                pass
            except sym._Return as r:
                return ('return', r.v)
            return ('normal', None)
        base = list(self.run.path.conds) + [m.has[k]]
        snap_m = m.snap()
        paths = self.run.explorer.explore(body, base_conds=base, base_facts=self.run.path.facts)
        if any(m.__dict__[a].sexpr() != snap_m.__dict__[a].sexpr() for a in ('has',)):
            raise Unsupported('dict mutated while iterating')
        nb = len(base)
        exits = []
        for p in paths:
            cond = z3.And(*p.conds[nb:]) if len(p.conds) > nb else z3.BoolVal(True)
            if p.outcome[0] == 'unsupported':
                raise Unsupported(p.outcome[1])
            if p.outcome[0] == 'raise':
                exits.append((cond, 'raise', p.outcome[1]))
            elif p.outcome[1][0] == 'return':
                exits.append((cond, 'return', p.outcome[1][1]))
        anyexit = z3.Or(*[c for c, _, _ in exits]) if exits else z3.BoolVal(False)
        kk = fresh('_kx', m.ksort)
        for ix, (c, kind, payload) in enumerate(exits):
            if self.run.branch(z3.And(m.has[kk], z3.substitute(c, (k, kk))), where=f'it{s.lineno}x{ix}'):
                if kind == 'raise':
                    raise Raised(payload, s)
                v = payload
                if isinstance(v, SV):
                    v = SV(v.kind, z3.substitute(v.t, (k, kk)), v.cls)
                raise sym._Return(v)
        j = z3.Const('_kj', m.ksort)
        self.run.fact(z3.ForAll([j], z3.Implies(m.has[j], z3.Not(z3.substitute(anyexit, (k, j))))))
        return None


class LoopIterationDone(Exception):
    pass


class OpaqueMethod(object):
    def __init__(self, obj, attr):
        self.obj, self.attr = obj, attr


class Spec(object):
    """Base class of contract objects (one per function under verification)."""
    views = {}

    def view_of(self, cls, attr):
        return self.views.get((cls.__name__, attr))

    def loop_invariant(self, node):
        return None

    def on_yield(self, it, v, node, frame):
        pass

    def loop_begin(self, it, selfobj):
        return None

    def loop_end(self, it, tok):
        pass

    def sym_attr_call(self, it, obj, attr, args, node):
        return NotImplemented

    def callee_contract(self, selfobj, func):
        return None

    def is_self(self, func):
        return False

    def call_hook(self, it, f, args, kwargs, node):
        return NotImplemented

    def opaque_call(self, it, obj, attr, args, kwargs, node):
        raise Unsupported(f'opaque method {attr}')

    def havoc(self, it, selfobj, attrs, frame, local_names):
        for a in attrs:
            cur = selfobj.attrs[a]
            view = self.view_of(selfobj.cls, a)
            new = view.havoc(f'{a}')
            selfobj.attrs[a] = new
            if hasattr(new, 'wf'):
                for f in new.wf():
                    it.run.fact(f)
        for n in local_names:
            cur = frame.locals.get(n)
            if isinstance(cur, SV):
                frame.locals[n] = SV(cur.kind, fresh(n, cur.t.sort()), cur.cls)


class View(object):
    """Declared abstraction of an attribute."""
    def __init__(self, kind, *sorts):
        self.kind, self.sorts = kind, sorts

    def empty(self, name):
        return {'bag': ZBag, 'mapbag': ZMapBag, 'map': ZMap, 'set': ZSet}[self.kind](*self.sorts, name=name)

    def havoc(self, name):
        return {'bag': ZBag, 'mapbag': ZMapBag, 'map': ZMap, 'set': ZSet}[self.kind].havoc(*self.sorts, name)

    def from_concrete(self, v):
        if isinstance(v, Abstract):
            return v
        if self.kind in ('bag',) and isinstance(v, list) and not v:
            return self.empty('new')
        if self.kind in ('mapbag', 'map') and isinstance(v, dict) and not v:
            return self.empty('new')
        if self.kind == 'set' and isinstance(v, (set, frozenset)) and not v:
            return self.empty('new')
        raise Unsupported(f'cannot abstract concrete value {v!r} into a {self.kind}')


def run_function(fn, make_state, spec, generator=False, esort=None, max_paths=500):
    """Explore all paths of `fn` from the pre-state built by make_state(interp) ->
    (args list, pre-snapshot info).  Returns list of (path, pre, post_self, outcome, yielded)."""
    ex = sym.Explorer(max_paths=max_paths, feas_skip_quant=True, feas_timeout_ms=int(__import__('os').environ.get('VERIF_FEAS_MS', '300')))
    results = []

    def thunk(run):
        it = CoreInterp(run, spec)
        args, info = make_state(it)
        if generator:
            it.yielded = ZBag(esort, name='yielded')
        pre = {'self': args[0].snap() if isinstance(args[0], AObj) else None, 'info': info}
        run.path.pre = pre
        run.path.post_self = args[0]
        run.path.interp = it
        try:
            r = it.call_function(fn, args)
        except LoopIterationDone:
            run.path.iteration_only = True
            return None
        return r
    paths = ex.explore(thunk)
    return paths


_OBL = []


def _discharge_one(ix):
    label, hyps, goal = _OBL[ix]
    st, model, be, secs, txt = smt.prove(hyps, goal, _OBL_TIMEOUT[0])
    return (ix, st, model, be, secs, txt)


_OBL_TIMEOUT = [None]


def discharge_parallel(obligs, timeout_ms=None, jobs=None):
    """Like discharge(), over a fork pool (z3 terms are inherited by the children, results are plain data)."""
    import multiprocessing
    import os
    global _OBL
    _OBL = list(obligs)
    _OBL_TIMEOUT[0] = timeout_ms
    jobs = jobs or int(os.environ.get('VERIF_JOBS', '16'))
    if len(_OBL) < 4 or jobs <= 1:
        return discharge(obligs, timeout_ms)
    ctx = multiprocessing.get_context('fork')
    with ctx.Pool(min(jobs, len(_OBL))) as pool:
        res = pool.map(_discharge_one, range(len(_OBL)), chunksize=1)
    # a verdict must not flip because the machine is busy: obligations left open by a time-out are tried once more, a few at a
    # time, with four times the budget (nothing is retried when every obligation was decided)
    late = [r[0] for r in res if r[1] not in ('discharged', 'refuted') and 'timeout' in str(r[5]).lower()]
    if late and len(late) <= 12 and timeout_ms and os.environ.get('VERIF_NO_RETRY') != '1':
        # (many open obligations are not load noise: a changed tree leaves them open for good, and retrying all of them costs minutes)
        _OBL_TIMEOUT[0] = timeout_ms * 4
        with ctx.Pool(min(4, len(late))) as pool:
            again = {r[0]: r for r in pool.map(_discharge_one, late, chunksize=1)}
        _OBL_TIMEOUT[0] = timeout_ms
        res = [again.get(r[0], r) for r in res]
    out = []
    for ix, st, model, be, secs, txt in res:
        label, hyps, goal = _OBL[ix]
        out.append((label, st, model, be, secs, txt, goal))
    return out


def discharge(obligs, timeout_ms=None):
    """[(label, hyps, goal)] -> [(label, status, model, backend, secs, text)]"""
    out = []
    for label, hyps, goal in obligs:
        st, model, be, secs, txt = smt.prove(hyps, goal, timeout_ms)
        out.append((label, st, model, be, secs, txt, goal))
    return out
