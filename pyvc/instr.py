"""Parser for official line instructions (template <speak> text or cited transcriptions) -> terms.

A term is a nested tuple:
  ('line', form|None, name)           value of a line (form None = same form)
  ('const', Fraction)
  ('add', [terms]) ('sub', a, b) ('mul', a, b) ('div', a, b) ('min', [..]) ('max', [..])
  ('ite_gt', a, b, then, else)        if a > b then .. else ..
  ('by_status', {member: value}, default)
  ('carry', form, name)               amount carried from another form: equals it, or blank when not demanded
  ('addrows', n)                      sum of the listing rows '<n>_amount_<k>' of the same form
  ('ceilmult', Fraction m, t)         t if it is a multiple of m, else the next multiple of m
Only instructions matched completely by the strict grammar below are used; everything else is "uncovered".
"""
import re
from fractions import Fraction

LN = r'(\d{1,2}\s?[a-z]{0,2}|[a-z]{1,3}\d?)'      # 15, 1a, 5 e, 12c
NUM = r'\$?([\d,]+(?:\.\d+)?)'

IGNORABLE = re.compile(r'^(This is|These are|Enter here|Enter the result|Enter the total|Enter this amount|Also|Note|Caution|Attach|For details|See instructions|'
                       r'Number before|If zero, stop|If zero, skip to line|If more than zero, also include|If more than zero, enter this amount on|Go to|Open parenthesis|Close parenthesis|\(see instructions\)|'
                       r'For example, if the result is|Excess advance child tax credit payments)', re.I)

FORM_NAMES = [
    (re.compile(r'Schedule\s+1\b', re.I), '1040_s1'), (re.compile(r'Schedule\s+2\b', re.I), '1040_s2'), (re.compile(r'Schedule\s+3\b', re.I), '1040_s3'),
    (re.compile(r'Schedule\s+8812\b', re.I), '1040_s8812'), (re.compile(r'Schedule\s+A\b'), '1040_sa'), (re.compile(r'Schedule\s+B\b'), '1040_sb'),
    (re.compile(r'Form\s+8995\b(?!-A)', re.I), '8995'), (re.compile(r'Form\s+8959\b', re.I), '8959'), (re.compile(r'Form\s+8606\b', re.I), '8606'),
    (re.compile(r'Form\s+8889\b', re.I), '8889'), (re.compile(r'Forms?\s+1040\b', re.I), '1040'),
]


def norm_line(tok):
    return re.sub(r'\s+', '', tok.strip().lower())


def money(tok):
    return Fraction(tok.replace(',', '').replace('$', ''))


def sentences(text):
    text = re.sub(r'\s+', ' ', text.strip())
    text = text.replace('“', '"').replace('”', '"').replace('-0-', '0').replace('‐', '-').replace('–', '-').replace('—', '-')
    # protect decimals and abbreviations
    text = re.sub(r'(\d)\.(\d)', r'\1<DOT>\2', text)
    parts = re.split(r'(?<=[.;])\s+', text)
    return [p.replace('<DOT>', '.').strip() for p in parts if p.strip()]


def expand_through(a, b, order):
    """lines a through b in the template's own order of labelled widgets; '1a through 1h' (same number, single letters) is
    the letter range when the template order does not hold both ends."""
    ma, mb = re.fullmatch(r'(\d{1,2})([a-z])', a), re.fullmatch(r'(\d{1,2})([a-z])', b)
    if (order is None or a not in order or b not in order) and ma and mb and ma.group(1) == mb.group(1) and ma.group(2) <= mb.group(2):
        return [ma.group(1) + chr(c) for c in range(ord(ma.group(2)), ord(mb.group(2)) + 1)]
    if order is None or a not in order or b not in order:
        return None
    i, j = order.index(a), order.index(b)
    if i > j:
        return None
    out = []
    for x in order[i:j + 1]:
        if x not in out:
            out.append(x)
    return out


def parse_line_list(text, order):
    """'1z, 2b, 3b, and 8' / '1a through 1h' / '1 through 7 and 9' / '11 through 23 and 25' -> list of line names."""
    text = text.strip().rstrip('.')
    text = re.sub(r'\band\b', ',', text)
    items = [t.strip() for t in text.split(',') if t.strip()]
    out = []
    for it in items:
        m = re.fullmatch(LN + r'\s+through\s+' + LN, it, re.I)
        if m:
            ex = expand_through(norm_line(m.group(1)), norm_line(m.group(2)), order)
            if ex is None:
                return None
            out += ex
            continue
        m = re.fullmatch(LN, it, re.I)
        if not m:
            return None
        out.append(norm_line(m.group(1)))
    return out if len(out) >= 1 else None


def parse(text, order=None, own_line=None):
    """-> (term, provenance sentence) or None."""
    sents = sentences(text)
    # drop a leading "15." / "Line 15." / title fragments before the verb sentence
    start = None
    for ix, s in enumerate(sents):
        s2 = re.sub(r'^(?:Line\s+)?\d{1,2}\s?[a-z]?\.\s*', '', s)
        if re.match(r'^(Add the amounts on line|Add lines|Subtract line|Multiply line|Enter the (smaller|larger) of|Combine lines|Divide line|Enter (the )?amount from|Amount from)', s2, re.I):
            start = ix
            sents[ix] = s2
            break
        mm = re.match(r'^If line ' + LN + r' is more than line ' + LN + r', subtract line ' + LN + r' from line ' + LN + r'\.?$', s2.rstrip('.') , re.I)
        if mm and norm_line(mm.group(1)) == norm_line(mm.group(4)) and norm_line(mm.group(2)) == norm_line(mm.group(3)):
            a, b = ('line', None, norm_line(mm.group(1))), ('line', None, norm_line(mm.group(2)))
            return ('ite_gt', a, b, ('sub', a, b), ('const', Fraction(0))), s2[:200]
        if re.match(r'^If\b', s2):
            return None     # conditional instruction: not covered
    if start is None:
        return parse_status_table(text) or parse_carry(text)
    s = sents[start].rstrip('.')
    rest = sents[start + 1:]
    term = None
    m = re.fullmatch(r'Add lines (.+)', s, re.I)
    if m:
        ls = parse_line_list(m.group(1), order)
        if ls is None or len(ls) < 2:
            return None
        term = ('add', [('line', None, l) for l in ls])
    m = re.fullmatch(r'Add the amounts on line (\d{1,2})', s, re.I)
    if m and term is None:
        term = ('addrows', m.group(1))      # the listing rows '<n>_amount_<k>' of that line
    m = re.fullmatch(r'Combine lines (.+)', s, re.I)
    if m and term is None:
        ls = parse_line_list(m.group(1), order)
        if ls is None or len(ls) < 2:
            return None
        term = ('add', [('line', None, l) for l in ls])
    m = re.fullmatch(r'Subtract line ' + LN + r' from line ' + LN, s, re.I)
    if m and term is None:
        term = ('sub', ('line', None, norm_line(m.group(2))), ('line', None, norm_line(m.group(1))))
    m = re.fullmatch(r'Multiply line ' + LN + r' by (?:' + NUM + r'\s?%\s?\((\d*\.\d+)\)|' + NUM + r'\s?%|\$' + NUM[3:] + r'|line ' + LN + r')', s, re.I)
    if m and term is None:
        a = ('line', None, norm_line(m.group(1)))
        if m.group(3):
            term = ('mul', a, ('const', Fraction(m.group(3))))
            if m.group(2) and Fraction(m.group(2).replace(',', '')) / 100 != Fraction(m.group(3)):
                return None
        elif m.group(4):
            term = ('mul', a, ('const', Fraction(m.group(4).replace(',', '')) / 100))
        elif m.group(5):
            term = ('mul', a, ('const', money(m.group(5))))
        else:
            term = ('mul', a, ('line', None, norm_line(m.group(6))))
    m = re.fullmatch(r'Divide line ' + LN + r' by line ' + LN, s, re.I)
    if m and term is None:
        term = ('div', ('line', None, norm_line(m.group(1))), ('line', None, norm_line(m.group(2))))
    m = re.fullmatch(r'Enter the (smaller|larger) of line ' + LN + r' or (?:(?:line )?' + LN + r'|\$' + NUM[3:] + r'(?: \(\$' + NUM[3:] + r' if married filing separately\))?)(?: here.*)?', s, re.I)
    if m and term is None:
        a = ('line', None, norm_line(m.group(2)))
        if m.group(3):
            b = ('line', None, norm_line(m.group(3)))
        elif m.group(5):
            b = ('by_status', {'MarriedFilingSeparately': money(m.group(5))}, money(m.group(4)))
        else:
            b = ('const', money(m.group(4)))
        term = ('min' if m.group(1).lower() == 'smaller' else 'max', [a, b])
    m = re.fullmatch(r'(?:Enter (?:the )?amount|Amount) from line ' + LN, s, re.I)
    if m and term is None:
        term = ('line', None, norm_line(m.group(1)))
    if term is None:
        return parse_carry(text)
    # modifiers
    for r in rest:
        r0 = r.rstrip('.')
        if re.fullmatch(r'If zero or less, enter 0(, and skip lines .*)?', r0, re.I):
            term = ('max', [('const', Fraction(0)), term])
        elif re.fullmatch(r'If (?:greater|more) than zero, enter 0', r0, re.I):
            term = ('min', [('const', Fraction(0)), term])
        elif re.fullmatch(r'If line ' + LN + r' is more than line ' + LN + r', enter 0', r0, re.I):
            mm = re.fullmatch(r'If line ' + LN + r' is more than line ' + LN + r', enter 0', r0, re.I)
            term = ('ite_gt', ('line', None, norm_line(mm.group(1))), ('line', None, norm_line(mm.group(2))), ('const', Fraction(0)), term)
        elif re.fullmatch(r'If more than zero and not a multiple of \$' + NUM[3:] + r', enter the next multiple of \$' + NUM[3:], r0, re.I):
            mm = re.fullmatch(r'If more than zero and not a multiple of \$' + NUM[3:] + r', enter the next multiple of \$' + NUM[3:], r0, re.I)
            if money(mm.group(1)) != money(mm.group(2)):
                return None
            term = ('ceilmult', money(mm.group(1)), term)
        elif re.fullmatch(r'if the result is \$[\d,]+, enter \$[\d,]+(, etc)?', r0, re.I):
            continue        # second half of a worked example
        elif re.fullmatch(r'If the result is 1\.000 or more, enter "?1\.000"?', r0, re.I):
            term = ('min', [('const', Fraction(1)), term])
        elif re.fullmatch(r'Enter the result as a decimal.*', r0, re.I):
            continue
        elif IGNORABLE.match(r0) or re.match(r'^(If more than zero, you may be subject|You may be subject)', r0, re.I):
            continue
        elif re.match(r'^If\b', r0):
            return None     # an unrecognised condition changes the meaning: do not use this instruction
        else:
            continue
    return term, ' '.join(sents[start:start + 3])[:200]


STATUS_WORDS = [
    (r'married filing jointly or qualifying (?:widow\(er\)|surviving spouse)', ['MarriedFilingJointly', 'QualifyingWidowWidower', 'QualifyingSurvivingSpouse']),
    (r'married filing jointly', ['MarriedFilingJointly']),
    (r'qualifying (?:widow\(er\)|surviving spouse)', ['QualifyingWidowWidower', 'QualifyingSurvivingSpouse']),
    (r'married filing separately', ['MarriedFilingSeparately']),
    (r'head of household', ['HeadOfHousehold']),
    (r'single', ['Single']),
]


def parse_status_table(text):
    """'9. Enter the amount shown below for your filing status. Married filing jointly-$400,000. All other filing statuses-$200,000.'"""
    t = re.sub(r'\s+', ' ', text.strip()).replace('\u2014', '-').replace('\u2013', '-')
    m = re.search(r'Enter the amount shown below for your filing status\.\s*(.+)$', t, re.I)
    if not m:
        return parse_status_list(t)
    table, default = {}, None
    for part in [x.strip() for x in re.split(r'\.\s+|\.$', m.group(1)) if x.strip()]:
        mm = re.fullmatch(r'(.+?)\s*-\s*\$' + NUM[3:], part)
        if not mm:
            return None
        who, amount = mm.group(1).strip().lower(), money(mm.group(2))
        if re.fullmatch(r'all other filing statuses', who):
            default = amount
            continue
        for rx, members in STATUS_WORDS:
            if re.fullmatch(rx, who):
                for mem in members:
                    table[mem] = amount
                break
        else:
            return None
    if default is None or not table:
        return None
    return ('by_status', table, default), m.group(0)[:200]


def parse_status_list(t):
    """'5. Enter the following amount for your filing status: Married filing jointly, $250,000. Married filing separately,
    $125,000. Single, Head of household, or Qualifying surviving spouse, $200,000.' - every status must be named."""
    m = re.search(r'Enter the following amount for your filing status:\s*(.+)$', t, re.I)
    if not m:
        return None
    table = {}
    for part in [x.strip() for x in re.split(r'\.\s+|\.$', m.group(1)) if x.strip()]:
        mm = re.fullmatch(r'(.+?),\s*\$' + NUM[3:], part)
        if not mm:
            return None
        amount = money(mm.group(2))
        for who in [w.strip().lower() for w in re.split(r',\s*(?:or\s+)?|\s+or\s+', mm.group(1)) if w.strip()]:
            for rx, members in STATUS_WORDS:
                if re.fullmatch(rx, who):
                    for mem in members:
                        table[mem] = amount
                    break
            else:
                return None
    need = {'Single', 'MarriedFilingJointly', 'MarriedFilingSeparately', 'HeadOfHousehold'}
    if not need <= set(table) or not ({'QualifyingWidowWidower', 'QualifyingSurvivingSpouse'} & set(table)):
        return None
    # both spellings of the surviving-spouse status get the amount that was stated for either
    q = table.get('QualifyingSurvivingSpouse', table.get('QualifyingWidowWidower'))
    table.setdefault('QualifyingSurvivingSpouse', q)
    table.setdefault('QualifyingWidowWidower', q)
    return ('by_status', table, table['Single']), m.group(0)[:200]


def parse_carry(text):
    """'8. Additional income from Schedule 1, line 10.' / 'Enter amount from Form 1040 or 1040-SR, line 11.' /
    'Enter the amount from line 11 of your Form 1040, 1040-SR, or 1040-NR.'"""
    t = re.sub(r'\s+', ' ', text)
    t = re.sub(r'1040-\s?S\s?R|1040-\s?N\s?R', '1040', t)
    m = re.search(r'from (?:your )?((?:Schedule|Forms?)\s+[\w-]+(?:\s*\(Form 1040\))?(?:,? (?:or )?1040)*),? (?:Part [IV ]+, )?line ' + LN + r'\b', t, re.I) or \
        re.search(r'from line ' + LN + r' of (?:your )?((?:Schedule|Forms?)\s+[\w-]+)', t, re.I)
    if not m:
        return None
    g = m.groups()
    formtxt, line = (g[0], g[1]) if re.match(r'(Schedule|Form)', g[0], re.I) else (g[1], g[0])
    for rx, name in FORM_NAMES:
        if rx.search(formtxt):
            return ('carry', name, norm_line(line)), m.group(0)[:200]
    return ('carry-unknown', formtxt, norm_line(line)), m.group(0)[:200]
