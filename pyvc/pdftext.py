"""Text of the bundled official instruction booklets (habutax/forms/ty*/instructions/*.pdf).

A minimal PDF object reader: top-level objects and objects inside /ObjStm object streams; pages with their content
streams and font resources; every font's /ToUnicode CMap (bfchar / bfrange).  Text-showing operators (Tj, TJ, ', ") of a
content stream are decoded with the CMap of the font selected by the preceding Tf.  No layout analysis: the text is the
sequence of shown strings in content order, whitespace-normalised, one string per page.

Used only to check that transcribed sentences and amounts (contracts/official.py, contracts/instructions_transcribed.json)
occur verbatim in official text that ships with the repository; never as evidence for a property by itself.
Files encrypted with the standard handler revision 6 and an empty user password (the N.C. D-401 booklet: editing
restrictions only) are decrypted by pyvc/pdfcrypt.py.  Not supported (returns no text): other encryption, fonts without /ToUnicode.
"""
import functools
import re
import zlib


def _inflate(raw):
    try:
        return zlib.decompress(raw.strip(b'\r\n'))
    except Exception:
        try:
            return zlib.decompressobj().decompress(raw)
        except Exception:
            return None


def objects(data, decrypt=None):
    """-> {objnum: (dict bytes, stream bytes or None)} for top-level objects and the members of object streams.
    decrypt: stream decryptor of an encrypted file (pyvc/pdfcrypt.py), applied before inflating."""
    objs = {}
    for m in re.finditer(rb'(\d+)\s+(\d+)\s+obj\b', data):
        num = int(m.group(1))
        end = data.find(b'endobj', m.end())
        if end < 0:
            continue
        body = data[m.end():end]
        sm = re.search(rb'stream\r?\n', body)
        if sm:
            head = body[:sm.start()]
            raw = body[sm.end():]
            e = raw.rfind(b'endstream')
            raw = raw[:e] if e >= 0 else raw
            ln = re.search(rb'/Length\s+(\d+)(?!\s+\d+\s+R)', head)
            if ln and int(ln.group(1)) <= len(raw):
                raw = raw[:int(ln.group(1))]
            if decrypt is not None and not re.search(rb'/Type\s*/XRef', head):
                raw = decrypt(raw)
            st = _inflate(raw) if b'FlateDecode' in head else raw
            objs[num] = (head, st)
        else:
            objs[num] = (body, None)
    for num, (head, st) in list(objs.items()):
        if st is not None and b'/ObjStm' in head:
            n = re.search(rb'/N\s+(\d+)', head)
            first = re.search(rb'/First\s+(\d+)', head)
            if not n or not first:
                continue
            n, first = int(n.group(1)), int(first.group(1))
            nums = [int(x) for x in st[:first].split()]
            pairs = list(zip(nums[0::2], nums[1::2]))
            for ix, (onum, off) in enumerate(pairs[:n]):
                stop = pairs[ix + 1][1] if ix + 1 < len(pairs) else len(st) - first
                objs.setdefault(onum, (st[first + off:first + stop], None))
    return objs


def parse_cmap(st):
    m = {}
    for blk in re.findall(rb'beginbfchar(.*?)endbfchar', st, re.S):
        for a, b in re.findall(rb'<([0-9A-Fa-f]+)>\s*<([0-9A-Fa-f]*)>', blk):
            try:
                m[int(a, 16)] = bytes.fromhex(b.decode()).decode('utf-16-be', 'replace')
            except ValueError:
                pass
    for blk in re.findall(rb'beginbfrange(.*?)endbfrange', st, re.S):
        for a, b, c in re.findall(rb'<([0-9A-Fa-f]+)>\s*<([0-9A-Fa-f]+)>\s*<([0-9A-Fa-f]+)>', blk):
            a, b, base = int(a, 16), int(b, 16), int(c, 16)
            for k in range(a, min(b, a + 4096) + 1):
                m[k] = chr(base + k - a)
        for a, b, arr in re.findall(rb'<([0-9A-Fa-f]+)>\s*<([0-9A-Fa-f]+)>\s*\[(.*?)\]', blk, re.S):
            a = int(a, 16)
            for k, h in enumerate(re.findall(rb'<([0-9A-Fa-f]+)>', arr)):
                m[a + k] = bytes.fromhex(h.decode()).decode('utf-16-be', 'replace')
    return m


def _ref(d, key):
    m = re.search(rb'/' + key + rb'\s+(\d+)\s+\d+\s+R', d)
    return int(m.group(1)) if m else None


def _font_dict(objs, d):
    """bytes of the /Font << ... >> dictionary reachable from a page or resources dictionary."""
    m = re.search(rb'/Font\s*<<(.*?)>>', d, re.S)
    if m:
        return m.group(1)
    r = _ref(d, rb'Font')
    if r and r in objs:
        return objs[r][0]
    r = _ref(d, rb'Resources')
    if r and r in objs:
        return _font_dict(objs, objs[r][0])
    return b''


def _literal(body, cur):
    """A literal string operand: through the font's ToUnicode map when it has one (one- or two-byte codes), else cp1252."""
    from .pdfcrypt import _pdf_string
    raw = _pdf_string(body)
    if cur and max(cur) > 255 and len(raw) % 2 == 0:
        return ''.join(cur.get(int.from_bytes(raw[i:i + 2], 'big'), '\ufffd') for i in range(0, len(raw), 2))
    if cur:
        return ''.join(cur.get(b, bytes([b]).decode('cp1252', 'replace')) for b in raw)
    return raw.decode('cp1252', 'replace')


@functools.lru_cache(maxsize=None)
def pages_text(pdf_path):
    """-> tuple of page texts ('' when nothing can be decoded)."""
    try:
        with open(pdf_path, 'rb') as f:
            data = f.read()
    except OSError:
        return ()
    if not data:
        return ()
    decrypt = None
    enc = re.search(rb'/Encrypt\s+(\d+)\s+\d+\s+R', data)
    if enc:
        from . import pdfcrypt
        eo = re.search(rb'\b%d\s+0\s+obj(.*?)endobj' % int(enc.group(1)), data, re.S)
        key = pdfcrypt.file_key(eo.group(1)) if eo else None
        if key is None:
            return ()          # not the revision-6 handler with an empty user password
        decrypt = pdfcrypt.Decryptor(key)
    objs = objects(data, decrypt)
    cmaps = {}

    def font_map(fnum):
        if fnum not in cmaps:
            cm = {}
            d = objs.get(fnum, (b'', None))[0]
            t = _ref(d, rb'ToUnicode')
            if t and t in objs and objs[t][1]:
                cm = parse_cmap(objs[t][1])
            cmaps[fnum] = cm
        return cmaps[fnum]
    out = []
    pages = [(n, d) for n, (d, st) in objs.items() if re.search(rb'/Type\s*/Page\b(?!s)', d)]
    for n, d in sorted(pages):
        fonts = {nm.decode(): int(r) for nm, r in re.findall(rb'/([A-Za-z0-9_.+-]+)\s+(\d+)\s+\d+\s+R', _font_dict(objs, d))}
        cm = re.search(rb'/Contents\s*\[(.*?)\]', d, re.S)
        cnums = [int(x) for x in re.findall(rb'(\d+)\s+\d+\s+R', cm.group(1))] if cm else ([_ref(d, rb'Contents')] if _ref(d, rb'Contents') else [])
        text = []
        cur = {}
        for c in cnums:
            st = objs.get(c, (b'', None))[1]
            if not st:
                continue
            for m in re.finditer(rb'/([A-Za-z0-9_.+-]+)\s+[-\d.]+\s+Tf|<([0-9A-Fa-f\s]+)>\s*(?:Tj|\'|")|\[((?:<[0-9A-Fa-f\s]*>|\((?:[^()\\]|\\.)*\)|[^\]])*)\]\s*TJ|\(((?:[^()\\]|\\.)*)\)\s*(?:Tj|\'|")|\b(ET|T\*|Td|TD)\b', st):
                if m.group(1):
                    cur = font_map(fonts.get(m.group(1).decode(), -1))
                    continue
                if m.group(5):
                    text.append(' ')
                    continue
                if m.group(4) is not None:
                    text.append(_literal(m.group(4), cur))
                    continue
                if m.group(2):
                    parts = [('hex', m.group(2))]
                else:
                    parts = [('hex', a) if a else ('lit', b) for a, b in re.findall(rb'<([0-9A-Fa-f\s]+)>|\(((?:[^()\\]|\\.)*)\)', m.group(3))]
                for kind, h in parts:
                    if kind == 'lit':
                        text.append(_literal(h, cur))
                        continue
                    h = re.sub(rb'\s+', b'', h).decode()
                    for i in range(0, len(h) - 3, 4):
                        text.append(cur.get(int(h[i:i + 4], 16), '\ufffd'))
        out.append(re.sub(r'\s+', ' ', ''.join(text)).strip())
    return tuple(out)


def text(pdf_path):
    return ' '.join(pages_text(pdf_path))


def norm(s):
    """Comparison form: typographic quotes/dashes to ASCII, soft hyphenation at line breaks removed, single spaces."""
    s = s.replace('’', "'").replace('‘', "'").replace('“', '"').replace('”', '"').replace('—', '-').replace('–', '-').replace('−', '-').replace(' ', ' ')
    s = re.sub(r'\.{3,}', ' ', s)
    s = re.sub(r'(?<=[a-z])- (?=[a-z])', '', s)
    return re.sub(r'\s+', ' ', s).strip()


if __name__ == '__main__':
    import sys
    for p in sys.argv[1:]:
        pt = pages_text(p)
        t = ' '.join(pt)
        print(p, 'pages', len(pt), 'chars', len(t), 'undecoded', t.count('�'))
        print(norm(t)[:600])
