"""Concretisation search for solver-level obligations (DESIGN 2.5).

A small generator of toy form programs run on the REAL Solver, with native
checks of the observable statements of C01/C03/C04/C06/C13.  It is used only
to turn an obligation that the prover did not discharge into a concrete failing
run (refutation mode / replay); it is never evidence that a property holds.
"""
import configparser
import itertools
import random
import signal


class Budget(Exception):
    pass


def build(program):
    """program: {form: {'inputs': [names], 'lines': {name: spec}, 'required': [names]}}
    spec: list of steps evaluated in order:
      ('in', key) read input (qualified or local) ; ('v', key) read line ; ('ni_if', key) NI if input truthy ;
      ('stop_if', key) return 0 if input truthy (conditional read: later steps skipped)
    value = sum of what was read."""
    from habutax.inputs import IntegerInput, StringInput
    from habutax.fields import IntegerField
    from habutax.form import Form
    classes = []
    evals = {}
    traces = {}

    def mk(fname, lname, spec):
        full = f'{fname}.{lname}'

        def fn(s, i, v):
            evals[full] = evals.get(full, 0) + 1
            tr = traces.setdefault(full, [])
            cur = []
            tr.append(cur)
            total = 0
            for kind, key in spec:
                if kind == 'in':
                    cur.append(('i', key))
                    x = i[key]
                    total += len(x) if isinstance(x, str) else x
                elif kind == 'v':
                    cur.append(('v', key))
                    total += v[key]
                elif kind == 'ni_if':
                    cur.append(('i', key))
                    if i[key]:
                        s.not_implemented()
                elif kind == 'stop_if':
                    cur.append(('i', key))
                    if i[key]:
                        return total
            return total
        return fn
    done = set()
    for fname, fd in program.items():
        cname = fname.split(':')[0]
        if cname in done:
            continue
        done.add(cname)

        def init(self, cname=cname, **kw):
            inst = kw.get('instance')
            full = cname if inst is None else f'{cname}:{inst}'
            fd = program[full]
            ins = [(StringInput if n.startswith('s') else IntegerInput)(n) for n in fd['inputs']]
            req = [IntegerField(n, mk(full, n, fd['lines'][n])) for n in fd['lines'] if n in fd['required']]
            opt = [IntegerField(n, mk(full, n, fd['lines'][n])) for n in fd['lines'] if n not in fd['required']]
            Form.__init__(self, type(self), ins, req, opt, **kw)
        cls = type('Toy_' + cname, (Form,), {'form_name': cname, 'tax_year': 1, '__init__': init,
                                             'description': cname, 'long_description': cname})
        classes.append(cls)
    return classes, evals, traces


def qual(form, key):
    return key if '.' in key else f'{form}.{key}'


def run(program, requested, provided, answers, refuse_after=None, budget_s=5, max_evals=3000, raise_after=None):
    """Run the real solver; returns a dict of observations."""
    from habutax.inputs import InputStore
    from habutax.solver import Solver
    classes, evals, traces = build(program)
    cfg = configparser.ConfigParser()
    for k, v in provided.items():
        sec, base = k.split('.')
        if not cfg.has_section(sec):
            cfg.add_section(sec)
        cfg.set(sec, base, str(v))
    store = InputStore(cfg)
    asked = []
    given = []

    def prompt(missing, needed_by):
        asked.append((missing.name(), [f.name() for f in needed_by]))
        if raise_after is not None and len(asked) > raise_after:
            raise EOFError('input ended')
        if refuse_after is not None and len(asked) > refuse_after:
            return (None, False)
        if missing.name() in answers:
            given.append(missing.name())
            return (str(answers[missing.name()]), True)
        return (None, False)
    s = Solver(store, classes, prompt=prompt if answers is not None else None)

    def alarm(*a):
        raise Budget()
    old = signal.signal(signal.SIGALRM, alarm)
    signal.alarm(budget_s)
    obs = {'program': program, 'requested': requested, 'provided': provided, 'answers': answers, 'refuse_after': refuse_after, 'raise_after': raise_after, 'given': given}
    try:
        try:
            obs['result'] = s.solve(list(requested))
        except Budget:
            obs['nonterminating'] = True
            return obs
        except RecursionError:
            obs['raised'] = 'RecursionError'
            return obs
        except BaseException as ex:
            obs['raised'] = f'{type(ex).__name__}: {str(ex)[:100]}'
            obs['raised_type'] = type(ex).__name__
    finally:
        signal.alarm(0)
        signal.signal(signal.SIGALRM, old)
    obs.update(values=dict(s._v.values), scheduled=set(s._solving_fields), unimplemented=list(s._unimplemented_fields),
               evals=dict(evals), traces=traces, asked=asked, forms=set(s.forms.keys()),
               config={f'{sec}.{k}': v for sec in cfg.sections() for k, v in cfg[sec].items()})
    if 'result' in obs:
        obs['unmet_inputs'] = s.unmet_input_dependencies()
        obs['unmet_fields'] = s.unmet_field_dependencies()
    return obs


def reevaluate(program, form, line, config, values):
    """Independent evaluation of a toy line on final inputs/values -> ('ok', x) | ('ni',) | ('blocked', kind, key)."""
    total = 0
    for kind, key in program[form]['lines'][line]:
        k = qual(form, key)
        if kind in ('in', 'ni_if', 'stop_if'):
            if k not in config:
                return ('blocked', 'i', k)
            try:
                x = int(config[k] or 0)
            except ValueError:
                return ('invalid', k)      # the real InputStore reports InvalidInput here: the line can have no value
            if kind == 'in':
                total += x
            elif kind == 'ni_if' and x:
                return ('ni',)
            elif kind == 'stop_if' and x:
                return ('ok', total)
        else:
            if k not in values:
                return ('blocked', 'v', k)
            total += values[k]
    return ('ok', total)


def closure(program, requested, config):
    """Least set of lines containing required lines of requested forms, closed under reads of evaluated lines
    (using final inputs) and required lines of forms so reached.  Only meaningful for solved runs."""
    sched, forms = set(), set()
    work = []

    def add_form(f):
        if f in forms or f not in program:
            return
        forms.add(f)
        for l in program[f]['required']:
            if f'{f}.{l}' not in sched:
                sched.add(f'{f}.{l}')
                work.append((f, l))
    for f in requested:
        add_form(f)
    while work:
        f, l = work.pop()
        for kind, key in program[f]['lines'][l]:
            k = qual(f, key)
            kf, kb = k.split('.')
            if kind == 'v':
                add_form(kf)
                if k not in sched and kf in program and kb in program[kf]['lines']:
                    sched.add(k)
                    work.append((kf, kb))
            else:
                try:
                    x = int(config.get(k, 0) or 0)
                except ValueError:
                    sched.add(f'{f}.{l} (reads the invalid text of {k}: cannot be part of a solved run)')
                    break
                if kind == 'stop_if' and x:
                    break
                if kind == 'ni_if' and x:
                    break
    return sched, forms


CHECKS = {}


def check(name):
    def deco(f):
        CHECKS[name] = f
        return f
    return deco


@check('C01')
def c01(o):
    if o.get('nonterminating') or 'result' not in o:
        return None
    if o['result']:
        missing = [l for l in o['scheduled'] if l not in o['values']]
        if missing or o['unimplemented'] or o['unmet_inputs'] or o['unmet_fields']:
            return f'solve() returned True but lines {missing} have no value / unimplemented {o["unimplemented"]} / unmet {o["unmet_inputs"]} {o["unmet_fields"]}'
        # success is a statement about the forms, not about the solver's own bookkeeping: every required line of every form
        # reached from the request (and every line those demand) has a value
        want, forms = closure(o['program'], o['requested'], o['config'])
        lost = sorted(want - set(o['values']))
        if lost:
            return f'solve() returned True but {lost}, required by forms reached from the request, have no value'
    else:
        if not (o['unimplemented'] or o['unmet_inputs'] or o['unmet_fields']):
            return 'solve() returned False without naming any unimplemented line, missing input or blocked line'
    return None


@check('C03')
def c03(o):
    if 'values' not in o:
        return None
    for k, v in o['values'].items():
        f, l = k.split('.')
        r = reevaluate(o['program'], f, l, o['config'], o['values'])
        if r != ('ok', v):
            return f'stored value {k}={v} but re-evaluation on the final inputs and values gives {r}'
    return None


@check('C04')
def c04(o):
    if not o.get('result'):
        return None
    want, forms = closure(o['program'], o['requested'], o['config'])
    got = set(o['values'].keys())
    if got != want:
        return f'solution lines differ from the demand closure: extra {sorted(got - want)} missing {sorted(want - got)}'
    if o['forms'] != forms:
        return f'participating forms {sorted(o["forms"])} differ from the closure {sorted(forms)}'
    return None


@check('C06')
def c06(o):
    if o.get('nonterminating'):
        return 'the solve did not terminate within the budget'
    if o.get('raised') == 'RecursionError':
        return 'RecursionError'
    if 'evals' not in o:
        return None
    names = [a for a, _ in o['asked']]
    if len(names) != len(set(names)):
        return f'an input was asked for more than once: {names}'
    for line, n in o['evals'].items():
        waits = set()
        for tr in o['traces'].get(line, []):
            if tr:
                waits.add(tr[-1])
        # one evaluation per distinct thing the line stopped at, one that completes, and one re-attempt for each distinct
        # input of another form whose declaration had to be loaded first
        foreign = {key for kind, key in waits if kind == 'i' and '.' in key and key.split('.')[0] != line.split('.')[0]}
        if n > 1 + len(waits) + len(foreign):
            return f'{line} evaluated {n} times with {len(waits)} distinct last-reads ({len(foreign)} of them inputs of another form)'
    if 'result' in o and 'unmet_fields' in o:
        # no lost waiter: a scheduled line that ends without a value and is not reported unimplemented is still registered as waiting
        def names(m):
            out = set()
            for dep, lst in (m.items() if isinstance(m, dict) else []):
                for f in lst:
                    out.add(f if isinstance(f, str) else f.name())
            return out
        waiting = names(o['unmet_fields']) | names(o['unmet_inputs'])
        for line in sorted(o['scheduled']):
            if line not in o['values'] and line not in o['unimplemented'] and line not in waiting:
                return f'{line} was scheduled, has no value, is not unimplemented and is registered as waiting on nothing: a lost waiter'
    return None


@check('C13')
def c13(o):
    if 'asked' not in o:
        return None
    prog = o['program']
    for name, needed in o['asked']:
        if name in o['provided']:
            return f'asked for {name} which the input file already supplied'
        readers = set()
        for line, trs in o['traces'].items():
            f = line.split('.')[0]
            for tr in trs:
                if any(kind == 'i' and qual(f, key) == name for kind, key in tr):
                    readers.add(line)
        if not readers:
            return f'asked for {name} which no evaluated line read'
        if not set(needed) <= readers:
            return f'{name}: quoted as needed by {needed}, but only {sorted(readers)} read it'
    return None


@check('C11')
def c11(o):
    """An input the file supplies is never asked for or reported missing, even when its text is rejected by the validator
    (that is reported as invalid: the run ends with InvalidInput if a line reads it)."""
    for k in o['provided']:
        if any(a == k for a, _ in o.get('asked', [])):
            return f'{k} is supplied by the file (text {o["provided"][k]!r}) and was asked for'
        if k in (o.get('unmet_inputs') or {}):
            return f'{k} is supplied by the file (text {o["provided"][k]!r}) and is reported as needed but not supplied'
    return None


@check('C10')
def c10(o):
    """Programs whose references all resolve never end in an internal assertion, attribute/key error or unbounded recursion;
    "not supported" only when a form that does not exist is referred to."""
    t = o.get('raised_type') or ('RecursionError' if o.get('raised') == 'RecursionError' else None)
    if o.get('nonterminating'):
        return 'the solve does not terminate (a reference is retried for ever)'
    if t is None:
        return None
    prog = o['program']
    unknown = False
    for f, fd in prog.items():
        for l, spec in fd['lines'].items():
            for kind, key in spec:
                kf, kb = qual(f, key).split('.')
                if kf not in prog or (kind == 'v' and kb not in prog[kf]['lines']) or (kind != 'v' and kb not in prog[kf]['inputs']):
                    unknown = True
    if t == 'RecursionError' and unknown:
        return 'a reference that does not resolve sends the solver into unbounded recursion instead of a report naming it'
    if t in ('AssertionError', 'RecursionError', 'AttributeError', 'KeyError', 'TypeError', 'IndexError') and not unknown:
        return f'every reference of the program resolves, yet the solve ends in {o.get("raised")}'
    if t == 'NotImplementedError' and not unknown:
        return f'every reference of the program resolves, yet the solve aborts with {o.get("raised")}'
    return None


@check('C05')
def c05(o):
    """Same year, forms and input values => same verdict and same lines, whether a value came from the file or from a prompt,
    and whatever the order in which forms were requested."""
    if 'values' not in o or o.get('refuse_after') is not None or o.get('raise_after') is not None:
        return None
    if o.get('raised'):
        return None
    allv = dict(o['provided'])
    if o['answers']:
        allv.update({k: o['answers'][k] for k in o.get('given', [])})
    variants = []
    if o.get('given'):
        variants.append(('all values supplied by the file', o['requested'], allv, None))
    if len(o['requested']) > 1:
        variants.append(('forms requested in reverse order', list(reversed(o['requested'])), o['provided'], o['answers']))
    for what, req, prov, ans in variants:
        o2 = run(o['program'], req, prov, ans)
        if o2.get('raised') or o2.get('nonterminating'):
            return f'{what}: the run ends with {o2.get("raised") or "no termination"} while the original run returned {o.get("result")}'
        if ans is not None and set(o2.get('given', [])) != set(o.get('given', [])):
            continue
        if o2.get('result') != o.get('result') or o2.get('values') != o.get('values'):
            return f'{what}: verdict {o2.get("result")} values {o2.get("values")} differ from verdict {o.get("result")} values {o.get("values")}'
    return None


@check('C20')
def c20(o):
    """Whatever ends the solve (completion, refusal, an exception out of the prompt or a line), the configuration object that
    the write-back serialises holds every value it held before and every answer given before the interruption."""
    if 'config' not in o:
        return None
    for k, v in o['provided'].items():
        if o['config'].get(k) != str(v):
            return f'value {k}={v} held before the run is {o["config"].get(k)!r} afterwards'
    for k in o['given']:
        if o['config'].get(k) != str(o['answers'][k]):
            return f'answer {k}={o["answers"][k]} given at a prompt is {o["config"].get(k)!r} in the input store after the run (ended by {o.get("raised") or o.get("result")})'
    return None


def fixed_programs():
    P = []
    P.append({'a': {'inputs': ['x', 'g'], 'lines': {'l1': [('in', 'x')], 'l2': [('v', 'l1'), ('ni_if', 'g')], 'l3': [('v', 'b.m')]}, 'required': ['l1', 'l2', 'l3']},
              'b': {'inputs': ['y'], 'lines': {'m': [('in', 'y'), ('v', 'a.l1')], 'n': [('in', 'y')], 'o': [('in', 'y')]}, 'required': ['m', 'n']}})
    P.append({'a': {'inputs': ['x'], 'lines': {'c1': [('v', 'c2')], 'c2': [('v', 'c1')], 'k': [('in', 'x')]}, 'required': ['c1', 'c2', 'k']}})
    P.append({'a': {'inputs': ['x', 's'], 'lines': {'t': [('stop_if', 's'), ('v', 'b.q')], 'u': [('v', 't'), ('in', 'b.y')]}, 'required': ['t', 'u']},
              'b': {'inputs': ['y', 'z'], 'lines': {'q': [('in', 'y'), ('in', 'z')], 'r': [('v', 'q')]}, 'required': ['r']}})
    P.append({'a': {'inputs': ['x'], 'lines': {'w': [('v', 'zz.q')]}, 'required': ['w']}})
    P.append({'a': {'inputs': [], 'lines': {'t': [('v', 'b.r')]}, 'required': ['t']},
              'b': {'inputs': ['k1', 'k2', 'k3'], 'lines': {'r': [('in', 'k1'), ('in', 'k2'), ('in', 'k3')]}, 'required': ['r']}})
    # two instances of one form class with different amounts, read through unqualified names
    P.append({'a': {'inputs': [], 'lines': {'t': [('v', 'c:x.s'), ('v', 'c:y.s')]}, 'required': ['t']},
              'c:x': {'inputs': ['p'], 'lines': {'s': [('v', 'u'), ('in', 'p')], 'u': [('in', 'p')]}, 'required': ['s']},
              'c:y': {'inputs': ['p'], 'lines': {'s': [('v', 'u'), ('in', 'p')], 'u': [('in', 'p')]}, 'required': ['s']}})
    # the same-named line of two copies of one form class waits on one shared line (itself waiting on an input)
    P.append({'a': {'inputs': ['g'], 'lines': {'base': [('in', 'g')], 't': [('v', 'c:x.s'), ('v', 'c:y.s')]}, 'required': ['base', 't']},
              'c:x': {'inputs': ['p'], 'lines': {'s': [('v', 'a.base'), ('in', 'p')]}, 'required': ['s']},
              'c:y': {'inputs': ['p'], 'lines': {'s': [('v', 'a.base'), ('in', 'p')]}, 'required': ['s']}})
    # ... and the same with nobody reading the copies' lines (both copies requested by name)
    P.append({'a': {'inputs': ['g'], 'lines': {'base': [('in', 'g')]}, 'required': ['base']},
              'c:x': {'inputs': ['p'], 'lines': {'s': [('v', 'a.base'), ('in', 'p')]}, 'required': ['s']},
              'c:y': {'inputs': ['p'], 'lines': {'s': [('v', 'a.base'), ('in', 'p')]}, 'required': ['s']}})
    # ... and the copies' lines reading one shared INPUT of another form: they wait together only when that input is typed at a prompt
    P.append({'a': {'inputs': ['g'], 'lines': {'base': [('in', 'g')]}, 'required': ['base']},
              'c:x': {'inputs': ['p'], 'lines': {'s': [('in', 'a.g'), ('in', 'p')]}, 'required': ['s']},
              'c:y': {'inputs': ['p'], 'lines': {'s': [('in', 'a.g'), ('in', 'p')]}, 'required': ['s']}})
    # reads of inputs that their (known, loadable) form does not declare: the solve must abort with a proper report, not spin
    P.append({'a': {'inputs': ['x'], 'lines': {'u': [('in', 'b.nope')], 'k': [('in', 'x')]}, 'required': ['u', 'k']},
              'b': {'inputs': ['y'], 'lines': {'m': [('in', 'y')]}, 'required': ['m']}})
    P.append({'a': {'inputs': ['x'], 'lines': {'u': [('in', 'x'), ('in', 'nope')]}, 'required': ['u']}})
    # line names that differ only in punctuation / leading zeros (equal under the natural sort key, distinct lines all the same)
    P.append({'a': {'inputs': ['x', 'g'], 'lines': {'l4_a': [('in', 'x')], 'l4a': [('ni_if', 'g'), ('in', 'x')], 'l01': [('in', 'g')], 'l1': [('v', 'l4a'), ('in', 'x')]},
                    'required': ['l4_a', 'l4a', 'l01', 'l1']}})
    # a wide fan-out: 40 lines of one form wait on the same missing input at the moment it is asked
    P.append({'a': {'inputs': ['x'], 'lines': {f'w{k}': [('in', 'x')] for k in range(40)}, 'required': [f'w{k}' for k in range(40)]}})
    return P


def random_program(rnd):
    forms = ['a', 'b'] if rnd.random() < 0.7 else ['a']
    prog = {}
    for f in forms:
        ins = [f'i{k}' for k in range(rnd.randint(1, 3))]
        lines = [f'l{k}' for k in range(rnd.randint(1, 4))]
        prog[f] = {'inputs': ins, 'lines': {}, 'required': [l for l in lines if rnd.random() < 0.7] or lines[:1]}
    for f in forms:
        for l in list(prog[f]['lines'].keys()) or []:
            pass
        names = {g: list(prog[g]['required']) + [f'l{k}' for k in range(4)] for g in forms}
        for l in [f'l{k}' for k in range(4)]:
            if l not in prog[f]['required'] and rnd.random() < 0.5 and l != 'l0':
                continue
            spec = []
            for _ in range(rnd.randint(1, 3)):
                r = rnd.random()
                g = rnd.choice(forms)
                if r < 0.4:
                    spec.append(('in', rnd.choice(prog[g]['inputs']) if g == f else f'{g}.{rnd.choice(prog[g]["inputs"])}'))
                elif r < 0.8:
                    tgt = rnd.choice([f'l{k}' for k in range(4)])
                    spec.append(('v', tgt if g == f else f'{g}.{tgt}'))
                elif r < 0.9:
                    spec.append(('ni_if', rnd.choice(prog[f]['inputs'])))
                else:
                    spec.append(('stop_if', rnd.choice(prog[f]['inputs'])))
            prog[f]['lines'][l] = spec
        prog[f]['required'] = [l for l in prog[f]['required'] if l in prog[f]['lines']] or list(prog[f]['lines'])[:1]
    # drop reads of undefined lines so that programs are well-formed (unknown names are covered by fixed programs)
    for f in forms:
        for l, spec in prog[f]['lines'].items():
            prog[f]['lines'][l] = [(k, key) for k, key in spec if k != 'v' or (qual(f, key).split('.')[1] in prog[qual(f, key).split('.')[0]]['lines'])]
    return prog


def scenarios(seed=0, n_random=150):
    rnd = random.Random(seed)
    progs = fixed_programs() + [random_program(rnd) for _ in range(n_random)]
    for prog in progs:
        all_inputs = [f'{f}.{i}' for f, fd in prog.items() for i in fd['inputs']]
        reqs = [[list(prog)[0]]] + ([list(prog)] if len(prog) > 1 else [])
        for requested in reqs:
            full = {k: rnd.choice([0, 1, 2]) + (10 * (ix + 1) if ':' in k else 0) for ix, k in enumerate(all_inputs)}
            yield prog, requested, full, None, None
            yield prog, requested, {}, full, None
            half = {k: v for k, v in full.items() if rnd.random() < 0.5}
            yield prog, requested, half, {k: v for k, v in full.items() if k not in half}, None
            yield prog, requested, half, full, 1
            yield prog, requested, half, None, None
            if all_inputs:
                # a provided text the validator rejects: the run must not succeed without the lines that read it
                yield prog, requested, {**full, all_inputs[0]: 'not-a-number'}, None, None
                yield prog, requested, {**full, all_inputs[-1]: 'not-a-number'}, None, None
                yield prog, requested, {all_inputs[0]: 'not-a-number'}, full, None        # rejected text in the file, interactive run
                yield prog, requested, {all_inputs[-1]: 'not-a-number'}, full, None
            blank = {k: '' for k in all_inputs}      # a blank answer is a valid answer (0 / empty text), not a refusal
            yield prog, requested, {}, blank, None
            yield prog, requested, half, blank, None
            for k in (1, 2, 3):
                yield prog, requested, {}, full, ('raise', k)
                yield prog, requested, half, full, ('raise', k)


def search(prop, seed=0, n_random=150):
    """First scenario on which the native statement of `prop` fails on the real solver, or None."""
    chk = CHECKS[prop]
    n = 0
    for prog, requested, provided, answers, refuse in scenarios(seed, n_random):
        n += 1
        try:
            if isinstance(refuse, tuple):
                o = run(prog, requested, provided, answers, None, raise_after=refuse[1])
            else:
                o = run(prog, requested, provided, answers, refuse)
        except Exception as ex:
            continue
        try:
            msg = chk(o)
        except Exception:
            continue
        if msg:
            return {'violated': msg, 'program': prog, 'requested': requested, 'provided': provided, 'answers': answers,
                    'refuse_after': refuse, 'result': o.get('result'), 'raised': o.get('raised'), 'scenarios_tried': n}
    return None


# ------------------------------------------------------------------------------------------------------------------
# Input-only forms with amounts of more than two decimals (the W-2 / 1099 pattern): a reader form sums the mirror lines of
# three copies of a real InputForm.  Native statements: every stored amount is the declared rounding of what its definition
# yields (C12), and every stored value equals its definition re-evaluated on the final stores (C03).
def mirror_run(amounts, order_first=True, provided=True):
    from habutax.form import Form, InputForm
    from habutax.inputs import FloatInput, InputStore
    from habutax.fields import FloatField
    from habutax.solver import Solver

    def init_w(self, **kw):
        InputForm.__init__(self, type(self), [FloatInput('p'), FloatInput('q')], **kw)
    W = type('Toy_w', (InputForm,), {'form_name': 'w', 'tax_year': 1, 'description': 'w', 'long_description': 'w', '__init__': init_w})
    n = len(amounts)
    early, late = ('a_sum', 'z_sum') if order_first else ('z_sum', 'a_sum')

    def total(s, i, v):
        return sum(v[f'w:{k}.p'] for k in range(n))

    def init_r(self, **kw):
        Form.__init__(self, type(self), [], [FloatField(early, total), FloatField(late, total), FloatField('whole', total, places=0)], [], **kw)
    # the reader's form name sorts before 'w' so that its lines are attempted first (and after it with order_first False)
    R = type('Toy_r', (Form,), {'form_name': 'r' if order_first else 'x', 'tax_year': 1, 'description': 'r', 'long_description': 'r', '__init__': init_r})
    cfg = configparser.ConfigParser()
    if provided:
        for k, a in enumerate(amounts):
            cfg.add_section(f'w:{k}')
            cfg.set(f'w:{k}', 'p', a)
            cfg.set(f'w:{k}', 'q', a)
    answers = {f'w:{k}.{b}': a for k, a in enumerate(amounts) for b in ('p', 'q')}

    def prompt(missing, needed_by):
        return (answers[missing.name()], True) if missing.name() in answers else (None, False)
    s = Solver(InputStore(cfg), [R, W], prompt=None if provided else prompt)
    rname = R.form_name
    obs = {'amounts': list(amounts), 'reader_first': order_first, 'provided_in_file': provided}
    try:
        obs['result'] = s.solve([rname] + [f'w:{k}' for k in range(n)])
    except BaseException as ex:
        obs['raised'] = f'{type(ex).__name__}: {str(ex)[:100]}'
        return obs
    vals = dict(s._v.values)
    obs['values'] = {k: repr(v) for k, v in sorted(vals.items())}
    problems = []
    for k, a in enumerate(amounts):
        for b in ('p', 'q'):
            nm = f'w:{k}.{b}'
            if nm in vals:
                want = round(float(a), 2)
                if not (isinstance(vals[nm], float) and vals[nm] == want):
                    problems.append(f'{nm} holds {vals[nm]!r}; its definition yields {float(a)!r}, declared as an amount of 2 places: {want!r}')
    stored = [vals.get(f'w:{k}.p') for k in range(n)]
    if all(x is not None for x in stored):
        for nm, pl in ((f'{rname}.{early}', 2), (f'{rname}.{late}', 2), (f'{rname}.whole', 0)):
            if nm in vals:
                want = round(sum(stored), pl)
                if vals[nm] != want:
                    problems.append(f'{nm} holds {vals[nm]!r}; re-evaluated on the values of the same solution it is {want!r}')
    obs['problems'] = problems
    return obs


def mirror_search(prop):
    """First mirror scenario whose native statement fails on the real solver, or None (C03: fixed point; C12: declared rounding)."""
    cases = [['150.004', '150.004', '150.004'], ['50000.4749', '0.005', '0.0051'], ['33.3333', '33.3333', '33.3334'], ['1', '2.5', '3.25']]
    for amounts in cases:
        for first in (True, False):
            for provided in (True, False):
                try:
                    o = mirror_run(amounts, first, provided)
                except BaseException as ex:
                    continue
                ps = o.get('problems') or []
                if prop == 'C12':
                    ps = [p for p in ps if 'declared as' in p]
                if ps:
                    return {'violated': ps[0], 'kind': 'mirror', 'scenario': {'amounts': amounts, 'reader_first': first, 'provided_in_file': provided}, 'observed': o.get('values')}
    return None
