"""linevc: symbolic execution of one line function of a real, instantiated form.

Everything except the *contents* of i[...] and v[...] is concrete (taken from
the real form object).  A read returns a typed symbolic constant constrained
only by the callee's *contract* (declared type; never the callee's body).
"""
import copy
import enum as _enum
import re
import types

import z3

from . import extract, sym
from .sym import SV, PatStr, Raised, Unsupported


class UnresolvedReference(Exception):
    """A reference that does not resolve in the year's catalogue (C10)."""
    def __init__(self, what, name):
        self.what, self.refname = what, name
        super().__init__(f'{what} {name!r} does not resolve')


class FormNotSupported(NotImplementedError):
    """Stands for the solver's abort 'Form X is not supported.'"""


class Acc(object):
    """Symbolic stand-in for FormAccessor over inputs ('i') or values ('v')."""
    _pyvc_symbolic = True

    def __init__(self, kind, form):
        self.kind, self.form = kind, form


_SYMS = {}


def _sort_for(kind, cls=None):
    if kind == 'int':
        return z3.IntSort()
    if kind == 'real':
        return z3.RealSort()
    if kind == 'bool':
        return z3.BoolSort()
    if kind == 'str':
        return z3.StringSort()
    if kind == 'enum':
        return sym.enum_sort(cls)[0]
    raise Unsupported(kind)


def read_symbol(acc_kind, fullname, kind, cls=None, index=None):
    """Canonical z3 symbol for a read: shared by every line that reads the key."""
    key = (acc_kind, fullname, kind, id(cls) if cls else None, index is not None)
    if key not in _SYMS:
        name = f'{acc_kind}|{fullname}'
        if index is None:
            _SYMS[key] = z3.Const(name, _sort_for(kind, cls))
        else:
            _SYMS[key] = z3.Function(name, z3.IntSort(), _sort_for(kind, cls))
    s = _SYMS[key]
    return s if index is None else s(index)


def input_kind(inp):
    from habutax import inputs as I
    t = type(inp)
    if t is I.BooleanInput:
        return 'bool', None, False
    if t is I.IntegerInput:
        return 'int', None, False
    if t is I.FloatInput:
        return 'real', None, False
    if t is I.EnumInput:
        return 'enum', inp.enum, bool(inp.allow_empty)
    if isinstance(inp, I.StringInput):
        return 'str', None, False
    raise Unsupported(f'input class {t.__name__}')


def field_kind(fld):
    from habutax import fields as F
    t = type(fld)
    if t is F.BooleanField:
        return 'bool', None, False
    if t is F.IntegerField:
        return 'int', None, False
    if t is F.FloatField:
        return 'real', None, False
    if t is F.EnumField:
        return 'enum', fld.enum(), True
    if t is F.StringField:
        return 'str', None, False
    raise Unsupported(f'field class {t.__name__}')


class Cat(object):
    """The year's catalogue as the solver would see it (names -> real objects)."""
    _cache = {}

    def __init__(self, year):
        self.year = year
        self.forms, self.errors = extract.catalogue(year)
        self.classes = {c.form_name: c for c in extract.form_classes(year)}
        self.inputs = {}
        self.fields = {}
        for fname, f in self.forms.items():
            for i in f.inputs():
                self.inputs.setdefault(i.name(), i)
            for fl in f.fields():
                self.fields.setdefault(fl.name(), fl)

    @classmethod
    def get(cls, year):
        if year not in cls._cache:
            cls._cache[year] = Cat(year)
        return cls._cache[year]


KEY_RE = re.compile(r'^([^.:]+)(?::([^.]*))?\.(.+)$')


class LineInterp(sym.Interp):
    def __init__(self, run, cat=None, field=None, contracts=None):
        super().__init__(run)
        self.cat = cat
        self.field = field
        self.contracts = contracts  # object with .read_facts(acc_kind, fullname, term, kind, indexed)

    def fork(self, run):
        c = copy.copy(self)
        c.run = run
        c.depth = self.depth
        return c

    # -- reads
    def getitem_hook(self, obj, key, node):
        if not isinstance(obj, Acc):
            return NotImplemented
        return self.read(obj, key, node)

    def canonical(self, acc, key, node):
        """-> (form_name, instance (None|str|SV int), base, fullname_pattern)"""
        if isinstance(key, SV):
            raise Unsupported('accessor key is a symbolic string')
        if isinstance(key, PatStr):
            parts = key.parts
            text = ''.join(p if isinstance(p, str) else '\x00' for p in parts)
            syms = [p for p in parts if not isinstance(p, str)]
        elif isinstance(key, str):
            text, syms = key, []
        else:
            raise Raised(TypeError(f'accessor key of type {type(key).__name__}'), node)
        if '.' not in text:
            text = f'{acc.form.name()}.{text}'
        m = KEY_RE.match(text)
        if not m or text.count('.') != 1:
            raise Raised(UnresolvedReference('name', text.replace('\x00', '{n}')), node)
        fname, inst, base = m.group(1), m.group(2), m.group(3)
        if '\x00' in fname:
            raise Unsupported('symbolic piece in the form position of a key')
        if '\x00' in base:
            # symbolic int inside the line/input name: one branch per catalogue name it can denote
            if len(syms) != 1 or (inst is not None and '\x00' in inst):
                raise Unsupported('several symbolic pieces in a key')
            table = self.cat.inputs if acc.kind == 'i' else self.cat.fields
            prefix = fname + (f':{inst}' if inst is not None else '') + '.'
            rx = re.compile('^' + re.escape(prefix) + r'(-?\d+)'.join(re.escape(x) for x in base.split('\x00')) + '$')
            for cand in list(table.keys()):
                m2 = rx.match(cand)
                if m2 and self.run.branch(syms[0].t == int(m2.group(1)), where=f'B{node.lineno}:{cand}'):
                    return self.canonical(acc, cand, node)
            shown = text.replace('\x00', '{n}')
            self.run.path.reads.append((acc.kind, shown, True))
            raise Raised(UnresolvedReference('input' if acc.kind == 'i' else 'line', shown), node)
        index = None
        if inst is not None and '\x00' in inst:
            if inst != '\x00' or len(syms) != 1:
                raise Unsupported('instance is a mix of text and symbolic index')
            index = syms[0]
            inst = None
        return fname, inst, base, index

    def read(self, acc, key, node):
        fname, inst, base, index = self.canonical(acc, key, node)
        cat = self.cat
        shown = f'{fname}' + (f':{inst}' if inst is not None else (':{n}' if index is not None else '')) + f'.{base}'
        if fname not in cat.classes:
            # the solver's _add_form raises NotImplementedError('Form X is not supported.')
            self.run.path.reads.append((acc.kind, shown, index is not None))
            raise Raised(FormNotSupported(f'Form {fname} is not supported.'), node)
        cls = cat.classes[fname]
        numbered = fname in extract.NUMBERED
        if index is not None:
            if not numbered:
                raise Raised(UnresolvedReference('numbered instance of un-numbered form', shown), node)
            lookup_form = f'{fname}:0'
        elif inst is not None:
            if hasattr(cls, 'valid_instances') and inst not in cls.valid_instances:
                raise Raised(UnresolvedReference('form instance', shown), node)
            if numbered:
                if not inst.isdigit():
                    raise Raised(UnresolvedReference('form instance', shown), node)
                lookup_form = f'{fname}:0'
            else:
                if not hasattr(cls, 'valid_instances'):
                    raise Raised(UnresolvedReference('instance of a form without instances', shown), node)
                lookup_form = f'{fname}:{inst}'
        else:
            if hasattr(cls, 'valid_instances') or numbered:
                raise Raised(UnresolvedReference('form that requires an instance', shown), node)
            lookup_form = fname
        table = cat.inputs if acc.kind == 'i' else cat.fields
        spec = table.get(f'{lookup_form}.{base}')
        if spec is None:
            self.run.path.reads.append((acc.kind, shown, index is not None))
            raise Raised(UnresolvedReference('input' if acc.kind == 'i' else 'line', shown), node)
        kind, ecls, optional = input_kind(spec) if acc.kind == 'i' else field_kind(spec)
        if numbered and inst is not None:
            # concrete numbered instance: same function symbol applied to the number
            full = f'{fname}:{{n}}.{base}'
            t = read_symbol(acc.kind, full, kind, ecls, index=z3.IntVal(int(inst)))
        elif index is not None:
            full = f'{fname}:{{n}}.{base}'
            t = read_symbol(acc.kind, full, kind, ecls, index=index.t)
        else:
            full = shown
            t = read_symbol(acc.kind, full, kind, ecls)
        rec = (acc.kind, shown, index is not None)
        if rec not in self.run.path.reads:
            self.run.path.reads.append(rec)
        self.run.path.readlog = getattr(self.run.path, 'readlog', [])
        self.run.path.readlog.append((acc.kind, shown, t))
        v = SV(kind, t, ecls)
        if kind == 'enum' and not optional:
            self.run.fact(t != sym.enum_sort(ecls)[2])
        if self.contracts is not None:
            for f in self.contracts.read_facts(acc.kind, full, t, kind, spec, self.cat.year):
                self.run.fact(f)
        return v

    # -- calls
    def call_hook(self, f, args, kwargs, node):
        if isinstance(f, types.MethodType):
            fn = f.__func__
            owner = f.__self__
            name = fn.__name__
            qual = getattr(fn, '__qualname__', '')
            anysym = any(sym.is_sym(a) for a in args) or any(sym.is_sym(a) for a in kwargs.values())
            if qual == 'Field.threshold' or qual == 'Form.threshold':
                if anysym:
                    return self.threshold(f, args, kwargs, node)
                return NotImplemented
            if qual == 'Field.form' and (args or kwargs):
                fname = args[0] if args else kwargs.get('form_name')
                if fname is not None and not sym.is_sym(fname):
                    ok = any(k == 'v' and r.split('.')[0] == fname for k, r, _ in self.run.path.reads) \
                        or fname == owner.form().name()
                    self.run.path.notes.append(('form-call', getattr(node, 'lineno', 0), fname, ok))
                return NotImplemented
        if isinstance(f, types.FunctionType) and f.__name__ == 'figure_tax' and self.repo_function(f):
            return self.figure_tax(f, args, kwargs, node)
        return NotImplemented

    def figure_tax(self, f, args, kwargs, node):
        """figure_tax(amount, status) by contract (the contract is C07's):
        requires 0 <= amount <= 1e12 and status a member; ensures result ==
        tax_y(status, amount) with tax_y >= 0, monotone (instances added by the
        caller's obligations).  The precondition is recorded as a call-site
        obligation on the path."""
        if len(args) != 2 or kwargs:
            raise Unsupported('figure_tax call shape')
        amount, status = args
        if not sym.is_sym(amount) and not sym.is_sym(status):
            return NotImplemented
        if sym.kind_of(amount) not in sym.NUM:
            raise Raised(TypeError('figure_tax amount is not a number'), node)
        a = sym.term(amount, 'real')
        if sym.kind_of(status) != 'enum':
            raise Raised(TypeError('figure_tax status is not an enum member'), node)
        scls = status.cls if isinstance(status, SV) else type(status)
        sort = sym.enum_sort(scls)[0]
        # the contract applied is that of the function actually called: the schedule of the year of ITS module (C07 checks, per caller,
        # that this is the caller's own year)
        import re as _re
        m = _re.search(r'\.ty(\d{4})\.', getattr(f, '__module__', '') or '')
        fn = z3.Function(f'tax_{m.group(1) if m else self.cat.year}', sort, z3.RealSort(), z3.RealSort())
        pre = getattr(self.run.path, 'call_pre', [])
        pre.append(('figure_tax', getattr(node, 'lineno', 0), z3.And(a >= 0, a <= z3.RealVal(10) ** 12), list(self.run.path.conds)))
        self.run.path.call_pre = pre
        r = fn(sym.term(status), a)
        self.run.fact(r >= 0)
        self.run.path.figure_tax_calls = getattr(self.run.path, 'figure_tax_calls', []) + [(sym.term(status), a, r, f)]
        return SV('real', r)

    def threshold(self, f, args, kwargs, node):
        """Form.threshold with a symbolic enum key: partial evaluation of the
        real function on every member of the key's class."""
        name = args[0]
        key = args[1] if len(args) > 1 else kwargs.get('requested_key')
        if isinstance(name, PatStr):
            # name pattern with a symbolic int: one branch per declared threshold it can denote
            form = f.__self__.form() if hasattr(f.__self__, 'form') else f.__self__
            syms = [p for p in name.parts if not isinstance(p, str)]
            if len(syms) != 1:
                raise Unsupported('threshold name with several symbolic pieces')
            rx = re.compile('^' + ''.join(re.escape(p) if isinstance(p, str) else r'(-?\d+)' for p in name.parts) + '$')
            for tname in list(form._thresholds.keys()):
                m = rx.match(tname)
                if m and self.run.branch(syms[0].t == int(m.group(1)), where=f'TN{node.lineno}:{tname}'):
                    return self.threshold(f, [tname] + list(args[1:]), kwargs, node)
            raise Raised(AssertionError(f'No threshold named {name!r} was found'), node)
        if sym.is_sym(name):
            raise Unsupported('threshold with symbolic name')
        if not sym.is_sym(key):
            try:
                return f(name, requested_key=key) if key is not None else f(name)
            except BaseException as ex:
                raise Raised(ex, node)
        if not isinstance(key, SV) or key.kind != 'enum':
            raise Unsupported('threshold with non-enum symbolic key')
        sort, consts, none, cls = sym.enum_sort(key.cls)
        results = []
        for mname, c in consts.items():
            try:
                r = f(name, requested_key=cls[mname])
                results.append((c, ('ok', r)))
            except BaseException as ex:
                results.append((c, ('raise', ex)))
        try:
            f(name, requested_key=None)
            rn = None
        except BaseException as ex:
            rn = ex
        # None key
        if self.run.branch(key.t == none, where=f'T{node.lineno}:{node.col_offset}n'):
            raise Raised(rn if rn is not None else AssertionError('threshold key None'), node)
        out = None
        kinds = set()
        for c, (st, r) in results:
            if st == 'raise':
                if self.run.branch(key.t == c, where=f'T{node.lineno}:{node.col_offset}{c}'):
                    raise Raised(r, node)
            else:
                kinds.add(sym.kind_of(r))
        oks = [(c, r) for c, (st, r) in results if st == 'ok']
        if not oks:
            raise Raised(AssertionError('threshold has no matching key'), node)
        if len(kinds) != 1 or next(iter(kinds)) not in sym.NUM:
            # mixed types: fork on the member
            for c, r in oks[:-1]:
                if self.run.branch(key.t == c, where=f'T{node.lineno}:{node.col_offset}{c}'):
                    return r
            return oks[-1][1]
        k = next(iter(kinds))
        t = sym.term(oks[-1][1], k)
        for c, r in oks[:-1]:
            t = z3.If(key.t == c, sym.term(r, k), t)
        return SV(k, t)


def explore_line(year, field, contracts=None, max_paths=4000, feas_timeout_ms=1500):
    """All paths of the real line function of `field` (raw _value, before the
    TypedField.value wrapper)."""
    cat = Cat.get(year)
    fn = extract.line_function(field)
    form = field.form()
    ex = sym.Explorer(feas_timeout_ms=feas_timeout_ms, max_paths=max_paths)

    def thunk(run):
        it = LineInterp(run, cat, field, contracts)
        i, v = Acc('i', form), Acc('v', form)
        return it.call_function(fn, [field, i, v])

    return ex.explore(thunk)
