"""Reader for the bundled PDF templates (DESIGN 2.1).

IRS forms: the XFA <template> packet (largest Flate stream containing '<template'); every <field> with its full
dotted path (as used by pdf_fields), ui type, export values (<items>), maxChars / comb cells, and <speak> text.
NC forms: AcroForm field dictionaries (/T, /FT, /MaxLen, /Opt, appearance states) from raw and object streams.
"""
import functools
import re
import zlib
import xml.etree.ElementTree as ET


def inflate_streams(data):
    out = []
    for m in re.finditer(rb'stream\r?\n', data):
        start = m.end()
        end = data.find(b'endstream', start)
        if end < 0:
            continue
        raw = data[start:end]
        try:
            out.append(zlib.decompress(raw.rstrip(b'\r\n')))
        except Exception:
            try:
                out.append(zlib.decompressobj().decompress(raw))
            except Exception:
                pass
    return out


def strip_ns(tag):
    return tag.split('}')[-1]


class Widget(object):
    def __init__(self, path, kind, speak, exports, maxchars, comb, caption, speaks=()):
        self.path, self.kind, self.speak, self.exports, self.maxchars, self.comb, self.caption = path, kind, speak, exports, maxchars, comb, caption
        self.speaks = list(speaks) or ([speak] if speak else [])      # every <speak> of the field; .speak is the first (current) one

    def __repr__(self):
        return f'Widget({self.path}, {self.kind}, {self.exports}, max={self.maxchars}, speak={self.speak[:40]!r})'


@functools.lru_cache(maxsize=None)
def xfa_widgets(pdf_path):
    """-> dict path -> Widget for an XFA (IRS) template; {} if the PDF has no XFA template."""
    data = open(pdf_path, 'rb').read()
    best = None
    for s in inflate_streams(data):
        if b'<template' in s and (best is None or len(s) > len(best)):
            best = s
    if best is None:
        return {}
    text = best.decode('utf-8', 'replace')
    a = text.find('<template')
    b = text.rfind('</template')
    end = text.find('>', b)
    root = ET.fromstring(text[a:end + 1])
    out = {}

    def walk(node, prefix):
        counts = {}
        for ch in node:
            tag = strip_ns(ch.tag)
            if tag in ('subform', 'field', 'exclGroup', 'area', 'subformSet'):
                nm = ch.get('name')
                if nm is None:
                    walk(ch, prefix)
                    continue
                ix = counts.get(nm, 0)
                counts[nm] = ix + 1
                path = f'{prefix}.{nm}[{ix}]' if prefix else f'{nm}[{ix}]'
                if tag == 'field':
                    out[path] = widget_of(ch, path)
                else:
                    walk(ch, path)
            else:
                pass
    walk(root, '')
    return out


def widget_of(f, path):
    kind, exports, maxchars, comb, speak, caption = 'text', [], None, None, '', ''
    speaks = []
    for el in f.iter():
        t = strip_ns(el.tag)
        if t == 'checkButton':
            kind = 'button'
        elif t == 'choiceList':
            kind = 'choice'
        elif t == 'textEdit':
            kind = 'text'
        elif t == 'comb':
            comb = int(el.get('numberOfCells') or 0) or None
        elif t == 'speak':
            # a field may carry a second, stale <speak> of an earlier revision (the dependents boxes of Form 1040): the first one is current
            tx = ' '.join((el.text or '').split())
            if tx:
                speaks.append(tx)
            speak = speak or tx
        elif t == 'text' and el.get('maxChars'):
            maxchars = int(el.get('maxChars'))
    for el in f:
        if strip_ns(el.tag) == 'items':
            exports += [(x.text or '') for x in el]
        if strip_ns(el.tag) == 'value':
            for t in el.iter():
                if strip_ns(t.tag) == 'text' and t.get('maxChars'):
                    maxchars = int(t.get('maxChars'))
        if strip_ns(el.tag) == 'caption':
            caption = ' '.join(''.join(el.itertext()).split())
    return Widget(path, kind, speak, exports, maxchars, comb, caption, speaks)


@functools.lru_cache(maxsize=None)
def acro_fields(pdf_path):
    """-> dict name -> {'ft','maxlen','opts','states'} for an AcroForm (NC) template."""
    data = open(pdf_path, 'rb').read()
    blobs = [data] + inflate_streams(data)
    out = {}
    for blob in blobs:
        for m in re.finditer(rb'/T\s*\(((?:[^()\\]|\\.)*)\)', blob):
            name = m.group(1).decode('latin-1')
            win = enclosing_dict(blob, m.start(), m.end())
            ent = out.setdefault(name, {'ft': None, 'maxlen': None, 'opts': [], 'states': set()})
            ft = re.search(rb'/FT\s*/(\w+)', win)
            if ft and ent['ft'] is None:
                ent['ft'] = ft.group(1).decode()
            ml = re.search(rb'/MaxLen\s+(\d+)', win)
            if ml and ent['maxlen'] is None:
                ent['maxlen'] = int(ml.group(1))
            for st in re.finditer(rb'/AP\s*<<\s*/[ND]\s*<<([^>]*)>>', win):
                for s in re.finditer(rb'/([A-Za-z0-9_#]+)\s+\d+\s+\d+\s+R', st.group(1)):
                    ent['states'].add(s.group(1).decode())
            op = re.search(rb'/Opt\s*\[(.*?)\]', win, re.S)
            if op and not ent['opts']:
                ent['opts'] = [o.decode('latin-1') for o in re.findall(rb'\(((?:[^()\\]|\\.)*)\)', op.group(1))]
    return out


def enclosing_dict(blob, start, end):
    """The innermost << ... >> dictionary that contains blob[start:end]."""
    depth, i = 0, start
    a = None
    while i >= 2:
        two = blob[i - 2:i]
        if two == b'>>':
            depth += 1
            i -= 2
            continue
        if two == b'<<':
            if depth == 0:
                a = i - 2
                break
            depth -= 1
            i -= 2
            continue
        i -= 1
    if a is None:
        return blob[max(0, start - 200):end + 200]
    depth, j = 0, a
    n = len(blob)
    while j < n - 1:
        two = blob[j:j + 2]
        if two == b'<<':
            depth += 1
            j += 2
            continue
        if two == b'>>':
            depth -= 1
            j += 2
            if depth == 0:
                return blob[a:j]
            continue
        j += 1
    return blob[a:end + 200]


LINE_RE = re.compile(r'^\s*(?:Line\s+)?(\d{1,2}[a-z]?)\s*[.:]?\s+(?=[A-Za-z(])', re.I)


def speak_line_number(speak):
    """Line number a widget's accessibility text starts with ('15. Subtract line 14 ...' -> '15'), else None."""
    if not speak:
        return None
    s = speak.strip()
    m = re.match(r'^(?:Line\s+)?(\d{1,2})\s*([a-z])?\s*[.:]\s', s)
    if m:
        if not m.group(2):
            # compound label: the line number, a heading ending in a colon, then the sub-letter
            c = re.match(r'^(?:Line\s+)?(\d{1,2})\.\s[^:.]{0,90}:\s*\(?([a-z])[.)]\s', s) or \
                re.match(r'^(?:Line\s+)?(\d{1,2})\.\s[^:]{0,120}?[.)]\s+([A-Za-z])\.\s', s)
            if c:
                return c.group(1) + c.group(2).lower()
        return m.group(1) + (m.group(2) or '')
    m = re.match(r'^(\d{1,2})\s*([a-z])\s+', s)
    if m:
        return m.group(1) + m.group(2)
    # a section heading read out before the line number ("Refund. 34. If line 33 ...", "Income. Attach ... see instructions. 1a. Total ...")
    h = re.search(r'(?<=[.?]\s)(\d{1,2}\s?[a-z]?\.\s)', s)
    if h and h.start() <= 300 and not re.search(r'\blines?\s+\d', s[:h.start()], re.I) and not re.match(r'^\s*\d', s):
        return speak_line_number(s[h.start():])
    return None


def strip_heading(speak):
    """The accessibility text without a leading section heading (see speak_line_number)."""
    s = (speak or '').strip()
    if re.match(r'^(?:Line\s+)?\d{1,2}\s*[a-z]?\s*[.:]\s', s) or re.match(r'^\d{1,2}\s*[a-z]\s+', s):
        return s
    h = re.search(r'(?<=[.?]\s)(\d{1,2}\s?[a-z]?\.\s)', s)
    if h and h.start() <= 300 and not re.search(r'\blines?\s+\d', s[:h.start()], re.I) and not re.match(r'^\s*\d', s):
        return s[h.start():]
    return s


def page_text(pdf_path):
    """Text shown by the page content streams (Tj / TJ operators), in stream order, whitespace-normalised.
    Only used to check that a transcribed sentence occurs verbatim in the bundled template."""
    import re
    with open(pdf_path, 'rb') as f:
        data = f.read()
    out = []
    for st in inflate_streams(data):
        if not isinstance(st, (bytes, bytearray)):
            continue
        for m in re.finditer(rb'\(((?:[^()\\]|\\.)*)\)\s*Tj|\[((?:[^\]\\]|\\.)*)\]\s*TJ', st):
            if m.group(1) is not None:
                out.append(m.group(1))
            else:
                out.append(b''.join(re.findall(rb'\(((?:[^()\\]|\\.)*)\)', m.group(2))))
    text = b' '.join(out).decode('latin1')
    text = text.replace('\\(', '(').replace('\\)', ')')
    return re.sub(r'\s+', ' ', text)


def instruction_text(pdf_path):
    """Text of a bundled official instruction booklet.  Its fonts are Identity-H subsets whose glyph ids are the ASCII code minus 29
    (checked: the decoded text must contain ordinary English words, else '' is returned); strings are <hex> operands of Tj / TJ.
    Used only to check that transcribed sentences and amounts occur verbatim in the official text bundled with the repository."""
    import re
    try:
        with open(pdf_path, 'rb') as f:
            data = f.read()
    except OSError:
        return ''
    if not data:
        return ''
    out = []
    for st in inflate_streams(data):
        if not isinstance(st, (bytes, bytearray)) or b' Tf' not in st:
            continue
        for m in re.finditer(rb'<([0-9A-Fa-f]+)>\s*Tj|\[((?:[^\]])*)\]\s*TJ|\(((?:[^()\\]|\\.)*)\)\s*Tj|(ET)', st):
            if m.group(4):
                out.append(' ')
                continue
            if m.group(3) is not None:
                out.append(m.group(3).decode('latin1'))
                continue
            hexes = [m.group(1)] if m.group(1) else re.findall(rb'<([0-9A-Fa-f]+)>', m.group(2))
            for h in hexes:
                h = h.decode()
                for i in range(0, len(h) - 3, 4):
                    c = int(h[i:i + 4], 16) + 29
                    out.append(chr(c) if 32 <= c < 127 else '?')
    text = re.sub(r'\s+', ' ', ''.join(out))
    words = sum(text.count(w) for w in (' the ', ' and ', ' line ', ' your '))
    return text if words >= 20 else ''
