"""Back ends: z3 (Python API) first, cvc5 (CLI, SMT-LIB2 export) for unknowns.

prove(hyps, goal) checks validity of hyps => goal by refuting hyps and not goal.
Returns (status, model_dict, backend, seconds, text) with status in
{'discharged','refuted','undecided'}.
"""
import os
import subprocess
import tempfile
import time

import z3

TIER = os.environ.get('VERIF_TIER', 'quick')
Z3_TIMEOUT_MS = int(os.environ.get('VERIF_Z3_TIMEOUT_MS', '10000' if TIER == 'quick' else '60000'))
CVC5 = '/usr/bin/cvc5'
CROSS = os.environ.get('VERIF_CROSS_SOLVER', '1' if TIER == 'thorough' else '0') == '1'


def model_to_dict(m):
    out = {}
    for d in m.decls():
        try:
            v = m[d]
            if d.arity() == 0:
                out[d.name()] = str(v)
            else:
                out[d.name()] = str(v)[:300]
        except Exception:
            pass
    return out


def _cvc5_check(solver, timeout_s, strings=False, fmf=False):
    smt2 = solver.to_smt2()
    if strings:
        smt2 = smt2.replace('(set-info :status unknown)', '')
    with tempfile.NamedTemporaryFile('w', suffix='.smt2', delete=False, dir=os.environ.get('XDG_RUNTIME_DIR') or '/dev/shm') as f:
        f.write('(set-logic ALL)\n' + smt2)
        path = f.name
    try:
        cmd = [CVC5, '--lang=smt2', f'--tlimit={int(timeout_s * 1000)}']
        if strings:
            cmd.append('--strings-exp')
        if fmf:
            cmd.append('--finite-model-find')
        r = subprocess.run(cmd + [path], capture_output=True, text=True, timeout=timeout_s + 5)
        out = r.stdout.strip().splitlines()
        return out[0] if out else 'unknown'
    except subprocess.TimeoutExpired:
        return 'unknown'
    finally:
        os.unlink(path)


def check_sat(constraints, timeout_ms=None, strings=False, want_model=True):
    """Returns ('sat'|'unsat'|'unknown', model_dict|None, backend, secs)."""
    t0 = time.time()
    s = z3.Solver()
    s.set('timeout', timeout_ms or Z3_TIMEOUT_MS)
    for c in constraints:
        s.add(c)
    r = s.check()
    backend = 'z3'
    if r == z3.sat:
        return 'sat', (model_to_dict(s.model()) if want_model else None), backend, time.time() - t0, s
    if r == z3.unsat:
        if CROSS:
            r2 = _cvc5_check(s, (timeout_ms or Z3_TIMEOUT_MS) / 1000.0, strings)
            if r2 == 'sat':
                return 'disagree', None, 'z3+cvc5', time.time() - t0, s
            if r2 == 'unsat':
                backend = 'z3+cvc5'
        return 'unsat', None, backend, time.time() - t0, s
    r2 = _cvc5_check(s, (timeout_ms or Z3_TIMEOUT_MS) / 1000.0, strings)
    if r2 == 'unsat':
        return 'unsat', None, 'cvc5', time.time() - t0, s
    if r2 == 'sat':
        return 'sat', None, 'cvc5', time.time() - t0, s
    dump = os.environ.get('VERIF_DUMP_UNKNOWN')
    if dump:
        os.makedirs(dump, exist_ok=True)
        import hashlib
        txt = s.to_smt2()
        with open(os.path.join(dump, hashlib.sha1(txt.encode()).hexdigest()[:10] + '.smt2'), 'w') as f:
            f.write('(set-logic ALL)\n' + txt)
    return 'unknown', None, 'z3,cvc5', time.time() - t0, s


def prove(hyps, goal, timeout_ms=None, strings=False):
    st, model, backend, secs, s = check_sat(list(hyps) + [z3.Not(goal)], timeout_ms, strings)
    if st == 'unsat':
        return 'discharged', None, backend, secs, 'unsat'
    if st == 'sat':
        return 'refuted', model, backend, secs, 'sat'
    if st == 'disagree':
        return 'error', None, backend, secs, 'solver disagreement: z3 unsat, cvc5 sat'
    return 'undecided', None, backend, secs, 'unknown: ' + (s.reason_unknown() if backend.startswith('z3') else '')


def satisfiable(constraints, timeout_ms=2000):
    s = z3.Solver()
    s.set('timeout', timeout_ms)
    for c in constraints:
        s.add(c)
    r = s.check()
    return r  # z3.sat / unsat / unknown


# ---------------------------------------------------------------------------------------------
# Sound weakening for validity: replace the string theory by uninterpreted symbols.
# z3's sequence solver answers `unknown` on some mixed string/arithmetic formulas whose string part
# is irrelevant; if the abstracted formula is valid, so is the original (every string term becomes an
# arbitrary element of an uninterpreted sort, every string operation an uninterpreted function,
# distinct literals stay distinct).
ABS = z3.DeclareSort('AbsStr')


def abstract_strings(exprs):
    cache, decls, lits = {}, {}, {}

    def sort_of(s):
        return ABS if s == z3.StringSort() else s

    def rec(t):
        key = t.get_id()
        if key in cache:
            return cache[key]
        if z3.is_quantifier(t):
            vs = [z3.Const(t.var_name(i), sort_of(t.var_sort(i))) for i in range(t.num_vars())]
            body = rec(z3.substitute_vars(t.body(), *reversed([z3.Const(t.var_name(i), t.var_sort(i)) for i in range(t.num_vars())])))
            r = z3.ForAll(vs, body) if t.is_forall() else z3.Exists(vs, body)
            cache[key] = r
            return r
        if z3.is_app(t) and t.decl().kind() == z3.Z3_OP_SEQ_IN_RE:
            r = z3.Bool('inre!' + str(abs(hash(t.sexpr())) % 10**10))
            cache[key] = r
            return r
        if z3.is_string_value(t):
            s = t.as_string()
            if s not in lits:
                lits[s] = z3.Const(f'lit!{len(lits)}', ABS)
            cache[key] = lits[s]
            return lits[s]
        if not z3.is_app(t):
            cache[key] = t
            return t
        kids = [rec(c) for c in t.children()]
        d = t.decl()
        touches = t.sort() == z3.StringSort() or any(c.sort() == z3.StringSort() for c in t.children())
        if not touches:
            r = d(*kids) if kids else t
            try:
                if kids and d.kind() != z3.Z3_OP_UNINTERPRETED:
                    r = t.decl()(*kids)
            except Exception:
                pass
            cache[key] = r
            return r
        if d.kind() == z3.Z3_OP_EQ:
            r = kids[0] == kids[1]
        elif d.kind() == z3.Z3_OP_DISTINCT:
            r = z3.Distinct(*kids)
        elif d.kind() == z3.Z3_OP_ITE:
            r = z3.If(kids[0], kids[1], kids[2])
        elif not kids:
            r = z3.Const(d.name(), sort_of(t.sort()))
        else:
            name = 'abs!' + d.name() + '!' + '!'.join(str(sort_of(c.sort())) for c in t.children())
            if name not in decls:
                decls[name] = z3.Function(name, *[sort_of(c.sort()) for c in t.children()], sort_of(t.sort()))
            r = decls[name](*kids)
        cache[key] = r
        return r
    out = [rec(e) for e in exprs]
    if len(lits) > 1:
        out.append(z3.Distinct(*lits.values()))
    return out


_prove_plain = prove


def prove(hyps, goal, timeout_ms=None, strings=False):
    st, model, backend, secs, txt = _prove_plain(hyps, goal, timeout_ms, strings)
    if st == 'undecided' and timeout_ms is None and 'timeout' in str(txt).lower() and os.environ.get('VERIF_NO_RETRY') != '1':
        # default-budget callers (line obligations): a verdict must not flip because the machine is busy - one more try with three
        # times the budget before the obligation is given up as undecided (callers that pass their own budget retry themselves)
        st2, model2, backend2, secs2, txt2 = _prove_plain(hyps, goal, Z3_TIMEOUT_MS * 3, strings)
        if st2 != 'undecided':
            return st2, model2, backend2, secs + secs2, txt2
    if st == 'undecided':
        try:
            ab = abstract_strings(list(hyps) + [z3.Not(goal)])
            r, _, be2, secs2, _ = check_sat(ab, timeout_ms, False, want_model=False)
            if r == 'unsat':
                return 'discharged', None, be2 + '(strings abstracted)', secs + secs2, 'unsat after abstracting the string theory'
        except Exception:
            pass
        # refutation attempt: the quantified invariants range over uninterpreted sorts (names, objects), where cvc5's finite model
        # finder produces genuine models that z3's MBQI does not reach within the budget; only a `sat` answer is used
        try:
            sv = z3.Solver()
            for c in list(hyps) + [z3.Not(goal)]:
                sv.add(c)
            t1 = time.time()
            if _cvc5_check(sv, min(10.0, (timeout_ms or Z3_TIMEOUT_MS) / 1000.0), strings, fmf=True) == 'sat':
                return 'refuted', None, 'cvc5(finite-model-find)', secs + time.time() - t1, 'sat (finite model of the negated verification condition)'
        except Exception:
            pass
    return st, model, backend, secs, txt
