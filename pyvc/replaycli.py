"""./check replay <file>: show a replay file and run its concrete input against the real code of the current tree.

Exit 1: the recorded failing input still fails on this tree; 0: it no longer fails; 2: the file carries no concrete input
(the violation was reported with `no-failing-input-found`: the failed obligation and the verifier's output are printed).
"""
import ast
import json
import sys

from . import extract


def main(argv):
    if not argv:
        print('usage: ./check replay <replay.json>')
        return 3
    with open(argv[0]) as f:
        d = json.load(f)
    extract.setup_path()
    print(f'property   : {d.get("property")}')
    print(f'obligation : {d.get("obligation")}')
    print(f'function   : {d.get("function")}')
    print(f'clause     : {d.get("clause")}')
    print(f'back end   : {d.get("backend")}')
    print(f'verifier   : {str(d.get("solver_output"))[:1500]}')
    if d.get('witness'):
        print(f'witness    : {json.dumps(d["witness"], default=str)[:1500]}')
    spec = d.get('replay_spec') or {}
    kind = spec.get('kind')
    if not kind:
        print('no concrete input recorded (no-failing-input-found); recorded native replay:', json.dumps(d.get('native_replay'), default=str)[:800])
        return 2
    prop = d.get('property')
    if kind == 'line':
        from . import replay
        r = replay.replay_line(spec['year'], spec['line'], _unrepr(spec.get('inputs', {})), _unrepr(spec.get('values', {})))
        print('native run of the real line on the recorded reads:', json.dumps(r, default=str)[:2000])
        print('recorded at check time                          :', json.dumps(d.get('native_replay'), default=str)[:1200])
        rec = d.get('native_replay') or {}
        if not rec.get('reproduced'):
            return 2
        same = all(r.get(k) == rec.get(k) for k in ('outcome', 'exc', 'value'))
        print('same outcome as recorded' if same else 'the outcome differs from the recorded one: the recorded failure does not reproduce on this tree')
        return 1 if same else 0
    if kind == 'tax':
        from .props import c07
        r = c07.replay_tax(spec['year'], spec['x'], spec['status'], spec.get('expected'))
        print('native:', json.dumps(r, default=str))
        return 1 if r.get('reproduced') else 0
    if kind == 'toy':
        from . import toyforms
        sc = spec['scenario']
        ra = sc.get('refuse_after')
        prog = _tuples(sc['program'])
        if isinstance(ra, (list, tuple)):
            o = toyforms.run(prog, sc['requested'], sc['provided'], sc['answers'], None, raise_after=ra[1])
        else:
            o = toyforms.run(prog, sc['requested'], sc['provided'], sc['answers'], ra)
        msg = toyforms.CHECKS[spec['prop']](o)
        print('native run of the toy program on the real Solver:', msg or 'the statement holds on this tree')
        return 1 if msg else 0
    if kind == 'roles':
        from . import replay as _rp
        from .props import roles
        import habutax.enum as E
        import enum as _enum
        import re as _re

        def conv(d):
            out = {}
            for k, v in d.items():
                m = _re.match(r'^<(.+)\.(\w+): ', str(v))
                if 'Taxpayer or Spouse' in str(v):
                    out[k] = E.taxpayer_or_spouse.taxpayer if '.taxpayer' in str(v) else E.taxpayer_or_spouse.spouse
                elif m:
                    # repr of a member of one of habutax.enum's enumerations: found by class display name and member name
                    hit = [c[m.group(2)] for c in vars(E).values() if isinstance(c, type) and issubclass(c, _enum.Enum) and c.__name__ == m.group(1) and m.group(2) in c.__members__]
                    if spec.get('year') == 2021:
                        hit = [h for h in hit if h is getattr(E, 'filing_status_2021', None).__members__.get(m.group(2))] or hit
                    out[k] = hit[0]
                else:
                    out[k] = ast.literal_eval(v) if isinstance(v, str) else v
            return out
        ins, vals = conv(spec['inputs']), conv(spec['values'])
        sw_in = {(roles.swap_name('i|' + k) or ('i|' + k))[2:]: v for k, v in ins.items()}
        sw_va = {}
        for k, v in vals.items():
            if isinstance(v, E.taxpayer_or_spouse):
                v = E.taxpayer_or_spouse.spouse if v is E.taxpayer_or_spouse.taxpayer else E.taxpayer_or_spouse.taxpayer
            sw_va[(roles.swap_name('v|' + k) or ('v|' + k))[2:]] = v
        r1 = _rp.replay_line(spec['year'], spec['line'], ins, vals)
        r2 = _rp.replay_line(spec['year'], spec['line'], sw_in, sw_va)
        o1, o2 = (r1.get('outcome'), r1.get('value'), r1.get('exc')), (r2.get('outcome'), r2.get('value'), r2.get('exc'))
        print('native:', spec['line'], 'gives', o1, 'and with the roles of taxpayer and spouse swapped', o2)
        return 1 if o1 != o2 else 0
    if kind == 'copies':
        from . import replay as _rp
        from .props import roles
        ins = {k: ast.literal_eval(v) for k, v in spec['inputs'].items()}
        vals = {k: ast.literal_eval(v) for k, v in spec['values'].items()}
        sw_in = {(roles.swap_name('i|' + k) or ('i|' + k))[2:]: v for k, v in ins.items()}
        sw_va = {(roles.swap_name('v|' + k) or ('v|' + k))[2:]: v for k, v in vals.items()}
        r1 = _rp.replay_line(spec['year'], spec['spouse_line'], ins, vals)
        r2 = _rp.replay_line(spec['year'], spec['taxpayer_line'], sw_in, sw_va)
        o1, o2 = (r1.get('outcome'), r1.get('value'), r1.get('exc')), (r2.get('outcome'), r2.get('value'), r2.get('exc'))
        print('native:', spec['spouse_line'], 'gives', o1, ';', spec['taxpayer_line'], 'in the mirrored situation gives', o2)
        return 1 if o1 != o2 else 0
    if kind == 'mirror':
        from . import toyforms
        sc = spec['scenario']
        o = toyforms.mirror_run(sc['amounts'], sc['reader_first'], sc['provided_in_file'])
        ps = o.get('problems') or []
        if spec['prop'] == 'C12':
            ps = [p for p in ps if 'declared as' in p]
        print('native run of the input-only toy forms on the real Solver:', ps[0] if ps else 'the statement holds on this tree')
        return 1 if ps else 0
    if kind == 'session':
        from . import session
        sc = spec['scenario']
        o = session.run_session(_tuples(sc['program']), sc['requested'], sc['provided'], sc['answers'], sc.get('stop_at'), sc.get('stop_kind'))
        msg = session.CHECKS[spec['prop']](o)
        print('native interactive session of the real habutax.solve:', msg or 'the statement holds on this tree')
        print('first run:', {k: o['first'][k] for k in ('asked', 'given', 'ended', 'solved')}, ' re-run asked:', o['second']['asked'])
        return 1 if msg else 0
    if kind == 'fdf':
        from .props import c19
        r = c19.native_fdf(spec.get('K'), spec.get('V'))
        print('native:', json.dumps(r, default=str)[:1500])
        return 1 if (isinstance(r, dict) and r.get('reproduced')) else 0
    if kind == 'input':
        from habutax import inputs as I
        print('recorded native replay:', json.dumps(d.get('native_replay'), default=str)[:1500])
        return 1 if (d.get('native_replay') or {}).get('reproduced') else 2
    print('recorded native replay:', json.dumps(d.get('native_replay'), default=str)[:1500])
    return 1 if (d.get('native_replay') or {}).get('reproduced') else 2


def _tuples(program):
    """JSON turned the (kind, key) steps into lists."""
    return {f: {'inputs': fd['inputs'], 'required': fd['required'], 'lines': {l: [tuple(st) for st in spec] for l, spec in fd['lines'].items()}} for f, fd in program.items()}


def _unrepr(m):
    import ast
    out = {}
    for k, v in (m or {}).items():
        if isinstance(v, str):
            try:
                out[k] = ast.literal_eval(v)
                continue
            except Exception:
                pass
        out[k] = v
    return out
