"""Extraction of the real code: form instances, line functions and their ASTs.

Nothing is copied by hand: every run imports habutax from REPO (default /repo,
overridable with VERIF_REPO for the self-test on scratch copies), instantiates
the real form classes and maps each Field's function object back to its AST
node in the parsed source file.

Dropped by extraction: comments and docstrings (the AST has no comments;
docstrings are expression statements that the executor skips). Nothing else.
"""
import ast
import functools
import importlib
import inspect
import os
import sys
import types

REPO = os.environ.get('VERIF_REPO', '/repo')


def setup_path():
    sys.dont_write_bytecode = True
    if REPO not in sys.path:
        sys.path.insert(0, REPO)
    # refuse to silently import another habutax
    import habutax  # noqa
    got = os.path.dirname(os.path.dirname(os.path.abspath(habutax.__file__)))
    if os.path.realpath(got) != os.path.realpath(REPO):
        raise RuntimeError(f'habutax imported from {got}, expected {REPO}')


YEARS = (2021, 2022, 2023)


@functools.lru_cache(maxsize=None)
def parsed(path):
    with open(path) as f:
        src = f.read()
    tree = ast.parse(src, filename=path)
    index = {}
    for node in ast.walk(tree):
        if isinstance(node, (ast.Lambda, ast.FunctionDef)):
            index.setdefault(node.lineno, []).append(node)
    return src, tree, index


def func_ast(fn):
    """AST node (Lambda or FunctionDef) of a Python function object."""
    code = fn.__code__
    path = code.co_filename
    src, tree, index = parsed(path)
    cands = index.get(code.co_firstlineno, [])
    if isinstance(fn, types.FunctionType) and fn.__name__ != '<lambda>':
        cands = [c for c in cands if isinstance(c, ast.FunctionDef) and c.name == fn.__name__]
    else:
        cands = [c for c in cands if isinstance(c, ast.Lambda)]
    if len(cands) == 1:
        return cands[0]
    if not cands:
        raise LookupError(f'no AST node for {fn} at {path}:{code.co_firstlineno}')
    # several lambdas on one line: disambiguate by column of first instruction
    cols = set()
    for pos in code.co_positions():
        if pos[0] is not None and pos[2] is not None:
            cols.add((pos[0], pos[2]))
    best = []
    for c in cands:
        body = c.body
        # all instruction positions must lie within the lambda body span
        ok = all((c.lineno, c.col_offset) <= (l, col) for (l, col) in cols
                 if l == c.lineno) and any(
            (l, col) == (body.lineno, body.col_offset) or
            (body.lineno, body.col_offset) <= (l, col) <= (body.end_lineno, body.end_col_offset)
            for (l, col) in cols)
        inside = all((body.lineno, body.col_offset) <= (l, col) <= (body.end_lineno, body.end_col_offset)
                     for (l, col) in cols)
        if inside:
            best.append(c)
    if len(best) == 1:
        return best[0]
    # choose the innermost (smallest span) that contains everything
    if best:
        best.sort(key=lambda c: (c.end_lineno - c.lineno, c.end_col_offset - c.col_offset))
        return best[0]
    raise LookupError(f'ambiguous AST node for {fn} at {path}:{code.co_firstlineno}')


def free_names(fn):
    """Mapping of free/global names of fn to the real objects."""
    env = {}
    code = fn.__code__
    if fn.__closure__:
        for name, cell in zip(code.co_freevars, fn.__closure__):
            try:
                env[name] = cell.cell_contents
            except ValueError:
                pass
    return env


def resolve_name(fn, name):
    env = free_names(fn)
    if name in env:
        return True, env[name]
    if name in fn.__globals__:
        return True, fn.__globals__[name]
    import builtins
    if hasattr(builtins, name):
        return True, getattr(builtins, name)
    return False, None


class FakeSolver(object):
    """Stands for the Solver in Form.solver(): gives s.form(name) a forms map."""
    def __init__(self):
        self.forms = {}


def form_classes(year):
    setup_path()
    from habutax import forms
    return list(forms.available_forms[year])


def instances_of(cls):
    """Allowed instances of a form class. Numbered input forms get '0'."""
    if hasattr(cls, 'valid_instances'):
        return list(cls.valid_instances)
    return [None]


NUMBERED = ('w-2', '1098', '1099-g', '1099-int', '1099-div', '1099-r', '1099-oid')


def instantiate(cls, instance=None, solver=None):
    return cls(instance=instance, solver=solver)


@functools.lru_cache(maxsize=None)
def catalogue(year):
    """All instantiated forms of a year: name -> form; numbered forms as ':0'.
    Returns (forms dict, errors list)."""
    setup_path()
    out = {}
    errors = []
    fs = FakeSolver()
    for cls in form_classes(year):
        insts = instances_of(cls)
        if cls.form_name in NUMBERED and insts == [None]:
            insts = ['0']
        for inst in insts:
            try:
                f = cls(instance=inst, solver=fs)
                out[f.name()] = f
            except Exception as e:  # reported by C17
                errors.append((cls.form_name, inst, repr(e)))
    fs.forms = out
    return out, errors


def line_function(field):
    v = getattr(field, '_value', None)
    if v is None:
        return None
    return getattr(v, '__func__', v)


def all_lines(year):
    forms, _ = catalogue(year)
    for fname, f in forms.items():
        for fld in f.fields():
            yield f, fld
