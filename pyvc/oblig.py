"""Obligations, runner, evidence, known findings, replay files.

Exit codes (DESIGN 2.4): 0 all discharged (or refuted only by listed known
findings); 1 an obligation is refuted (VIOLATION line); 2 undecided; 3 checker
error.
"""
import dataclasses
import fnmatch
import hashlib
import json
import multiprocessing
import os
import sys
import time
import traceback

VERIF = os.path.dirname(os.path.dirname(os.path.abspath(__file__)))
REPO = os.environ.get('VERIF_REPO', '/repo')
EVIDENCE_DIR = os.environ.get('VERIF_EVIDENCE_DIR', os.path.join(VERIF, 'evidence'))
REPLAY_DIR = os.environ.get('VERIF_REPLAY_DIR', os.path.join(VERIF, 'replays'))
FINDINGS_FILE = os.path.join(VERIF, 'known_findings.json')

DISCHARGED, REFUTED, UNDECIDED, ERROR = 'discharged', 'refuted', 'undecided', 'error'


@dataclasses.dataclass
class Ob:
    """Result of one obligation."""
    id: str
    status: str = DISCHARGED
    backend: str = 'z3'
    time_s: float = 0.0
    function: str = ''          # function under contract
    clause: str = ''            # human-readable statement of the clause
    vc: str = ''                # VC text (possibly truncated)
    solver_output: str = ''     # solver verdict / reason
    witness: dict = None        # model / concrete failing input
    replay: dict = None         # native replay result {'reproduced': bool, ...}
    replay_spec: dict = None    # how to replay: {'kind': ..., args}
    bounded: bool = False       # a bounded stand-in, never counted as discharged
    cases: int = 0              # for bounded: number of cases run
    note: str = ''

    def short(self):
        d = dataclasses.asdict(self)
        d['vc'] = d['vc'][:600]
        return d


class Task:
    """A unit of work producing a list of Ob. `fn` is called in a worker."""
    def __init__(self, name, fn, *args, weight=1):
        self.name, self.fn, self.args, self.weight = name, fn, args, weight


_TASKS = []


def _run_task(ix):
    t = _TASKS[ix]
    t0 = time.time()
    try:
        res = t.fn(*t.args)
        if isinstance(res, Ob):
            res = [res]
        res = list(res)
        return res
    except Exception:
        return [Ob(id=f'{t.name}/checker-error', status=ERROR, backend='none',
                   time_s=time.time() - t0, solver_output=traceback.format_exc()[-3000:])]


def run_tasks(tasks, jobs=None):
    """Run tasks in a fork pool; returns flat list of Ob."""
    global _TASKS
    _TASKS = tasks
    jobs = jobs or int(os.environ.get('VERIF_JOBS', '16'))
    if jobs <= 1 or len(tasks) <= 1:
        out = []
        for ix in range(len(tasks)):
            out.extend(_run_task(ix))
        return out
    import concurrent.futures
    ctx = multiprocessing.get_context('fork')
    order = sorted(range(len(tasks)), key=lambda ix: -tasks[ix].weight)
    # ProcessPoolExecutor workers are not daemonic, so a task may use a pool of its own
    with concurrent.futures.ProcessPoolExecutor(max_workers=min(jobs, len(tasks)), mp_context=ctx) as pool:
        res = list(pool.map(_run_task, order, chunksize=1))
    out = []
    for r in res:
        out.extend(r)
    return out


def load_findings():
    if not os.path.exists(FINDINGS_FILE):
        return {'findings': [], 'fixed': []}
    with open(FINDINGS_FILE) as f:
        return json.load(f)


def finding_for(ob, prop, findings):
    for f in findings.get('findings', []):
        if f.get('property') != prop:
            continue
        pat = f.get('obligation')
        if pat == ob.id or (f.get('glob') and fnmatch.fnmatchcase(ob.id, pat)):
            return f
    return None


def write_replay(prop, ob):
    os.makedirs(REPLAY_DIR, exist_ok=True)
    h = hashlib.sha1(ob.id.encode()).hexdigest()[:10]
    path = os.path.join(REPLAY_DIR, f'{prop}-{h}.json')
    data = {
        'property': prop,
        'obligation': ob.id,
        'function': ob.function,
        'clause': ob.clause,
        'backend': ob.backend,
        'solver_output': ob.solver_output,
        'vc': ob.vc[:20000],
        'witness': ob.witness,
        'replay_spec': ob.replay_spec,
        'native_replay': ob.replay,
        'repo': REPO,
    }
    with open(path, 'w') as f:
        json.dump(data, f, indent=1, default=str)
    return path


BASELINE_FILE = os.path.join(VERIF, 'baseline_obligations.json')


def norm_id(oid):
    import re
    return re.sub(r'[#@]\d+', '#', oid)


def apply_baseline(prop, obs):
    """Obligations discharged on the pinned tree (committed baseline) that were not generated on this tree
    are added as undecided: a check must not pass because obligations silently disappeared."""
    if os.environ.get('VERIF_WRITE_BASELINE') == '1':
        return obs
    if not os.path.exists(BASELINE_FILE):
        return obs
    with open(BASELINE_FILE) as f:
        base = json.load(f).get(prop)
    if not base:
        return obs
    have = {norm_id(o.id) for o in obs}
    out = list(obs)
    # a unit reported as outside the verified subset already accounts for all of its obligations: one line, not one per obligation
    outside = [o.id[:-len('subset')] for o in obs if o.id.endswith('/subset') and o.status != DISCHARGED]
    for b in base:
        if b not in have and not any(b.startswith(pre) for pre in outside):
            out.append(Ob(id=b, status=UNDECIDED, backend='none', clause='obligation of the committed baseline was not generated on this tree',
                          solver_output='not generated: the function left the shape its contract was written for, or a path under contract no longer exists'))
    return out


def write_baseline(prop, obs):
    data = {}
    if os.path.exists(BASELINE_FILE):
        with open(BASELINE_FILE) as f:
            data = json.load(f)
    data[prop] = sorted({norm_id(o.id) for o in obs if o.status == DISCHARGED and not o.bounded})
    with open(BASELINE_FILE, 'w') as f:
        json.dump(data, f, indent=0)


BASELINED = ('C01', 'C03', 'C04', 'C06', 'C11', 'C12', 'C13', 'C14', 'C19', 'C20', 'C05')


def finish(prop, tier, seed, obs, t0, *, functions, trusted_base, assumptions,
           checker_cmd, min_obligations=1, extra=None, level='proof', explanation=None):
    """Classify results, print verdict lines, write evidence, return exit code."""
    if prop in BASELINED:
        if os.environ.get('VERIF_WRITE_BASELINE') == '1':
            write_baseline(prop, obs)
        else:
            obs = apply_baseline(prop, obs)
    findings = load_findings()
    proved = [o for o in obs if o.status == DISCHARGED and not o.bounded]
    bounded = [o for o in obs if o.bounded]
    refuted = [o for o in obs if o.status == REFUTED]
    undec = [o for o in obs if o.status == UNDECIDED]
    errors = [o for o in obs if o.status == ERROR]

    known, new = [], []
    for o in refuted:
        f = finding_for(o, prop, findings)
        (known if f else new).append((o, f))

    code = 0
    lines = []
    for o, f in known:
        lines.append(f'KNOWN-FINDING: property={prop} {f.get("what", o.id)} [{o.id}]')
    # a listed finding that no longer reproduces is only reported (suppresses nothing)
    listed = [f for f in findings.get('findings', []) if f.get('property') == prop]
    hit = {id(f) for _, f in known}
    stale = [f for f in listed if id(f) not in hit]
    for f in stale:
        lines.append(f'NOTE: listed finding no longer reproduces: {f.get("obligation")}')
    for o, _ in new:
        path = write_replay(prop, o)
        suffix = ''
        if not (o.replay and o.replay.get('reproduced')):
            suffix = ' no-failing-input-found'
        lines.append(f'VIOLATION property={prop} replay={path}{suffix}')
        lines.append(f'  obligation {o.id}: {o.clause[:300]}')
        if o.witness:
            lines.append(f'  witness: {json.dumps(o.witness, default=str)[:500]}')
        if o.replay:
            lines.append(f'  native replay: {json.dumps(o.replay, default=str)[:500]}')
        code = 1
    if errors:
        for o in errors[:10]:
            lines.append(f'CHECKER-ERROR {o.id}: {o.solver_output[-1500:]}')
        code = max(code, 3) if code != 1 else 1
    if undec and code == 0:
        for o in undec[:20]:
            lines.append(f'UNDECIDED {o.id}: {o.solver_output[:200]}')
        code = 2
    n_claimed = len(proved) + len(undec) + len(new) + len(errors)
    if len(proved) < min_obligations and code == 0:
        lines.append(f'CHECKER-ERROR {prop}: only {len(proved)} obligations discharged, expected at least {min_obligations} (vacuity guard)')
        code = 3

    by_backend = {}
    for o in proved:
        by_backend[o.backend] = by_backend.get(o.backend, 0) + 1
    solver_time = round(sum(o.time_s for o in obs), 3)

    def sample(o):
        return {'id': o.id, 'function': o.function, 'clause': o.clause[:400], 'backend': o.backend,
                'status': o.status, 'vc': o.vc[:500], 'time_s': round(o.time_s, 4)}
    samples = [sample(o) for o in (proved[:3] + proved[len(proved) // 2:len(proved) // 2 + 2] + proved[-2:])]
    if not samples:
        samples = [sample(o) for o in obs[:3]]

    cov = {
        'obligations': n_claimed,
        'discharged': len(proved),
        'checker_cmd': checker_cmd,
        'trusted_base': trusted_base,
        'functions_under_contract': sorted(functions),
        'by_backend': by_backend,
        'solver_time_s': solver_time,
        'undecided': [o.id for o in undec][:200],
        'refuted_known_findings': [{'obligation': o.id, 'what': f.get('what')} for o, f in known],
        'refuted_new': [o.id for o, _ in new][:200],
        'checker_errors': [o.id for o in errors][:50],
        'bounded': [{'id': o.id, 'status': o.status, 'cases': o.cases, 'note': o.note, 'function': o.function}
                    for o in bounded],
        'samples': samples,
        'explanation': explanation or (
            'obligations = generated obligations minus those refuted by a listed known finding '
            '(listed separately under refuted_known_findings); discharged = obligations the back end proved. '
            'Bounded stand-ins are listed under "bounded" and are never counted in either number.'),
    }
    if extra:
        cov.update(extra)
    ev = {
        'property_id': prop,
        'tier': tier,
        'seed': seed,
        'level': level,
        'coverage': cov,
        'assumptions': assumptions,
        'wall_s': round(time.time() - t0, 2),
        'violations': len(new),
    }
    os.makedirs(EVIDENCE_DIR, exist_ok=True)
    with open(os.path.join(EVIDENCE_DIR, f'{prop}.json'), 'w') as f:
        json.dump(ev, f, indent=1, default=str)
    for l in lines:
        print(l)
    print(f'{prop}: obligations={n_claimed} discharged={len(proved)} known-findings={len(known)} '
          f'new-refuted={len(new)} undecided={len(undec)} errors={len(errors)} bounded={len(bounded)} '
          f'wall={ev["wall_s"]}s exit={code}')
    sys.stdout.flush()
    return code
