"""Symbolic executor for the Python subset used by habutax (DESIGN 2.2).

Decision-oracle re-execution: a run follows one path; at a branch on a
symbolic condition the oracle decides, feasibility is asked from z3, and the
untaken alternative is queued.  Everything concrete is evaluated by CPython on
the real objects (partial evaluation), everything symbolic becomes a z3 term.

Python values: concrete Python objects, or
  SV(kind, term)           kind in int, real, bool, str, enum
  PatStr(parts)            string made of concrete pieces and symbolic ints
  lists / tuples / dicts   concrete containers of the above
A-REAL: Python floats are reals; a float literal denotes its decimal text.
"""
import ast
import builtins
import enum as _enum
import fractions
import math
import types

import z3

from . import extract


def has_sym(obj, name):
    """abstract-value protocol lookup on the class (never triggers an instance __getattr__)"""
    return getattr(type(obj), name, None) is not None


_SITE_CACHE = {}


class Unsupported(Exception):
    """Construct outside the subset: the function is reported out of reach."""


class Raised(Exception):
    """The interpreted program raised `exc` (a real exception instance)."""
    def __init__(self, exc, node=None):
        self.exc = exc
        self.node = node
        super().__init__(repr(exc))


class Infeasible(Exception):
    pass


class _Return(Exception):
    def __init__(self, v):
        self.v = v


class _Break(Exception):
    pass


class _Continue(Exception):
    pass


class SV(object):
    __slots__ = ('kind', 't', 'cls')

    def __init__(self, kind, t, cls=None):
        self.kind, self.t, self.cls = kind, t, cls

    def __repr__(self):
        return f'SV({self.kind},{self.t})'


class PatStr(object):
    """String built from concrete pieces and symbolic Int pieces."""
    def __init__(self, parts):
        out = []
        for p in parts:
            if isinstance(p, str) and out and isinstance(out[-1], str):
                out[-1] += p
            elif isinstance(p, str) and p == '':
                continue
            else:
                out.append(p)
        self.parts = out

    def __repr__(self):
        return 'PatStr(' + ''.join(p if isinstance(p, str) else '{' + str(p.t) + '}' for p in self.parts) + ')'


# ---------------------------------------------------------------- enum sorts
_ENUM_SORTS = {}


def enum_sort(cls):
    """z3 datatype for an Enum class: its members plus NONE."""
    key = id(cls)
    if key not in _ENUM_SORTS:
        names = list(cls.__members__.keys())
        sname = 'E_' + ''.join(ch if ch.isalnum() else '_' for ch in cls.__name__) + f'_{len(_ENUM_SORTS)}'
        sort, consts = z3.EnumSort(sname, [f'{sname}.{n}' for n in names] + [f'{sname}.NONE'])
        _ENUM_SORTS[key] = (sort, dict(zip(names, consts[:-1])), consts[-1], cls)
    return _ENUM_SORTS[key]


def enum_term(member):
    sort, consts, none, cls = enum_sort(type(member))
    return consts[member.name]


def real_of(x):
    if isinstance(x, bool):
        return z3.RealVal(1 if x else 0)
    if isinstance(x, int):
        return z3.RealVal(x)
    if isinstance(x, float):
        if x != x or x in (float('inf'), float('-inf')):
            raise Unsupported('non-finite float constant')
        return z3.RealVal(str(fractions.Fraction(repr(x))))
    if isinstance(x, fractions.Fraction):
        return z3.RealVal(str(x))
    raise Unsupported(f'real_of {x!r}')


def is_sym(x):
    if isinstance(x, (SV, PatStr)):
        return True
    if isinstance(x, (list, tuple)):
        return any(is_sym(e) for e in x)
    if isinstance(x, dict):
        return any(is_sym(e) for e in x.values())
    return bool(getattr(x, '_pyvc_symbolic', False))


def kind_of(x):
    if isinstance(x, SV):
        return x.kind
    if isinstance(x, bool):
        return 'bool'
    if isinstance(x, int):
        return 'int'
    if isinstance(x, float):
        return 'real'
    if isinstance(x, str):
        return 'str'
    if x is None:
        return 'none'
    if isinstance(x, _enum.Enum):
        return 'enum'
    if isinstance(x, PatStr):
        return 'str'
    return 'obj'


def pytype_name(x):
    """Python type name a value would have at run time (for C12)."""
    k = kind_of(x)
    return {'real': 'float'}.get(k, k)


def term(x, want=None):
    """z3 term of a value, optionally coerced to a numeric kind."""
    if isinstance(x, SV):
        t, k = x.t, x.kind
    elif isinstance(x, bool):
        t, k = z3.BoolVal(x), 'bool'
    elif isinstance(x, int):
        t, k = z3.IntVal(x), 'int'
    elif isinstance(x, float):
        t, k = real_of(x), 'real'
    elif isinstance(x, str):
        t, k = z3.StringVal(x), 'str'
    elif isinstance(x, _enum.Enum):
        t, k = enum_term(x), 'enum'
    else:
        raise Unsupported(f'no term for {type(x).__name__}')
    if want is None or want == k:
        return t
    if want == 'int' and k == 'bool':
        return z3.If(t, z3.IntVal(1), z3.IntVal(0))
    if want == 'real' and k == 'bool':
        return z3.If(t, z3.RealVal(1), z3.RealVal(0))
    if want == 'real' and k == 'int':
        return z3.ToReal(t)
    raise Unsupported(f'coerce {k} to {want}')


NUM = ('bool', 'int', 'real')


def num_join(a, b):
    ka, kb = kind_of(a), kind_of(b)
    if ka not in NUM or kb not in NUM:
        return None
    if 'real' in (ka, kb):
        return 'real'
    return 'int'


class Path(object):
    def __init__(self):
        self.conds = []       # z3 Bool terms
        self.decisions = []   # (node position, bool) for stable path ids
        self.reads = []       # (kind 'i'|'v', fullname, indexed bool)
        self.outcome = None   # ('return', value) | ('raise', exc) | ('unsupported', msg)
        self.facts = []       # extra hypotheses (contracts of reads, sigma instances)
        self.notes = []       # diagnostics (e.g. cross-class enum comparison)
        self.inlined = []

    def sig(self):
        return ''.join(f'{p}{"T" if d else "F"}' for p, d in self.decisions)


class Explorer(object):
    """Runs a thunk along all feasible paths."""
    def __init__(self, feas_timeout_ms=1500, max_paths=4000, feas_skip_quant=False):
        self.feas_timeout_ms = feas_timeout_ms
        self.max_paths = max_paths
        self.feas_skip_quant = feas_skip_quant

    def explore(self, thunk, base_conds=(), base_facts=()):
        pending = [[]]
        paths = []
        while pending:
            prefix = pending.pop()
            run = Run(self, prefix, pending, base_conds, base_facts)
            try:
                v = thunk(run)
                run.path.outcome = ('return', v)
            except Raised as r:
                run.path.outcome = ('raise', r.exc)
            except Infeasible:
                continue
            except Unsupported as u:
                run.path.outcome = ('unsupported', str(u))
            paths.append(run.path)
            if len(paths) > self.max_paths:
                p = Path()
                p.outcome = ('unsupported', f'more than {self.max_paths} paths')
                paths.append(p)
                break
        return paths


class Run(object):
    def __init__(self, explorer, prefix, pending, base_conds=(), base_facts=()):
        self.explorer = explorer
        self.prefix = list(prefix)
        self.pos = 0
        self.pending = pending
        self.path = Path()
        self.path.conds = list(base_conds)
        self.path.facts = list(base_facts)
        self.solver = None

    def _feasible(self, extra):
        s = z3.Solver()
        s.set('timeout', self.explorer.feas_timeout_ms)
        for c in self.path.conds:
            s.add(c)
        for c in self.path.facts:
            if self.explorer.feas_skip_quant and z3.is_quantifier(c):
                continue
            s.add(c)
        s.add(extra)
        return s.check() != z3.unsat

    def branch(self, c, where=''):
        """Decide a symbolic condition (z3 Bool) on this run."""
        c = z3.simplify(c)
        if z3.is_true(c):
            return True
        if z3.is_false(c):
            return False
        if self.pos < len(self.prefix):
            d = self.prefix[self.pos]
        else:
            can_t = self._feasible(c)
            can_f = self._feasible(z3.Not(c))
            if can_t and can_f:
                self.pending.append(self.prefix + [False])
                d = True
            elif can_t:
                d = True
            elif can_f:
                d = False
            else:
                raise Infeasible()
            self.prefix.append(d)
        self.pos += 1
        self.path.conds.append(c if d else z3.Not(c))
        self.path.decisions.append((where, d))
        return d

    def assume(self, c):
        self.path.conds.append(c)

    def fact(self, c):
        self.path.facts.append(c)


# ------------------------------------------------------------------ sigma
class SigmaRegistry(object):
    """Canonical uninterpreted prefix-sum functions S(k) = sum_{j<k} delta(j)."""
    def __init__(self):
        self.by_key = {}

    def get(self, delta_term, kind, nvar):
        key = (delta_term.sexpr(), kind)
        if key not in self.by_key:
            ix = len(self.by_key)
            rng = z3.RealSort() if kind == 'real' else z3.IntSort()
            f = z3.Function(f'Sigma{ix}', z3.IntSort(), rng)
            self.by_key[key] = {'f': f, 'delta': delta_term, 'kind': kind, 'nvar': nvar, 'ix': ix}
        return self.by_key[key]


SIGMA = SigmaRegistry()
NVAR = z3.Int('_n')   # canonical bound variable of range loops / comprehensions


def sigma_facts(entry, bound):
    """Ground instances of the defining axioms at `bound` (no quantifiers)."""
    f = entry['f']
    zero = z3.RealVal(0) if entry['kind'] == 'real' else z3.IntVal(0)
    facts = [z3.Implies(bound <= 0, f(bound) == zero)]
    d = entry['delta']
    # S(1) = delta(0); S(k) unfolds one step at the bound
    facts.append(z3.Implies(bound >= 1, f(bound) == f(bound - 1) + z3.substitute(d, (NVAR, bound - 1))))
    facts.append(f(z3.IntVal(0)) == zero)
    return facts


# --------------------------------------------------------------- interpreter
class Closure(object):
    """A function defined inside interpreted code."""
    def __init__(self, node, env, fn_globals, name):
        self.node, self.env, self.fn_globals, self.name = node, env, fn_globals, name


class Interp(object):
    """Interpreter for one run. Front ends subclass and override hooks."""

    def __init__(self, run):
        self.run = run
        self.depth = 0

    # ---- hooks
    def call_hook(self, f, args, kwargs, node):
        return NotImplemented

    def getitem_hook(self, obj, key, node):
        return NotImplemented

    def getattr_hook(self, obj, attr, node):
        return NotImplemented

    def fork(self, run):
        import copy
        c = copy.copy(self)
        c.run = run
        return c

    def site(self, node):
        """Stable, line-number-free label of an AST node: <function>.<NodeType>#<ordinal in source order>."""
        fn = self.fn_stack[-1] if getattr(self, 'fn_stack', None) else None
        if fn is None:
            return f'{type(node).__name__}'
        key = id(fn)
        cache = _SITE_CACHE.setdefault(key, {})
        if not cache:
            fnode = extract.func_ast(fn)
            by = {}
            for n in sorted([n for n in ast.walk(fnode) if hasattr(n, 'lineno')], key=lambda n: (n.lineno, n.col_offset, type(n).__name__)):
                t = type(n).__name__
                by[t] = by.get(t, 0) + 1
                cache[(t, n.lineno, n.col_offset)] = by[t] - 1
        ix = cache.get((type(node).__name__, node.lineno, node.col_offset))
        return f'{fn.__name__}.{type(node).__name__}#{ix}'

    def repo_function(self, f):
        code = getattr(f, '__code__', None)
        return code is not None and code.co_filename.startswith(extract.REPO)

    # ---- entry
    def call_function(self, fn, args, kwargs=None, node=None):
        """Interpret a real Python function object on (possibly symbolic) args."""
        kwargs = kwargs or {}
        fnode = extract.func_ast(fn)
        env = {}
        # closure / globals resolution is lazy through lookup()
        a = fnode.args
        params = [p.arg for p in a.posonlyargs + a.args]
        defaults = fn.__defaults__ or ()
        bound = {}
        if len(args) > len(params):
            raise Raised(TypeError(f'{fn.__name__}() takes {len(params)} positional arguments but {len(args)} were given'), node)
        for p, v in zip(params, args):
            bound[p] = v
        for k, v in kwargs.items():
            if k not in params and k not in [p.arg for p in a.kwonlyargs]:
                raise Raised(TypeError(f'{fn.__name__}() got an unexpected keyword argument {k!r}'), node)
            bound[k] = v
        for p, d in zip(params[len(params) - len(defaults):], defaults):
            bound.setdefault(p, d)
        if fn.__kwdefaults__:
            for k, d in fn.__kwdefaults__.items():
                bound.setdefault(k, d)
        for p in params:
            if p not in bound:
                raise Raised(TypeError(f'{fn.__name__}() missing required argument {p!r}'), node)
        frame = Frame(bound, fn)
        if not hasattr(self, 'fn_stack'):
            self.fn_stack = []
        self.fn_stack.append(fn)
        try:
            self.run.path.inlined.append(f'{fn.__code__.co_filename.split("/")[-1]}:{fn.__name__}:{fnode.lineno}')
            return self.exec_function_body(fnode, frame)
        finally:
            self.fn_stack.pop()
        self.run.path.inlined.append(f'{fn.__code__.co_filename.split("/")[-1]}:{fn.__name__}:{fnode.lineno}')
        return self.exec_function_body(fnode, frame)

    def exec_function_body(self, fnode, frame):
        self.depth += 1
        if self.depth > 40:
            raise Unsupported('interpreted call depth > 40')
        try:
            if isinstance(fnode, ast.Lambda):
                return self.eval(fnode.body, frame)
            try:
                self.exec_block(fnode.body, frame)
            except _Return as r:
                return r.v
            return None
        finally:
            self.depth -= 1

    # ---- statements
    def exec_block(self, stmts, frame):
        for s in stmts:
            self.exec_stmt(s, frame)

    def exec_stmt(self, s, frame):
        m = getattr(self, 'stmt_' + type(s).__name__, None)
        if m is None:
            raise Unsupported(f'statement {type(s).__name__} at line {s.lineno}')
        return m(s, frame)

    def stmt_Expr(self, s, frame):
        if isinstance(s.value, ast.Constant):
            return  # docstring
        self.eval(s.value, frame)

    def stmt_Pass(self, s, frame):
        pass

    def stmt_Return(self, s, frame):
        raise _Return(self.eval(s.value, frame) if s.value is not None else None)

    def stmt_Break(self, s, frame):
        raise _Break()

    def stmt_Continue(self, s, frame):
        raise _Continue()

    def assign(self, target, v, frame):
        if isinstance(target, ast.Name):
            frame.locals[target.id] = v
        elif isinstance(target, (ast.Tuple, ast.List)):
            if not isinstance(v, (tuple, list)) or len(v) != len(target.elts):
                raise Unsupported('tuple assignment of non-tuple')
            for t, e in zip(target.elts, v):
                self.assign(t, e, frame)
        elif isinstance(target, ast.Subscript):
            obj = self.eval(target.value, frame)
            key = self.eval(target.slice, frame)
            self.setitem(obj, key, v, target)
        elif isinstance(target, ast.Attribute):
            obj = self.eval(target.value, frame)
            self.setattr(obj, target.attr, v, target)
        else:
            raise Unsupported(f'assignment target {type(target).__name__}')

    def setitem(self, obj, key, v, node):
        if has_sym(obj, 'sym_setitem'):
            return obj.sym_setitem(self, key, v, node)
        if isinstance(obj, (list, dict)) and not is_sym(key):
            obj[key] = v
            return
        raise Unsupported('subscript store on symbolic container')

    def setattr(self, obj, attr, v, node):
        raise Unsupported(f'attribute store .{attr} (line {node.lineno})')

    def stmt_Assign(self, s, frame):
        v = self.eval(s.value, frame)
        for t in s.targets:
            self.assign(t, v, frame)

    def stmt_AugAssign(self, s, frame):
        if isinstance(s.target, ast.Name):
            cur = self.lookup(s.target.id, frame, s)
        else:
            cur = self.eval(s.target, frame)
        v = self.binop(s.op, cur, self.eval(s.value, frame), s)
        self.assign(s.target, v, frame)

    def stmt_If(self, s, frame):
        if self.truth(self.eval(s.test, frame), s.test):
            self.exec_block(s.body, frame)
        else:
            self.exec_block(s.orelse, frame)

    def stmt_Assert(self, s, frame):
        if not self.truth(self.eval(s.test, frame), s.test):
            msg = self.eval(s.msg, frame) if s.msg is not None else None
            raise Raised(AssertionError(str(msg) if msg is not None and not is_sym(msg) else 'assert'), s)

    def stmt_Raise(self, s, frame):
        if s.exc is None:
            raise Unsupported('bare raise')
        e = self.eval(s.exc, frame)
        if isinstance(e, type) and issubclass(e, BaseException):
            e = e()
        if not isinstance(e, BaseException):
            raise Unsupported('raise of non-exception')
        raise Raised(e, s)

    def stmt_Delete(self, s, frame):
        for t in s.targets:
            if isinstance(t, ast.Subscript):
                obj = self.eval(t.value, frame)
                key = self.eval(t.slice, frame)
                if has_sym(obj, 'sym_delitem'):
                    obj.sym_delitem(self, key, t)
                elif not is_sym(key) and isinstance(obj, (dict, list)):
                    try:
                        del obj[key]
                    except Exception as ex:
                        raise Raised(ex, s)
                else:
                    raise Unsupported('del on symbolic container')
            elif isinstance(t, ast.Name):
                frame.locals.pop(t.id, None)
            else:
                raise Unsupported('del target')

    def stmt_FunctionDef(self, s, frame):
        frame.locals[s.name] = Closure(s, frame, None, s.name)

    def stmt_ClassDef(self, s, frame):
        # a helper class defined inside a function: built natively (its methods are not interpreted)
        ns = {}
        mod = ast.Module(body=[s], type_ignores=[])
        ast.fix_missing_locations(mod)
        exec(compile(mod, '<class-in-function>', 'exec'), {}, ns)
        frame.locals[s.name] = ns[s.name]

    def stmt_With(self, s, frame):
        for item in s.items:
            ctx = self.eval(item.context_expr, frame)
            v = self.enter_context(ctx, item)
            if item.optional_vars is not None:
                self.assign(item.optional_vars, v, frame)
        self.exec_block(s.body, frame)

    def enter_context(self, ctx, item):
        raise Unsupported('with statement on a non-modelled context manager')

    def stmt_Try(self, s, frame):
        try:
            try:
                self.exec_block(s.body, frame)
            except Raised as r:
                for h in s.handlers:
                    if h.type is None:
                        match = True
                    else:
                        cls = self.eval(h.type, frame)
                        match = isinstance(r.exc, cls)
                    if match:
                        if h.name:
                            frame.locals[h.name] = r.exc
                        self.exec_block(h.body, frame)
                        break
                else:
                    raise
            else:
                self.exec_block(s.orelse, frame)
        finally:
            if s.finalbody:
                self.exec_block(s.finalbody, frame)

    def has_loop_contract(self, s):
        return False

    def stmt_While(self, s, frame):
        n = 0
        if self.has_loop_contract(s):
            return self.symbolic_while(s, frame, None)
        while True:
            c = self.eval(s.test, frame)
            if is_sym(c):
                return self.symbolic_while(s, frame, c)
            if not c:
                break
            n += 1
            if n > 100000:
                raise Unsupported('while: too many iterations')
            try:
                self.exec_block(s.body, frame)
            except _Break:
                return
            except _Continue:
                continue
        self.exec_block(s.orelse, frame)

    def symbolic_while(self, s, frame, first_cond):
        raise Unsupported('while with symbolic condition needs an invariant')

    def stmt_For(self, s, frame):
        it = s.iter
        # range(N) with symbolic N -> loop summarisation
        if isinstance(it, ast.Call) and isinstance(it.func, ast.Name) and it.func.id == 'range' \
                and self.lookup('range', frame, it) is builtins.range and len(it.args) == 1:
            n = self.eval(it.args[0], frame)
            if isinstance(n, SV):
                return self.sym_range_loop(s, n, frame)
            seq = range(n)
        else:
            seq = self.eval(it, frame)
            if has_sym(seq, 'sym_iter'):
                return seq.sym_iter(self, s, frame)
            if isinstance(seq, SV) and seq.kind == 'str':
                # for c in <string>: desugared to an index loop with c = s[k]
                return self.sym_range_loop(s, SV('int', z3.Length(seq.t)), frame, elem=lambda ix: SV('str', z3.SubString(seq.t, ix, 1)))
            if isinstance(seq, SV) or isinstance(seq, PatStr):
                raise Unsupported('iteration over symbolic value')
        hook = self.concrete_loop_hook(s, seq, frame)
        if hook is not NotImplemented:
            return hook
        try:
            seq = list(seq)
        except TypeError:
            raise Unsupported('iteration over non-iterable')
        for x in seq:
            self.assign(s.target, x, frame)
            try:
                self.exec_block(s.body, frame)
            except _Break:
                return
            except _Continue:
                continue
        self.exec_block(s.orelse, frame)

    def concrete_loop_hook(self, s, seq, frame):
        return NotImplemented

    # ---- loop summarisation over range(N), N symbolic
    def _assigned_names(self, stmts):
        out = []
        for st in stmts:
            for n in ast.walk(st):
                if isinstance(n, (ast.Assign, ast.AugAssign)):
                    tg = n.targets if isinstance(n, ast.Assign) else [n.target]
                    for t in tg:
                        for e in ast.walk(t):
                            if isinstance(e, ast.Name) and e.id not in out:
                                out.append(e.id)
        return out

    def sym_range_loop(self, s, N, frame, elem=None):
        if not isinstance(s.target, ast.Name):
            raise Unsupported('range loop with non-name target')
        if s.orelse:
            raise Unsupported('for-else')
        tname = s.target.id
        mod = [n for n in self._assigned_names(s.body) if n in frame.locals and n != tname]
        at = {}
        for n in mod:
            cur = frame.locals[n]
            k = kind_of(cur)
            if k not in ('int', 'real', 'bool'):
                raise Unsupported(f'loop-modified variable {n} of kind {k}')
            if k == 'bool':
                t = z3.Bool(f'{n}@loop')
            elif k == 'real':
                t = z3.Real(f'{n}@loop')
            else:
                t = z3.Int(f'{n}@loop')
            at[n] = SV(k, t)
        outer = self

        def body(run):
            sub = outer.fork(run)
            fr = Frame(dict(frame.locals), frame.fn, frame.parent)
            fr.locals[tname] = elem(NVAR) if elem is not None else SV('int', NVAR)
            for n in mod:
                fr.locals[n] = at[n]
            try:
                sub.exec_block(s.body, fr)
                return ('normal', fr)
            except _Continue:
                return ('normal', fr)
            except _Break:
                return ('break', fr)
            except _Return as r:
                return ('return', r.v)

        base = list(self.run.path.conds) + [NVAR >= 0, NVAR < N.t]
        paths = self.run.explorer.explore(body, base_conds=base, base_facts=self.run.path.facts)
        nb = len(base)
        deltas = {n: [] for n in mod}
        flagsets = {}
        exits = []
        for p in paths:
            cond = z3.And(*p.conds[nb:]) if len(p.conds) > nb else z3.BoolVal(True)
            for r in p.reads:
                if r not in self.run.path.reads:
                    self.run.path.reads.append(r)
            for nt in p.notes:
                self.run.path.notes.append(nt)
            kindo = p.outcome[0]
            if kindo == 'unsupported':
                raise Unsupported(p.outcome[1])
            if kindo == 'raise':
                exits.append((cond, 'raise', p.outcome[1], p))
            elif p.outcome[1][0] == 'return':
                exits.append((cond, 'return', p.outcome[1][1], p))
            elif p.outcome[1][0] == 'break':
                exits.append((cond, 'break', None, p))
            else:
                fr = p.outcome[1][1]
                for n in mod:
                    new = fr.locals[n]
                    k = at[n].kind
                    if k == 'bool':
                        if isinstance(new, SV) and new.t.sexpr() == at[n].t.sexpr():
                            continue
                        if isinstance(new, bool):
                            flagsets.setdefault(n, []).append((cond, new))
                            continue
                        raise Unsupported('boolean variable updated by a non-constant in symbolic range loop')
                    if kind_of(new) == 'real' and k == 'int':
                        raise Unsupported(f'accumulator {n} changes type int->float in loop')
                    d = z3.simplify(term(new, k) - at[n].t)
                    if at[n].t.sexpr() in d.sexpr():
                        raise Unsupported(f'loop update of {n} is not an accumulation')
                    deltas[n].append((cond, d))
        anyexit = z3.Or(*[c for c, _, _, _ in exits]) if exits else z3.BoolVal(False)
        entries = {}
        for n in mod:
            k = at[n].kind
            if k == 'bool':
                continue
            zero = z3.RealVal(0) if k == 'real' else z3.IntVal(0)
            d = zero
            for c, dd in deltas[n]:
                d = z3.If(c, dd, d)
            d = z3.simplify(d)
            entries[n] = SIGMA.get(d, k, NVAR)
        # exits: decide whether some iteration exits
        if exits:
            kk = z3.Int(f'_k{len(self.run.path.decisions)}')
            j = z3.Int('_j')
            noexit_before = z3.ForAll([j], z3.Implies(z3.And(j >= 0, j < kk), z3.Not(z3.substitute(anyexit, (NVAR, j)))))
            for ix, (c, kindo, payload, p) in enumerate(exits):
                ck = z3.substitute(c, (NVAR, kk))
                taken = z3.And(kk >= 0, kk < N.t, ck)
                if self.run.branch(taken, where=f'L{s.lineno}x{ix}'):
                    self.run.fact(noexit_before)
                    for n in mod:
                        if n not in entries:
                            continue
                        e = entries[n]
                        for f in sigma_facts(e, kk):
                            self.run.fact(f)
                    if kindo == 'raise':
                        raise Raised(payload, s)
                    if kindo == 'break':
                        # the loop stops at the first index k that breaks: accumulators hold the prefix sums up to k
                        self.run.path.notes.append(('loop-prefix-dependence', s.lineno, 'break'))
                        for n in mod:
                            if n in entries:
                                frame.locals[n] = SV(at[n].kind, term(frame.locals[n], at[n].kind) + entries[n]['f'](kk))
                        return None
                    v = payload
                    if isinstance(v, SV):
                        sub = [(NVAR, kk)] + [(at[n].t, term(frame.locals[n], at[n].kind) + entries[n]['f'](kk)) for n in mod if n in entries]
                        v2 = SV(v.kind, z3.substitute(v.t, *sub), v.cls)
                        if v2.t.sexpr() != v.t.sexpr():
                            self.run.path.notes.append(('loop-prefix-dependence', s.lineno, 'value returned from inside the loop depends on the index or on partial sums'))
                        v = v2
                    elif is_sym(v):
                        raise Unsupported('symbolic container returned from loop exit')
                    raise _Return(v)
            jj = z3.Int('_j')
            self.run.fact(z3.ForAll([jj], z3.Implies(z3.And(jj >= 0, jj < N.t), z3.Not(z3.substitute(anyexit, (NVAR, jj))))))
        for n in mod:
            k = at[n].kind
            if k == 'bool':
                sets = flagsets.get(n, [])
                if not sets:
                    continue
                vals = {v for _, v in sets}
                if len(vals) != 1:
                    raise Unsupported('flag set to different constants in symbolic range loop')
                anyset = z3.Or(*[c for c, _ in sets])
                kk = z3.Int(f'_k{len(self.run.path.decisions)}')
                j = z3.Int('_j')
                if self.run.branch(z3.And(kk >= 0, kk < N.t, z3.substitute(anyset, (NVAR, kk))), where=f'F{s.lineno}:{n}'):
                    frame.locals[n] = next(iter(vals))
                else:
                    self.run.fact(z3.ForAll([j], z3.Implies(z3.And(j >= 0, j < N.t), z3.Not(z3.substitute(anyset, (NVAR, j))))))
                continue
            e = entries[n]
            for f in sigma_facts(e, N.t):
                self.run.fact(f)
            frame.locals[n] = SV(k, term(frame.locals[n], k) + e['f'](N.t))

    def sum_comprehension(self, comp, frame, node):
        """sum(<elt> for n in range(N)) with symbolic N. Returns value or NotImplemented."""
        if len(comp.generators) != 1:
            return NotImplemented
        g = comp.generators[0]
        it = g.iter
        if not (isinstance(it, ast.Call) and isinstance(it.func, ast.Name) and it.func.id == 'range'
                and len(it.args) == 1 and isinstance(g.target, ast.Name)):
            return NotImplemented
        if self.lookup('range', frame, it) is not builtins.range:
            return NotImplemented
        N = self.eval(it.args[0], frame)
        if not isinstance(N, SV):
            return NotImplemented
        tname = g.target.id
        outer = self

        def body(run):
            sub = outer.fork(run)
            fr = Frame({tname: SV('int', NVAR)}, frame.fn, frame)
            for cnd in g.ifs:
                if not sub.truth(sub.eval(cnd, fr), cnd):
                    return 0
            return sub.eval(comp.elt, fr)

        base = list(self.run.path.conds) + [NVAR >= 0, NVAR < N.t]
        paths = self.run.explorer.explore(body, base_conds=base, base_facts=self.run.path.facts)
        nb = len(base)
        kind = 'int'
        items = []
        exits = []
        for p in paths:
            cond = z3.And(*p.conds[nb:]) if len(p.conds) > nb else z3.BoolVal(True)
            for r in p.reads:
                if r not in self.run.path.reads:
                    self.run.path.reads.append(r)
            for nt in p.notes:
                self.run.path.notes.append(nt)
            if p.outcome[0] == 'unsupported':
                raise Unsupported(p.outcome[1])
            if p.outcome[0] == 'raise':
                exits.append((cond, p.outcome[1]))
                continue
            v = p.outcome[1]
            k = kind_of(v)
            if k not in NUM:
                raise Raised(TypeError(f"unsupported operand type(s) for +: 'int' and '{pytype_name(v)}'"), node)
            if k == 'real':
                kind = 'real'
            items.append((cond, v))
        if exits:
            # an element evaluation raises for some n < N: the first such n aborts the sum
            anyexit = z3.Or(*[c for c, _ in exits])
            kk = z3.Int(f'_k{len(self.run.path.decisions)}')
            j = z3.Int('_j')
            for ix, (c, exc) in enumerate(exits):
                taken = z3.And(kk >= 0, kk < N.t, z3.substitute(c, (NVAR, kk)))
                if self.run.branch(taken, where=f'SX{node.lineno}:{node.col_offset}x{ix}'):
                    self.run.fact(z3.ForAll([j], z3.Implies(z3.And(j >= 0, j < kk), z3.Not(z3.substitute(anyexit, (NVAR, j))))))
                    raise Raised(exc, node)
            self.run.fact(z3.ForAll([j], z3.Implies(z3.And(j >= 0, j < N.t), z3.Not(z3.substitute(anyexit, (NVAR, j))))))
        zero = z3.RealVal(0) if kind == 'real' else z3.IntVal(0)
        d = zero
        for c, v in items:
            d = z3.If(c, term(v, kind), d)
        d = z3.simplify(d)
        e = SIGMA.get(d, kind, NVAR)
        for f in sigma_facts(e, N.t):
            self.run.fact(f)
        # Python: sum([]) is int 0; with N>0 the type is the summand type
        if kind == 'real':
            if self.run.branch(N.t > 0, where=f'S{node.lineno}:{node.col_offset}'):
                return SV('real', e['f'](N.t))
            return 0
        return SV('int', e['f'](N.t))

    # ---- expressions
    def lookup(self, name, frame, node):
        f = frame
        while f is not None:
            if name in f.locals:
                return f.locals[name]
            f = f.parent
        fn = frame.fn
        if fn is not None:
            ok, obj = extract.resolve_name(fn, name)
            if ok:
                return obj
        elif hasattr(builtins, name):
            return getattr(builtins, name)
        raise Raised(NameError(f"name '{name}' is not defined"), node)

    def eval(self, e, frame):
        m = getattr(self, 'expr_' + type(e).__name__, None)
        if m is None:
            raise Unsupported(f'expression {type(e).__name__} at line {getattr(e, "lineno", "?")}')
        return m(e, frame)

    def expr_Constant(self, e, frame):
        return e.value

    def expr_Name(self, e, frame):
        return self.lookup(e.id, frame, e)

    def expr_Slice(self, e, frame):
        # only reached from `del x[a:b]` (expr_Subscript handles slices of loads itself)
        parts = [self.eval(x, frame) if x is not None else None for x in (e.lower, e.upper, e.step)]
        if any(is_sym(x) for x in parts):
            raise Unsupported('symbolic slice bounds')
        return slice(*parts)

    def expr_Tuple(self, e, frame):
        return tuple(self.eval(x, frame) for x in e.elts)

    def expr_List(self, e, frame):
        return [self.eval(x, frame) for x in e.elts]

    def expr_Dict(self, e, frame):
        out = {}
        for k, v in zip(e.keys, e.values):
            kk = self.eval(k, frame)
            if is_sym(kk):
                raise Unsupported('symbolic dict key')
            out[kk] = self.eval(v, frame)
        return out

    def expr_Lambda(self, e, frame):
        return Closure(e, frame, None, '<lambda>')

    def expr_Yield(self, e, frame):
        v = self.eval(e.value, frame) if e.value is not None else None
        self.on_yield(v, e, frame)
        return None

    def on_yield(self, v, node, frame):
        raise Unsupported('yield')

    def expr_IfExp(self, e, frame):
        if self.truth(self.eval(e.test, frame), e.test):
            return self.eval(e.body, frame)
        return self.eval(e.orelse, frame)

    def expr_BoolOp(self, e, frame):
        v = None
        for ix, x in enumerate(e.values):
            v = self.eval(x, frame)
            if ix == len(e.values) - 1:
                return v
            t = self.truth(v, x)
            if isinstance(e.op, ast.And) and not t:
                return v
            if isinstance(e.op, ast.Or) and t:
                return v
        return v

    def expr_UnaryOp(self, e, frame):
        v = self.eval(e.operand, frame)
        if isinstance(e.op, ast.Not):
            if isinstance(v, SV):
                return SV('bool', z3.Not(self.truth_term(v)))
            if isinstance(v, PatStr):
                return False
            return not v
        if isinstance(e.op, ast.USub):
            if isinstance(v, SV):
                if v.kind not in NUM:
                    raise Raised(TypeError(f'bad operand type for unary -: {v.kind}'), e)
                k = 'int' if v.kind == 'bool' else v.kind
                return SV(k, -term(v, k))
            return -v
        if isinstance(e.op, ast.UAdd):
            return v
        raise Unsupported('unary op')

    def expr_BinOp(self, e, frame):
        return self.binop(e.op, self.eval(e.left, frame), self.eval(e.right, frame), e)

    def binop(self, op, a, b, node):
        if not is_sym(a) and not is_sym(b):
            try:
                return _CONC_BIN[type(op)](a, b)
            except KeyError:
                raise Unsupported(f'operator {type(op).__name__}')
            except Exception as ex:
                raise Raised(ex, node)
        ka, kb = kind_of(a), kind_of(b)
        if isinstance(a, (list, tuple)) or isinstance(b, (list, tuple)):
            if isinstance(op, ast.Add) and type(a) is type(b):
                return a + b
            raise Unsupported('container arithmetic')
        if ka == 'str' and kb == 'str' and isinstance(op, ast.Add):
            return self.str_concat([a, b])
        if isinstance(op, ast.Mult) and {ka, kb} == {'str', 'int'}:
            st, n = (a, b) if ka == 'str' else (b, a)
            f = z3.Function('str_repeat', z3.StringSort(), z3.IntSort(), z3.StringSort())
            return SV('str', f(term(st), term(n, 'int')))
        k = num_join(a, b)
        if k is None:
            raise Raised(TypeError(f"unsupported operand type(s) for {type(op).__name__}: '{pytype_name(a)}' and '{pytype_name(b)}'"), node)
        if isinstance(op, ast.Add):
            return SV(k, term(a, k) + term(b, k))
        if isinstance(op, ast.Sub):
            return SV(k, term(a, k) - term(b, k))
        if isinstance(op, ast.Mult):
            return SV(k, term(a, k) * term(b, k))
        if isinstance(op, ast.Div):
            tb = term(b, 'real')
            if self.run.branch(tb == 0, where=f'D{node.lineno}:{node.col_offset}'):
                raise Raised(ZeroDivisionError('division by zero'), node)
            return SV('real', term(a, 'real') / tb)
        if isinstance(op, ast.FloorDiv) and k == 'int':
            tb = term(b, 'int')
            if self.run.branch(tb == 0, where=f'D{node.lineno}:{node.col_offset}'):
                raise Raised(ZeroDivisionError('integer division or modulo by zero'), node)
            # Python floor division == z3 div for positive divisor; general case via ToInt
            return SV('int', z3.ToInt(z3.ToReal(term(a, 'int')) / z3.ToReal(tb)))
        raise Unsupported(f'symbolic operator {type(op).__name__}')

    def str_concat(self, parts):
        if all(isinstance(p, (str, PatStr)) or (isinstance(p, SV) and p.kind == 'int') for p in parts):
            flat = []
            for p in parts:
                if isinstance(p, PatStr):
                    flat.extend(p.parts)
                else:
                    flat.append(p)
            if any(isinstance(p, SV) for p in flat):
                return PatStr(flat)
            return ''.join(flat)
        ts = []
        for p in parts:
            if isinstance(p, PatStr):
                # a text with number holes next to a symbolic text: the holes become py_str_int(n) (A-BUILTIN), the whole a z3 string
                for q in p.parts:
                    ts.append(z3.StringVal(q) if isinstance(q, str) else self.to_str_term(q))
                continue
            ts.append(term(p) if kind_of(p) == 'str' else self.to_str_term(p))
        if len(ts) == 1:
            return SV('str', ts[0])
        return SV('str', z3.Concat(*ts))

    def to_str_term(self, v):
        k = kind_of(v)
        if k == 'str':
            return term(v)
        if not isinstance(v, SV):
            return z3.StringVal(str(v))
        if k == 'int':
            return z3.Function('py_str_int', z3.IntSort(), z3.StringSort())(v.t)   # A-BUILTIN: int(str(n)) == n
        if k == 'enum':
            sort, consts, none, cls = enum_sort(v.cls)
            t = z3.StringVal('None')
            for name, c in consts.items():
                t = z3.If(v.t == c, z3.StringVal(str(cls[name])), t)
            return t
        if k == 'real':
            f = z3.Function('str_of_float', z3.RealSort(), z3.StringSort())
            return f(v.t)
        if k == 'bool':
            return z3.If(v.t, z3.StringVal('True'), z3.StringVal('False'))
        raise Unsupported(f'str() of {k}')

    def expr_JoinedStr(self, e, frame):
        parts = []
        for x in e.values:
            if isinstance(x, ast.Constant):
                parts.append(x.value)
            else:
                v = self.eval(x.value, frame)
                if x.conversion != -1 and is_sym(v):
                    raise Unsupported('f-string conversion of symbolic value')
                spec = self.eval(x.format_spec, frame) if x.format_spec is not None else ''
                if not is_sym(v):
                    try:
                        if x.conversion == ord('r'):
                            v = repr(v)
                        elif x.conversion == ord('s'):
                            v = str(v)
                        parts.append(format(v, spec))
                    except Exception as ex:
                        raise Raised(ex, e)
                else:
                    import re as _re
                    mfix = _re.fullmatch(r'\.(\d+)f', spec) if isinstance(spec, str) else None
                    if mfix and isinstance(v, SV) and v.kind in NUM:
                        f = z3.Function('py_fmt_fixed', z3.RealSort(), z3.IntSort(), z3.StringSort())
                        parts.append(SV('str', f(term(v, 'real'), z3.IntVal(int(mfix.group(1))))))
                        continue
                    if spec:
                        raise Unsupported('format spec on symbolic value')
                    if isinstance(v, SV) and v.kind == 'int':
                        parts.append(v)
                    elif isinstance(v, PatStr):
                        parts.append(v)
                    else:
                        parts.append(SV('str', self.to_str_term(v)))
        return self.str_concat(parts)

    def expr_FormattedValue(self, e, frame):
        raise Unsupported('bare FormattedValue')

    def truth_term(self, v):
        k = v.kind
        if k == 'bool':
            return v.t
        if k == 'int':
            return v.t != 0
        if k == 'real':
            return v.t != 0
        if k == 'str':
            return z3.Length(v.t) > 0
        if k == 'enum':
            sort, consts, none, cls = enum_sort(v.cls)
            return v.t != none
        raise Unsupported(f'truth of {k}')

    def truth(self, v, node):
        if has_sym(v, 'sym_truth'):
            v = v.sym_truth(self, node)
        if isinstance(v, SV):
            where = f'{getattr(node, "lineno", 0)}:{getattr(node, "col_offset", 0)}'
            return self.run.branch(self.truth_term(v), where=where)
        if isinstance(v, PatStr):
            return True
        if is_sym(v):
            return len(v) > 0
        try:
            return bool(v)
        except Exception as ex:
            raise Raised(ex, node)

    def expr_Compare(self, e, frame):
        left = self.eval(e.left, frame)
        result = None
        for op, rx in zip(e.ops, e.comparators):
            right = self.eval(rx, frame)
            r = self.compare(op, left, right, e)
            if result is None:
                result = r
            else:
                # chained comparison: a < b < c
                if isinstance(result, SV) or isinstance(r, SV):
                    result = SV('bool', z3.And(term(result, 'bool') if not isinstance(result, bool) else z3.BoolVal(result),
                                               term(r) if isinstance(r, SV) else z3.BoolVal(bool(r))))
                else:
                    result = result and r
            left = right
        return result

    def compare(self, op, a, b, node):
        if not is_sym(a) and not is_sym(b) and not has_sym(b, 'sym_contains'):
            try:
                return _CONC_CMP[type(op)](a, b)
            except Exception as ex:
                raise Raised(ex, node)
        if isinstance(op, (ast.In, ast.NotIn)) and has_sym(b, 'sym_contains'):
            r = b.sym_contains(self, a, node)
            if isinstance(op, ast.NotIn):
                return SV('bool', z3.Not(r.t)) if isinstance(r, SV) else (not r)
            return r
        if isinstance(op, (ast.In, ast.NotIn)) and kind_of(b) == 'str' and kind_of(a) == 'str' and not isinstance(a, PatStr) and not isinstance(b, PatStr):
            r = SV('bool', z3.Contains(term(b), term(a)))
            return SV('bool', z3.Not(r.t)) if isinstance(op, ast.NotIn) else r
        if isinstance(op, (ast.In, ast.NotIn)):
            if isinstance(b, (list, tuple, set, frozenset, dict)):
                # membership in a list that deliberately mixes enumeration classes is fine as long as
                # the list holds at least one member of the operand's own class
                nn = len(self.run.path.notes)
                eqs = [self.compare(ast.Eq(), a, x, node) for x in b]
                ca = a.cls if isinstance(a, SV) and a.kind == 'enum' else None
                if ca is not None and any(isinstance(x, ca) for x in b):
                    del self.run.path.notes[nn:]
                ts = [term(x) if isinstance(x, SV) else z3.BoolVal(bool(x)) for x in eqs]
                r = SV('bool', z3.Or(*ts) if ts else z3.BoolVal(False))
                return SV('bool', z3.Not(r.t)) if isinstance(op, ast.NotIn) else r
            raise Unsupported('membership in symbolic container')
        ka, kb = kind_of(a), kind_of(b)
        if isinstance(op, (ast.Is, ast.IsNot, ast.Eq, ast.NotEq)):
            neg = isinstance(op, (ast.IsNot, ast.NotEq))
            r = self.equal(a, b, node, identity=isinstance(op, (ast.Is, ast.IsNot)))
            if isinstance(r, bool):
                return (not r) if neg else r
            return SV('bool', z3.Not(r)) if neg else SV('bool', r)
        k = num_join(a, b)
        if k is None:
            raise Raised(TypeError(f"'{_CMP_SYM[type(op)]}' not supported between instances of '{pytype_name(a)}' and '{pytype_name(b)}'"), node)
        ta, tb = term(a, k), term(b, k)
        if isinstance(op, ast.Lt):
            return SV('bool', ta < tb)
        if isinstance(op, ast.LtE):
            return SV('bool', ta <= tb)
        if isinstance(op, ast.Gt):
            return SV('bool', ta > tb)
        if isinstance(op, ast.GtE):
            return SV('bool', ta >= tb)
        raise Unsupported('comparison operator')

    def equal(self, a, b, node, identity=False):
        ka, kb = kind_of(a), kind_of(b)
        if ka == 'obj' and kb == 'obj' and isinstance(a, SV) and isinstance(b, SV):
            return a.t == b.t
        if ka == 'none' or kb == 'none':
            other, ko = (b, kb) if ka == 'none' else (a, ka)
            if ko == 'none':
                return True
            if ko == 'enum' and isinstance(other, SV):
                sort, consts, none, cls = enum_sort(other.cls)
                return other.t == none
            if ko == 'obj' and isinstance(other, SV):
                # an opaque value (e.g. what a store holds for a line) may be None: an uninterpreted predicate of the value
                return z3.Function('obj_is_none', other.t.sort(), z3.BoolSort())(other.t)
            return False
        if ka == 'enum' and kb == 'enum':
            ca = a.cls if isinstance(a, SV) else type(a)
            cb = b.cls if isinstance(b, SV) else type(b)
            if ca is not cb:
                self.run.path.notes.append(('cross-enum-compare', getattr(node, 'lineno', 0), ca.__name__, cb.__name__))
                return False
            return term(a) == term(b)
        if ka in NUM and kb in NUM:
            if identity:
                raise Unsupported('identity comparison of numbers')
            k = num_join(a, b)
            return term(a, k) == term(b, k)
        if ka == 'str' and kb == 'str':
            if isinstance(a, PatStr) or isinstance(b, PatStr):
                raise Unsupported('comparison of pattern strings')
            return term(a) == term(b)
        return False

    def expr_Subscript(self, e, frame):
        obj = self.eval(e.value, frame)
        if isinstance(e.slice, ast.Slice):
            lo = self.eval(e.slice.lower, frame) if e.slice.lower is not None else None
            hi = self.eval(e.slice.upper, frame) if e.slice.upper is not None else None
            if e.slice.step is not None:
                raise Unsupported('slice step')
            if isinstance(obj, SV) and obj.kind == 'str':
                if is_sym(lo) or is_sym(hi) or (lo or 0) < 0 or (hi is not None and hi < 0):
                    raise Unsupported('symbolic slice bounds')
                lo = lo or 0
                ln = z3.Length(obj.t)
                if hi is None:
                    return SV('str', z3.SubString(obj.t, lo, ln - lo))
                return SV('str', z3.SubString(obj.t, lo, hi - lo))
            if is_sym(lo) or is_sym(hi):
                raise Unsupported('symbolic slice bounds')
            try:
                return obj[lo:hi]
            except Exception as ex:
                raise Raised(ex, e)
        key = self.eval(e.slice, frame)
        if has_sym(obj, 'sym_getitem'):
            return obj.sym_getitem(self, key, e)
        r = self.getitem_hook(obj, key, e)
        if r is not NotImplemented:
            return r
        if isinstance(obj, SV) and obj.kind == 'str' and not is_sym(key):
            if key < 0:
                raise Unsupported('negative string index')
            if self.run.branch(z3.Length(obj.t) <= key, where=f'I{e.lineno}:{e.col_offset}'):
                raise Raised(IndexError('string index out of range'), e)
            return SV('str', z3.SubString(obj.t, key, 1))
        if isinstance(key, SV) and key.kind == 'str' and isinstance(obj, type) and issubclass(obj, _enum.Enum):
            for name, member in obj.__members__.items():
                if self.run.branch(key.t == z3.StringVal(name), where=f'E{e.lineno}:{e.col_offset}:{name}'):
                    return member
            raise Raised(KeyError('not a member name'), e)
        if isinstance(key, SV) and key.kind in ('int', 'bool') and isinstance(obj, (dict, list, tuple)):
            kt = term(key, 'int')
            cands = list(obj.keys()) if isinstance(obj, dict) else list(range(len(obj))) + list(range(-len(obj), 0))
            for c in cands:
                if isinstance(c, int) and self.run.branch(kt == int(c), where=f'K{e.lineno}:{e.col_offset}:{c}'):
                    return obj[c]
            raise Raised((KeyError if isinstance(obj, dict) else IndexError)('symbolic index outside the container'), e)
        if is_sym(key) or isinstance(obj, (SV, PatStr)):
            raise Unsupported('symbolic subscript')
        try:
            return obj[key]
        except Exception as ex:
            raise Raised(ex, e)

    def expr_Attribute(self, e, frame):
        obj = self.eval(e.value, frame)
        r = self.getattr_hook(obj, e.attr, e)
        if r is not NotImplemented:
            return r
        if has_sym(obj, 'sym_method') and e.attr in getattr(obj, '__dict__', {}):
            return obj.__dict__[e.attr]
        if isinstance(obj, (SV, PatStr)) or has_sym(obj, 'sym_method'):
            return BoundSym(obj, e.attr)
        try:
            return getattr(obj, e.attr)
        except Exception as ex:
            raise Raised(ex, e)

    def expr_ListComp(self, e, frame):
        return self.comprehension(e, frame)

    def expr_GeneratorExp(self, e, frame):
        return self.comprehension(e, frame)

    def expr_SetComp(self, e, frame):
        return set(self.comprehension(e, frame))

    def comprehension(self, e, frame):
        out = []

        def rec(gi, fr):
            if gi == len(e.generators):
                out.append(self.eval(e.elt, fr))
                return
            g = e.generators[gi]
            seq = self.eval(g.iter, fr)
            if isinstance(seq, (SV, PatStr)):
                raise Unsupported('comprehension over symbolic iterable (only supported directly under sum())')
            if not isinstance(seq, (list, tuple, set, frozenset, dict, range, str)) and not hasattr(seq, '__iter__'):
                raise Unsupported(f'comprehension over an abstract collection ({type(seq).__name__}, line {e.lineno})')
            for x in list(seq):
                fr2 = Frame({}, fr.fn, fr)
                self.assign(g.target, x, fr2)
                if all(self.truth(self.eval(c, fr2), c) for c in g.ifs):
                    rec(gi + 1, fr2)
        rec(0, frame)
        return out

    def expr_Call(self, e, frame):
        # sum(<comprehension over symbolic range>)
        if isinstance(e.func, ast.Name) and e.func.id == 'sum' and len(e.args) == 1 \
                and isinstance(e.args[0], (ast.ListComp, ast.GeneratorExp)) \
                and self.lookup('sum', frame, e) is builtins.sum:
            r = self.sum_comprehension(e.args[0], frame, e)
            if r is not NotImplemented:
                return r
        if isinstance(e.func, ast.Name) and e.func.id == 'super' and not e.args and not e.keywords:
            # zero-argument super(): class from the function's __class__ cell, object = first parameter
            fr = frame
            while fr is not None and fr.fn is None:
                fr = fr.parent
            fn = fr.fn if fr is not None else None
            cls = extract.free_names(fn).get('__class__') if fn is not None else None
            if cls is None:
                raise Unsupported('super() outside a method')
            fnode = extract.func_ast(fn)
            first = fnode.args.args[0].arg
            return super(cls, self.lookup(first, frame, e))
        f = self.eval(e.func, frame)
        args = []
        for a in e.args:
            if isinstance(a, ast.Starred):
                v = self.eval(a.value, frame)
                if isinstance(v, (SV, PatStr)):
                    raise Unsupported('star-args of symbolic value')
                args.extend(v)
            else:
                args.append(self.eval(a, frame))
        kwargs = {}
        for k in e.keywords:
            if k.arg is None:
                raise Unsupported('**kwargs')
            kwargs[k.arg] = self.eval(k.value, frame)
        return self.call(f, args, kwargs, e)

    def call(self, f, args, kwargs, node):
        r = self.call_hook(f, args, kwargs, node)
        if r is not NotImplemented:
            return r
        if isinstance(f, Closure):
            return self.call_closure(f, args, kwargs, node)
        if isinstance(f, BoundSym):
            return self.sym_method(f.obj, f.attr, args, kwargs, node)
        anysym = any(is_sym(a) for a in args) or any(is_sym(a) for a in kwargs.values())
        if isinstance(f, types.MethodType) and self.repo_function(f.__func__) and (anysym or getattr(f.__self__, '_pyvc_symbolic', False)):
            return self.call_function(f.__func__, [f.__self__] + list(args), kwargs, node)
        if isinstance(f, types.FunctionType) and self.repo_function(f) and anysym:
            return self.call_function(f, list(args), kwargs, node)
        if anysym and isinstance(f, type) and issubclass(f, BaseException):
            if f.__module__ == 'builtins':
                return f(*[a if not is_sym(a) else f'<symbolic {kind_of(a)}>' for a in args])
            return f(*args, **kwargs)     # exception classes of the repository keep their (symbolic) payload
        if anysym:
            h = _SYM_BUILTINS.get(f) if isinstance(f, (types.BuiltinFunctionType, type)) else None
            if h is not None:
                return h(self, args, kwargs, node)
            if isinstance(f, types.BuiltinMethodType) and isinstance(f.__self__, list) and f.__name__ in ('append', 'extend'):
                return f(*args)
            if isinstance(f, types.BuiltinMethodType) and isinstance(f.__self__, str) and f.__name__ == 'join':
                return self.str_join(f.__self__, args[0], node)
            if isinstance(f, types.BuiltinMethodType) and isinstance(f.__self__, dict) and f.__name__ == 'get' and 1 <= len(args) <= 2 and not kwargs and isinstance(args[0], SV):
                # dict.get(symbolic key, default) on a concrete dict: a text never equals a number; keys of the key's own kind are tried in turn
                k = args[0]
                numeric = ('int', 'real', 'bool')
                for kk, vv in f.__self__.items():
                    same = (k.kind == 'str' and isinstance(kk, str)) or (k.kind in numeric and isinstance(kk, (int, float)) and not isinstance(kk, str))
                    if not same:
                        if k.kind not in numeric + ('str',) or not isinstance(kk, (str, int, float)):
                            raise Unsupported(f'dict.get with a symbolic {k.kind} key (line {node.lineno})')
                        continue
                    eq = self.compare(ast.Eq(), k, kk, node)
                    if self.truth(eq, node):
                        return vv
                return args[1] if len(args) == 2 else None
            raise Unsupported(f'call of {getattr(f, "__name__", f)!r} with symbolic arguments (line {node.lineno})')
        try:
            return f(*args, **kwargs)
        except Raised:
            raise
        except Unsupported:
            raise
        except BaseException as ex:
            if isinstance(ex, (KeyboardInterrupt, SystemExit, RecursionError, MemoryError)):
                raise
            raise Raised(ex, node)

    def call_closure(self, f, args, kwargs, node):
        a = f.node.args
        params = [p.arg for p in a.posonlyargs + a.args]
        fr = Frame({}, f.env.fn, f.env)
        defaults = [self.eval(d, f.env) for d in a.defaults]
        if len(args) > len(params):
            raise Raised(TypeError(f'{f.name}() takes {len(params)} positional arguments but {len(args)} were given'), node)
        for p, v in zip(params, args):
            fr.locals[p] = v
        for k, v in kwargs.items():
            if k not in params:
                raise Raised(TypeError(f'{f.name}() got an unexpected keyword argument {k!r}'), node)
            fr.locals[k] = v
        for p, d in zip(params[len(params) - len(defaults):], defaults):
            fr.locals.setdefault(p, d)
        for p in params:
            if p not in fr.locals:
                raise Raised(TypeError(f'{f.name}() missing required argument {p!r}'), node)
        return self.exec_function_body(f.node, fr)

    def str_join(self, sep, seq, node):
        if isinstance(seq, SplitLines):
            # sep.join(text.splitlines()): an uninterpreted function of (sep, text) - equal to text only when it has no line breaks
            f = z3.Function(f'str_join_{seq.how}', z3.StringSort(), z3.StringSort(), z3.StringSort())
            return SV('str', f(term(sep) if is_sym(sep) else z3.StringVal(sep), seq.t))
        if isinstance(seq, (SV, PatStr)):
            raise Unsupported('join over symbolic iterable')
        parts = []
        for ix, x in enumerate(seq):
            if kind_of(x) != 'str':
                raise Raised(TypeError(f'sequence item {ix}: expected str instance, {pytype_name(x)} found'), node)
            if ix:
                parts.append(sep)
            parts.append(x)
        return self.str_concat(parts) if parts else ''

    def sym_method(self, obj, attr, args, kwargs, node):
        if has_sym(obj, 'sym_method'):
            return obj.sym_method(self, attr, args, kwargs, node)
        if isinstance(obj, SV) and obj.kind == 'str':
            if attr in ('upper', 'lower', 'strip') and not args:
                f = z3.Function(f'str_{attr}', z3.StringSort(), z3.StringSort())
                return SV('str', f(obj.t))
            if attr in ('strip', 'lstrip', 'rstrip') and len(args) == 1 and isinstance(args[0], str):
                # stripping a given set of characters: an uninterpreted function of the text (per method and character set)
                f = z3.Function(f'str_{attr}_{"".join(f"{ord(c):02x}" for c in sorted(set(args[0])))}', z3.StringSort(), z3.StringSort())
                return SV('str', f(obj.t))
            if attr in ('lstrip', 'rstrip', 'casefold', 'title', 'capitalize', 'swapcase') and not args:
                f = z3.Function(f'str_{attr}', z3.StringSort(), z3.StringSort())
                return SV('str', f(obj.t))
            if attr == 'splitlines' and not args:
                return SplitLines(obj.t)
            if attr == 'split' and not args and not kwargs:
                return SplitLines(obj.t, 'split')
            if attr in ('isdigit', 'isdecimal', 'isnumeric', 'isalpha', 'isalnum', 'isspace', 'isascii') and not args:
                # Unicode character classes: uninterpreted predicates of the text (Python's isdigit is NOT "all of 0-9")
                return SV('bool', z3.Function(f'str_{attr}', z3.StringSort(), z3.BoolSort())(obj.t))
            if attr == 'replace' and len(args) == 2 and not is_sym(args[0]) and not is_sym(args[1]):
                f = z3.Function(f'str_replace_{abs(hash((args[0], args[1]))) % 10**8}', z3.StringSort(), z3.StringSort())
                return SV('str', f(obj.t))
        raise Unsupported(f'method .{attr} on symbolic {kind_of(obj)} (line {node.lineno})')


class SplitLines(object):
    """text.splitlines() / text.split() of a symbolic text; only sep.join(...) of it is modelled (an uninterpreted function)."""
    def __init__(self, t, how='splitlines'):
        self.t = t
        self.how = how


class BoundSym(object):
    def __init__(self, obj, attr):
        self.obj, self.attr = obj, attr


class Frame(object):
    def __init__(self, locals_, fn, parent=None):
        self.locals = locals_
        self.fn = fn
        self.parent = parent


import operator as _op
_CONC_BIN = {ast.Add: _op.add, ast.Sub: _op.sub, ast.Mult: _op.mul, ast.Div: _op.truediv,
             ast.FloorDiv: _op.floordiv, ast.Mod: _op.mod, ast.Pow: _op.pow,
             ast.BitOr: _op.or_, ast.BitAnd: _op.and_}
_CONC_CMP = {ast.Eq: _op.eq, ast.NotEq: _op.ne, ast.Lt: _op.lt, ast.LtE: _op.le, ast.Gt: _op.gt,
             ast.GtE: _op.ge, ast.Is: _op.is_, ast.IsNot: _op.is_not,
             ast.In: lambda a, b: a in b, ast.NotIn: lambda a, b: a not in b}
_CMP_SYM = {ast.Lt: '<', ast.LtE: '<=', ast.Gt: '>', ast.GtE: '>='}


# ---- builtins on symbolic arguments (A-BUILTIN)
def _b_sum(self, args, kwargs, node):
    seq = args[0]
    if isinstance(seq, (SV, PatStr)):
        raise Unsupported('sum over symbolic iterable')
    acc = args[1] if len(args) > 1 else 0
    for x in seq:
        acc = self.binop(ast.Add(), acc, x, node)
    return acc


def _minmax(is_min):
    def h(self, args, kwargs, node):
        if kwargs:
            raise Unsupported('min/max with keywords')
        seq = args[0] if len(args) == 1 else args
        if isinstance(seq, (SV, PatStr)):
            raise Unsupported('min/max over symbolic iterable')
        seq = list(seq)
        if not seq:
            raise Raised(ValueError('min()/max() arg is an empty sequence'), node)
        best = seq[0]
        for x in seq[1:]:
            # Python keeps the first on ties: min: x if x < best else best
            k = num_join(best, x)
            if k is None:
                raise Raised(TypeError(f"'<' not supported between instances of '{pytype_name(x)}' and '{pytype_name(best)}'"), node)
            c = (term(x, k) < term(best, k)) if is_min else (term(x, k) > term(best, k))
            kb, kx = kind_of(best), kind_of(x)
            if kb == kx:
                best = SV(kb, z3.If(c, term(x), term(best)))
            else:
                # result type depends on which operand wins: fork
                if self.run.branch(c, where=f'M{node.lineno}:{node.col_offset}'):
                    best = x
        return best
    return h


FLOAT_OK = z3.Function('py_float_ok', z3.StringSort(), z3.BoolSort())        # float(s) does not raise ValueError
FLOAT_VAL = z3.Function('py_float_val', z3.StringSort(), z3.RealSort())
FLOAT_FINITE = z3.Function('py_float_finite', z3.StringSort(), z3.BoolSort())  # ... and the result is neither inf nor nan
INT_OK = z3.Function('py_int_ok', z3.StringSort(), z3.BoolSort())
INT_VAL = z3.Function('py_int_val', z3.StringSort(), z3.IntSort())
IS_FINITE_OF = {}   # term id of a float() result -> string it came from


def _re_ci(word):
    parts = [z3.Union(z3.Re(ch.lower()), z3.Re(ch.upper())) if ch.isalpha() else z3.Re(ch) for ch in word]
    return z3.Concat(*parts) if len(parts) > 1 else parts[0]


def float_grammar_facts(st):
    """A-BUILTIN: strings float() accepts as non-finite (after stripping): [+-]?(inf|infinity|nan), any case."""
    sign = z3.Option(z3.Union(z3.Re('+'), z3.Re('-')))
    nonfinite = z3.Concat(sign, z3.Union(_re_ci('inf'), _re_ci('infinity'), _re_ci('nan')))
    return [z3.Implies(z3.InRe(st, nonfinite), z3.And(FLOAT_OK(st), z3.Not(FLOAT_FINITE(st)))),
            z3.Implies(FLOAT_FINITE(st), FLOAT_OK(st))]


def _b_float(self, args, kwargs, node):
    v = args[0]
    k = kind_of(v)
    if k in NUM:
        return SV('real', term(v, 'real'))
    if k == 'str' and isinstance(v, SV):
        for f in float_grammar_facts(v.t):
            self.run.fact(f)
        if self.run.branch(z3.Not(FLOAT_OK(v.t)), where=f'float@{node.lineno}'):
            raise Raised(ValueError('could not convert string to float'), node)
        r = FLOAT_VAL(v.t)
        IS_FINITE_OF[r.get_id()] = v.t
        return SV('real', r)
    if k == 'str':
        raise Unsupported('float() of pattern string')
    raise Raised(TypeError(f"float() argument must be a string or a real number, not '{pytype_name(v)}'"), node)


def _b_int(self, args, kwargs, node):
    v = args[0]
    k = kind_of(v)
    if k in ('bool', 'int'):
        return SV('int', term(v, 'int'))
    if k == 'real':
        t = term(v)
        # truncation toward zero
        return SV('int', z3.If(t >= 0, z3.ToInt(t), -z3.ToInt(-t)))
    if k == 'str' and isinstance(v, SV):
        if self.run.branch(z3.Not(INT_OK(v.t)), where=f'int@{node.lineno}'):
            raise Raised(ValueError('invalid literal for int()'), node)
        return SV('int', INT_VAL(v.t))
    raise Unsupported('int() of symbolic non-number')


def _b_str(self, args, kwargs, node):
    v = args[0]
    if isinstance(v, PatStr):
        return v
    return SV('str', self.to_str_term(v))


def _b_bool(self, args, kwargs, node):
    v = args[0]
    if isinstance(v, SV):
        return SV('bool', self.truth_term(v))
    return self.truth(v, node)


def _b_len(self, args, kwargs, node):
    v = args[0]
    if has_sym(v, 'sym_len'):
        return v.sym_len(self, node)
    if isinstance(v, SV) and v.kind == 'str':
        return SV('int', z3.Length(v.t))
    if isinstance(v, (list, tuple, dict)):
        return len(v)
    raise Unsupported('len of symbolic value')


_DEC = [0]


def decimal_fact(t, p):
    """t is an exact p-decimal, as t * 10^p == ToReal(k) with a fresh integer k (z3 decides this form,
    unlike IsInt, in combination with bounds)."""
    _DEC[0] += 1
    k = z3.Int(f'dec!{_DEC[0]}')
    return (t * (10 ** p) if p else t) == z3.ToReal(k)


def is_decimal_goal(t, p):
    e = t * (10 ** p) if p else t
    return e == z3.ToReal(z3.ToInt(e))


def _b_round(self, args, kwargs, node):
    v = args[0]
    nd = args[1] if len(args) > 1 else None
    if is_sym(nd):
        raise Unsupported('round with symbolic digits')
    if kind_of(v) == 'int' or kind_of(v) == 'bool':
        return v if nd is None or nd >= 0 else Unsupported
    # A-REAL: round(x, p) is *a* nearest p-decimal: r*10^p integer, |r-x| <= 0.5*10^-p
    t = term(v, 'real')
    p = nd or 0
    f = z3.Function(f'round_{p}', z3.RealSort(), z3.RealSort())
    r = f(t)
    scale = z3.RealVal(10 ** p)
    self.run.fact(decimal_fact(r, p))
    dec = z3.Function(f'is_decimal_{p}', z3.RealSort(), z3.BoolSort())
    self.run.fact(dec(r))                              # the result is an exact p-decimal
    self.run.fact(z3.Implies(dec(t), r == t))          # rounding an exact p-decimal is the identity (A-REAL)
    self.run.fact(z3.And(r - t <= z3.RealVal(1) / (2 * scale), t - r <= z3.RealVal(1) / (2 * scale)))
    if nd is None:
        return SV('int', z3.ToInt(r))
    return SV('real', r)


def _b_ceil(self, args, kwargs, node):
    v = args[0]
    if kind_of(v) not in NUM:
        raise Raised(TypeError('must be real number'), node)
    t = term(v, 'real')
    return SV('int', -z3.ToInt(-t))


def _b_abs(self, args, kwargs, node):
    v = args[0]
    k = kind_of(v)
    if k not in NUM:
        raise Raised(TypeError('bad operand type for abs()'), node)
    k = 'int' if k == 'bool' else k
    t = term(v, k)
    return SV(k, z3.If(t >= 0, t, -t))


def _b_list(self, args, kwargs, node):
    if not args:
        return []
    if isinstance(args[0], (SV, PatStr)):
        raise Unsupported('list() of symbolic value')
    return list(args[0])


def _b_isinstance(self, args, kwargs, node):
    v, cls = args
    if isinstance(v, SV):
        py = {'int': int, 'real': float, 'bool': bool, 'str': str}.get(v.kind)
        if v.kind == 'enum':
            py = v.cls
        if py is None:
            raise Unsupported('isinstance() of an opaque value')
        classes = cls if isinstance(cls, tuple) else (cls,)
        return any(issubclass(py, c) for c in classes)
    if isinstance(v, PatStr):
        return str in (cls if isinstance(cls, tuple) else (cls,))
    return isinstance(v, cls)


def _b_isfinite(self, args, kwargs, node):
    v = args[0]
    if isinstance(v, SV) and v.kind == 'real':
        src = IS_FINITE_OF.get(v.t.get_id())
        if src is not None:
            return SV('bool', FLOAT_FINITE(src))
        return True      # arithmetic on reals stays finite (A-REAL)
    if isinstance(v, SV) and v.kind in ('int', 'bool'):
        return True
    raise Unsupported('isfinite of non-number')


def _b_type(self, args, kwargs, node):
    v = args[0]
    if isinstance(v, SV):
        if v.kind == 'enum':
            return v.cls
        if v.kind not in ('int', 'real', 'bool', 'str'):
            raise Unsupported(f'type() of an opaque value')
        return {'int': int, 'real': float, 'bool': bool, 'str': str}[v.kind]
    if isinstance(v, PatStr):
        return str
    return type(v)


def _b_range(self, args, kwargs, node):
    raise Unsupported('range() with symbolic bound outside a for loop / sum comprehension')


def _b_copysign(self, args, kwargs, node):
    """math.copysign(x, y) over reals: the sign of y; for y == 0 either sign (IEEE-754 has -0.0, which A-REAL cannot see,
    so the zero case is a fresh boolean - both outcomes are explored)."""
    if len(args) != 2 or kind_of(args[0]) not in NUM or kind_of(args[1]) not in NUM:
        raise Raised(TypeError('must be real number'), node)
    x, y = term(args[0], 'real'), term(args[1], 'real')
    ax = z3.If(x >= 0, x, -x)
    negzero = z3.Bool(f'negative_zero!{node.lineno}:{node.col_offset}')
    return SV('real', z3.If(y > 0, ax, z3.If(y < 0, -ax, z3.If(negzero, -ax, ax))))


def _b_getattr(self, args, kwargs, node):
    """getattr(symbolic object, 'constant name', default): an attribute the contract view does not know is an arbitrary value of
    the default's type that depends only on the object (uninterpreted function of the object)."""
    if len(args) == 3 and isinstance(args[1], str) and isinstance(args[0], SV) and isinstance(args[2], (bool, int, float)):
        srt = z3.BoolSort() if isinstance(args[2], bool) else z3.IntSort() if isinstance(args[2], int) else z3.RealSort()
        kind = 'bool' if isinstance(args[2], bool) else 'int' if isinstance(args[2], int) else 'real'
        return SV(kind, z3.Function(f'attr_{args[1]}', args[0].t.sort(), srt)(args[0].t))
    raise Unsupported(f'getattr with symbolic arguments (line {node.lineno})')


_SYM_BUILTINS = {
    builtins.getattr: _b_getattr, math.copysign: _b_copysign,
    builtins.sum: _b_sum, builtins.min: _minmax(True), builtins.max: _minmax(False),
    builtins.float: _b_float, builtins.int: _b_int, builtins.str: _b_str, builtins.bool: _b_bool,
    builtins.len: _b_len, builtins.round: _b_round, math.ceil: _b_ceil, builtins.abs: _b_abs,
    builtins.list: _b_list, builtins.isinstance: _b_isinstance, builtins.range: _b_range, builtins.type: _b_type,
    builtins.tuple: lambda self, a, k, n: tuple(_b_list(self, a, k, n)),
    math.isfinite: _b_isfinite,
}
