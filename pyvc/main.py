"""./check <Cxx> [--tier quick|thorough]   |   ./check replay <file>"""
import argparse
import importlib
import os
import sys
import time
import warnings


def main():
    warnings.simplefilter('ignore')
    ap = argparse.ArgumentParser()
    ap.add_argument('what')
    ap.add_argument('rest', nargs='*')
    ap.add_argument('--tier', default=os.environ.get('VERIF_TIER', 'quick'))
    args = ap.parse_args()
    os.environ['VERIF_TIER'] = args.tier
    seed = int(os.environ.get('VERIF_SEED', '0'))
    if args.what == 'replay':
        from . import replaycli
        sys.exit(replaycli.main(args.rest))
    if args.what == 'selftest':
        from . import selftest
        sys.exit(selftest.main(args.rest))
    prop = args.what.upper()
    t0 = time.time()
    try:
        from . import extract
        extract.setup_path()
        mod = importlib.import_module(f'pyvc.props.{prop.lower()}')
        code = mod.run(args.tier, seed, t0)
    except SystemExit:
        raise
    except BaseException:
        import traceback
        traceback.print_exc()
        print(f'CHECKER-ERROR {prop}: crashed (exit 3)')
        code = 3
    sys.exit(code)


if __name__ == '__main__':
    main()
