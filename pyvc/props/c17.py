"""C17 - each year's catalogue is consistent; status lookups are total.

Ground obligations on the real classes/instances (exhaustive over the finite
catalogue), z3 obligations over the finite status sort for every status-keyed
threshold table, and the Form.threshold contract checked on the real function
by partial evaluation over every member.
"""
import argparse
import ast
import configparser
import contextlib
import enum as _enum
import io
import time

import z3

from .. import base, extract, linevc, oblig, smt, sym
from ..oblig import Ob, Task


def needs_filing_can_be_true(cls):
    """False only if needs_filing is literally `return False`."""
    fn = cls.needs_filing
    try:
        node = extract.func_ast(fn)
    except Exception:
        return True
    body = [s for s in node.body if not (isinstance(s, ast.Expr) and isinstance(s.value, ast.Constant))]
    if len(body) == 1 and isinstance(body[0], ast.Return) and isinstance(body[0].value, ast.Constant) and body[0].value.value is False:
        return False
    if len(body) == 1 and isinstance(body[0], ast.Raise):
        return False
    return True


def class_checks(year):
    from habutax import forms, form as Fm
    obs = []
    classes = list(forms.available_forms[year])
    names = [c.form_name for c in classes]
    f = f'forms/ty{year}/__init__.py:available_forms'

    def ob(oid, ok, clause, wit=None, fn=f):
        if ok:
            obs.append(Ob(id=oid, backend='ground-eval', function=fn, clause=clause, vc=clause))
        else:
            obs.append(Ob(id=oid, status=oblig.REFUTED, backend='ground-eval', function=fn, clause=clause, witness=wit or {},
                          solver_output='ground evaluation on the real class', replay={'reproduced': True, 'observed': wit}))
    for cls in classes:
        name = cls.form_name
        cf = f'{cls.__module__.replace("habutax.", "").replace(".", "/")}.py:{cls.__name__}'
        ob(f'C17/{year}/{name}/unique-name', names.count(name) == 1, f'form_name {name!r} is unique in the {year} catalogue', {'count': names.count(name)}, cf)
        ob(f'C17/{year}/{name}/tax-year', getattr(cls, 'tax_year', None) == year, f'{cls.__name__}.tax_year == {year}', {'tax_year': getattr(cls, 'tax_year', None)}, cf)
        ob(f'C17/{year}/{name}/name-dot-free', isinstance(name, str) and '.' not in name and ':' not in name, 'form_name contains no dot or colon', {'form_name': name}, cf)
        for attr in ('description', 'long_description'):
            v = getattr(cls, attr, None)
            ob(f'C17/{year}/{name}/{attr}', isinstance(v, str) and v.strip() != '', f'{attr} is a non-empty string', {attr: repr(v)}, cf)
        j = getattr(cls, 'jurisdiction', None)
        ob(f'C17/{year}/{name}/jurisdiction', isinstance(j, Fm.Jurisdiction), 'jurisdiction is a Jurisdiction member', {'jurisdiction': repr(j)}, cf)
        if needs_filing_can_be_true(cls):
            sq = getattr(cls, 'sequence_no', None)
            ob(f'C17/{year}/{name}/sequence-no', isinstance(sq, (int, float)) and not isinstance(sq, bool),
               'a form whose needs_filing can return true declares a numeric sequence_no (the filler sorts by it)', {'sequence_no': repr(sq)}, cf)
        insts = extract.instances_of(cls)
        if name in extract.NUMBERED:
            insts = ['0', '1', '7']
        for inst in insts:
            oid = f'C17/{year}/{name}/instance={inst}'
            try:
                fobj = cls(instance=inst, solver=extract.FakeSolver())
            except BaseException as ex:
                ob(oid + '/instantiable', False, f'{cls.__name__}(instance={inst!r}) can be instantiated', {'raised': f'{type(ex).__name__}: {ex}'}, cf)
                continue
            ob(oid + '/instantiable', True, f'{cls.__name__}(instance={inst!r}) can be instantiated', None, cf)
            want = name if inst is None else f'{name}:{inst}'
            ob(oid + '/name', fobj.name() == want, f'name() == {want!r}', {'name': fobj.name()}, cf)
            for kind, items in (('input', fobj.inputs()), ('line', fobj.fields())):
                bn = [x.base_name() for x in items]
                dups = sorted({n for n in bn if bn.count(n) > 1})
                ob(oid + f'/{kind}-names-unique', not dups, f'{kind} names are duplicate-free', {'duplicates': dups}, cf)
                badc = [n for n in bn if n != n.lower() or '.' in n or n.strip() != n or n == '']
                ob(oid + f'/{kind}-names-lower-dotfree', not badc, f'{kind} names are lower-case, dot-free and non-empty', {'bad': badc[:10]}, cf)
            # thresholds: total and unambiguous on every status
            for tname, table in fobj._thresholds.items():
                if not isinstance(table, dict):
                    continue
                obs.extend(threshold_obs(year, fobj, tname, table, cf))
            if inst == insts[0]:
                obs.extend(list_inputs_ob(year, name, inst, fobj, cf))
    return obs


def status_class(year):
    import habutax.enum as E
    return E.filing_status_2021 if year == 2021 else E.filing_status


def native_threshold_twice(fobj, tname, members):
    """Concretisation: the real Form.threshold asked twice for every member of the enumeration."""
    ecls = next((type(m) for m in members if isinstance(m, _enum.Enum)), None)
    runs, bad = [], False
    if ecls is None:
        return {'reproduced': False}
    for sweep in (1, 2):
        for m in ecls:
            try:
                runs.append({'sweep': sweep, 'status': m.name, 'returned': repr(fobj.threshold(tname, m))})
            except BaseException as ex:
                runs.append({'sweep': sweep, 'status': m.name, 'raised': type(ex).__name__})
                bad = True
    return {'reproduced': bad, 'kind': 'threshold-twice', 'runs': runs[:12]}


def threshold_obs(year, fobj, tname, table, cf):
    obs = []
    keys = list(table.keys())
    members = []
    for k in keys:
        members.extend(k if isinstance(k, tuple) else [k])
    ecls = {type(m) for m in members}
    oid = f'C17/{year}/{fobj.name()}/threshold={tname}'
    odd = [k for k in keys if not (isinstance(k, _enum.Enum) or (isinstance(k, tuple) and k and all(isinstance(x, _enum.Enum) for x in k)))]
    if odd and any(isinstance(m, _enum.Enum) for m in members):
        # a key that is neither a member nor a tuple of members (a generator, a list, a set ...): `status in key` consumes or re-orders it,
        # so the table is not a map from statuses to amounts
        obs.append(Ob(id=oid + '/keys-are-members-or-tuples-of-members', status=oblig.REFUTED, backend='ground-eval', function=cf,
                      clause=f'NOT: every key of threshold table {tname!r} is a member or a tuple of members of one enumeration: {[type(k).__name__ for k in odd]}',
                      witness={'table': tname, 'key_types': [type(k).__name__ for k in odd]}, replay=native_threshold_twice(fobj, tname, members)))
        return obs
    if len(ecls) != 1 or not issubclass(next(iter(ecls)), _enum.Enum):
        return obs
    ecls = next(iter(ecls))
    scls = status_class(year)
    if ecls is not scls and 'Filing Status' in ecls.__name__:
        obs.append(Ob(id=oid + '/enum-class', status=oblig.REFUTED, backend='ground-eval', function=cf,
                      clause=f'threshold table keyed by the filing-status enumeration of another year ({ecls.__name__})',
                      witness={'table': tname}, replay={'reproduced': True}))
        return obs
    sort, consts, none, cls = sym.enum_sort(ecls)
    s = z3.Const('status', sort)
    t0 = time.time()
    count = z3.IntVal(0)
    for k in keys:
        ms = k if isinstance(k, tuple) else (k,)
        count = count + z3.If(z3.Or(*[s == consts[m.name] for m in ms]), 1, 0)
    st, model, be, secs, txt = smt.prove([s != none], count == 1)
    if st == 'discharged':
        obs.append(Ob(id=oid + '/exactly-one-key', backend=be, function=cf, time_s=time.time() - t0,
                      clause=f'for every member of {ecls.__name__} exactly one key of threshold table {tname!r} matches', vc=str(count == 1)[:300]))
    else:
        m = (model or {}).get('status', '?').split('.')[-1]
        try:
            mem = ecls[m]
            try:
                got = fobj.threshold(tname, mem)
                rep = {'reproduced': True, 'call': f'threshold({tname!r}, {m})', 'returned': got,
                       'matching_keys': [str(k) for k in keys if (mem in k if isinstance(k, tuple) else mem == k)]}
            except BaseException as ex:
                rep = {'reproduced': True, 'call': f'threshold({tname!r}, {m})', 'raised': f'{type(ex).__name__}: {str(ex)[:200]}'}
        except KeyError:
            rep = {'reproduced': False}
        obs.append(Ob(id=oid + '/exactly-one-key', status=oblig.REFUTED, backend=be, function=cf, solver_output=txt,
                      clause=f'some member of {ecls.__name__} matches zero or several keys of threshold table {tname!r} (first match wins, later keys are dead)',
                      witness={'status': m}, replay=rep))
    # Form.threshold contract on the real function: returns the value of the matching key
    bad = None
    for mname, mem in ecls.__members__.items():
        want = [v for k, v in table.items() if (mem in k if isinstance(k, tuple) else mem == k)]
        try:
            got = fobj.threshold(tname, mem)
        except BaseException as ex:
            bad = (mname, f'raised {type(ex).__name__}')
            break
        if len(want) >= 1 and got != want[0]:
            bad = (mname, f'returned {got}, first matching key holds {want[0]}')
            break
    if bad is None:
        obs.append(Ob(id=oid + '/lookup-contract', backend='ground-eval', function='form.py:Form.threshold',
                      clause=f'Form.threshold({tname!r}, m) returns the value stored under the key matching m, for every member m', vc=f'{len(ecls.__members__)} members'))
    else:
        obs.append(Ob(id=oid + '/lookup-contract', status=oblig.REFUTED, backend='ground-eval', function='form.py:Form.threshold',
                      clause=f'Form.threshold({tname!r}, {bad[0]}) {bad[1]}', witness={'status': bad[0]}, replay={'reproduced': True, 'detail': bad[1]}))
    return obs


def list_inputs_ob(year, name, inst, fobj, cf):
    """list-form-inputs output parses as an INI template naming exactly the inputs."""
    import habutax
    arg = name if inst is None else f'{name}:{inst}'
    buf = io.StringIO()
    oid = f'C17/{year}/{name}/list-form-inputs'
    try:
        with contextlib.redirect_stdout(buf):
            habutax.list_form_inputs(argparse.Namespace(form=arg, year=year))
    except BaseException as ex:
        return [Ob(id=oid, status=oblig.REFUTED, backend='ground-eval', function='__init__.py:list_form_inputs',
                   clause=f'list_form_inputs({arg}) raised {type(ex).__name__}: {ex}', witness={'form': arg}, replay={'reproduced': True})]
    text = buf.getvalue()
    problems = []
    cp = configparser.ConfigParser()
    try:
        cp.read_string(text)
        if cp.sections() != [fobj.name()] or len(cp[fobj.name()]) != 0:
            problems.append(f'template parses to sections {cp.sections()} with options {list(cp[cp.sections()[0]])[:5] if cp.sections() else []}')
    except Exception as ex:
        problems.append(f'template does not parse: {type(ex).__name__}: {str(ex)[:200]}')
    # un-comment the "#name =" lines
    un = []
    for line in text.split('\n'):
        if line.startswith('#') and not line.startswith('# ') and line.rstrip().endswith('='):
            un.append(line[1:])
        else:
            un.append(line)
    cp2 = configparser.ConfigParser()
    try:
        cp2.read_string('\n'.join(un))
        got = sorted(cp2[fobj.name()].keys()) if cp2.has_section(fobj.name()) else None
        want = sorted(i.base_name() for i in fobj.inputs())
        if got != want:
            problems.append(f'un-commented template names {got and [g for g in got if g not in want][:5]} extra / {[w for w in want if not got or w not in got][:5]} missing')
    except Exception as ex:
        problems.append(f'un-commented template does not parse: {type(ex).__name__}: {str(ex)[:200]}')
    if not problems:
        return [Ob(id=oid, backend='ground-eval', function='__init__.py:list_form_inputs',
                   clause='printed template parses (A-CFG) to one empty section named after the form; un-commenting the "#name =" lines yields exactly the declared inputs',
                   vc=f'{len(fobj.inputs())} inputs')]
    return [Ob(id=oid, status=oblig.REFUTED, backend='ground-eval', function='__init__.py:list_form_inputs', clause='; '.join(problems)[:500],
               witness={'form': arg, 'year': year}, replay={'reproduced': True, 'problems': problems})]


def run(tier, seed, t0):
    tasks = [Task(f'C17/{y}', class_checks, y) for y in extract.YEARS]
    obs = oblig.run_tasks(tasks)
    return oblig.finish('C17', tier, seed, obs, t0,
                        functions=['forms/ty*/__init__.py:available_forms', 'form.py:Form.__init__', 'form.py:Form.name', 'form.py:Form.threshold',
                                   '__init__.py:list_form_inputs', 'every Form subclass constructor (26/25/25 classes)'],
                        trusted_base=base.TRUSTED,
                        assumptions=base.assumptions('A-ENUM', 'A-CFG') + ['numbered input forms are instantiated for instances 0, 1 and 7 as representatives of every number (their constructors do not inspect the number)'],
                        checker_cmd='./check C17', min_obligations=800,
                        extra={'exhaustive': True})
