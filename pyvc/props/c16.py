"""C16 - returns respond to input changes the way tax law requires.

(a) Renumbering: every line reads the copies of a numbered form (W-2, 1099-*, 1098) only through symmetric
    aggregates - canonical sums over all n < count and "exists n" tests whose result does not depend on which n -
    or is one of the frozen per-payer listing lines; then a permutation of the instance numbers changes nothing
    (Sigma-permutation lemma, A-IND).
(b) Monotonicity: two-copy VC over the composed definitions (cone) of total tax: more wages never lower
    1040.24; a larger deductible expense never raises it.
(c) Withholding: 1040.24 does not depend on any withholding / payment input (frame over the static read graph),
    and a two-copy VC over the cone of lines 25a..37: one more dollar withheld moves (34 - 37) by exactly one.
"""
import json
import os
import re
import time

import z3

from .. import base, extract, linevc, oblig, replay, smt, summary, sym
from ..oblig import Ob, Task
from . import c15

LISTING = re.compile(r'^(1040_sb\.(1|5)_(payer|amount)_\d+|1040_sb\..*_payer.*)$')


def listing_lines():
    with open(os.path.join(oblig.VERIF, 'contracts', 'listing_lines.json')) as f:
        return json.load(f)


def renumbering(year, fname):
    cat = linevc.Cat.get(year)
    form = cat.forms[fname]
    allowed = set(listing_lines().get(str(year), []))
    obs = []
    for fld in form.fields():
        name = fld.name()
        fn = extract.line_function(fld)
        fid = f'{fn.__code__.co_filename.split("habutax/")[-1]}:{fn.__code__.co_firstlineno}'
        if fname.split(':')[0] in extract.NUMBERED:
            continue
        t0 = time.time()
        paths = linevc.explore_line(year, fld)
        if any(p.outcome[0] == 'unsupported' for p in paths):
            why = next(p.outcome[1] for p in paths if p.outcome[0] == 'unsupported')
            # outside the subset: no symmetry argument; a native pair of numberings can still refute it (never confirm it)
            rep = native_renumber(year, name)
            if rep.get('reproduced'):
                obs.append(Ob(id=f'C16/{year}/renumber/{name}', status=oblig.REFUTED, backend='native', function=fid, clause=f'{name} changes when two copies of a numbered form swap their numbers',
                              witness={'two_numberings': rep.get('two_numberings')}, replay=rep, solver_output=f'line outside the subset ({why}); refuted by a native pair of numberings'))
            else:
                obs.append(Ob(id=f'C16/{year}/renumber/{name}', status=oblig.UNDECIDED, function=fid, solver_output=f'line outside the subset: {why}'))
            continue
        concrete, prefix = [], []
        reads_numbered = False
        for p in paths:
            for acc, shown, indexed in p.reads:
                f0 = shown.split('.')[0]
                if ':' in f0 and f0.split(':')[0] in extract.NUMBERED:
                    reads_numbered = True
                    if not indexed:
                        concrete.append(shown)
            for nt in p.notes:
                if nt[0] == 'loop-prefix-dependence':
                    prefix.append(f'line {nt[1]}: {nt[2]}')
        if not reads_numbered:
            continue
        oid = f'C16/{year}/renumber/{name}'
        if name in allowed:
            obs.append(Ob(id=oid + '/listing', backend='symexec', function=fid, clause=f'{name} is a per-payer listing line (frozen list): renumbering may reorder it', vc='contracts/listing_lines.json'))
            continue
        if not concrete and not prefix:
            obs.append(Ob(id=oid, backend='symexec', function=fid, time_s=time.time() - t0,
                          clause='copies of numbered forms are read only inside sums over all copies or exists-tests independent of the copy number', vc=f'{len(paths)} path(s)'))
        else:
            why = (f'reads fixed copies {sorted(set(concrete))[:4]}' if concrete else '') + (' ' + '; '.join(sorted(set(prefix))[:2]) if prefix else '')
            rep = native_renumber(year, name)
            obs.append(Ob(id=oid, status=oblig.REFUTED, backend='symexec', function=fid, clause=f'{name} depends on the numbering of the copies: {why}', witness={'reads': sorted(set(concrete))[:6], 'loops': prefix[:3]},
                          replay=rep, solver_output=why))
    return obs


def native_renumber(year, line):
    """Replay: evaluate the real line on two numberings of 2 copies whose amounts / flags differ."""
    cat = linevc.Cat.get(year)
    fld = cat.fields.get(line)
    outs = []
    for perm in ((0, 1), (1, 0)):
        values, inputs = {}, {}
        for fname in extract.NUMBERED:
            if f'{fname}:0' not in cat.forms:
                continue
            inputs[f'1040.number_{fname}'] = 2
            for f in cat.forms[f'{fname}:0'].fields():
                k, e, o = linevc.field_kind(f)
                for slot, src in enumerate(perm):
                    nm = f'{fname}:{slot}.{f.base_name()}'
                    if k == 'real':
                        values[nm] = 100.0 + 1000.0 * src
                    elif k == 'int':
                        values[nm] = src
                    elif k == 'bool':
                        values[nm] = bool(src == 0)
                    elif k == 'str':
                        values[nm] = f'p{src}'
                    else:
                        values[nm] = replay.default_for(k, e, o)
        r = replay.replay_line(year, line, inputs, values)
        outs.append({k: r.get(k) for k in ('outcome', 'value', 'exc')})
    return {'reproduced': outs[0] != outs[1], 'two_numberings': outs}


# ---------------------------------------------------------------------------------------- cones
def static_reads(year):
    """line -> set of names it may read ('v|name' / 'i|name'), over all paths (static read graph)."""
    cat = linevc.Cat.get(year)
    g = {}
    for form, fld in extract.all_lines(year):
        try:
            paths = linevc.explore_line(year, fld)
        except Exception:
            continue
        rs = set()
        for p in paths:
            for acc, shown, indexed in p.reads:
                rs.add(f'{acc}|{shown}')
        g[fld.name()] = rs
    return g


def cone(graph, target):
    seen, work = set(), [target]
    while work:
        l = work.pop()
        if l in seen:
            continue
        seen.add(l)
        for r in graph.get(l, ()):
            if r.startswith('v|'):
                n = r[2:].replace(':{n}.', ':0.')
                if n in graph and n not in seen:
                    work.append(n)
    return seen


def depends_on(graph, line, names, memo):
    if line in memo:
        return memo[line]
    memo[line] = False
    rs = graph.get(line, ())
    res = any(r in names for r in rs)
    if not res:
        for r in rs:
            if r.startswith('v|'):
                n = r[2:].replace(':{n}.', ':0.')
                if n in graph and depends_on(graph, n, names, memo):
                    res = True
                    break
    memo[line] = res
    return res


def two_copy(year, target_expr, vary, relation, goal, nonneg, graph, roots, timeout_ms=60000, max_lines=120, cents=False):
    """Prove goal(T, T') where the primed copy differs from the unprimed one only in the read symbols `vary`
    (related by `relation`), over the definitions of all lines in the cone that depend on `vary`."""
    cat = linevc.Cat.get(year)
    memo = {}
    lines = []
    for r in roots:
        for l in cone(graph, r):
            if l not in lines and depends_on(graph, l, vary, memo):
                lines.append(l)
    if len(lines) > max_lines:
        return 'undecided', f'cone of {len(lines)} lines exceeds the bound {max_lines}', lines, None
    defs, sums = [], {}
    for l in lines:
        fld = cat.fields.get(l)
        if fld is None:
            continue
        sm = summary.Summary(year, fld, max_paths=200)
        if sm.unsupported or sm.value() is None:
            return 'undecided', f'line {l} outside the subset or without a numeric summary', lines, None
        sums[l] = sm
        defs.append(sm.defining_fact())
    # primed copy: every symbol of a cone line and every varied read gets a primed twin
    subs = []
    decls = c15.collect_decls(defs)
    prime = {}
    for name, d in decls.items():
        if '|' not in name:
            continue
        acc, full = name.split('|', 1)
        full0 = full.replace(':{n}.', ':0.')
        varied = name in vary or (acc == 'v' and full0 in lines)
        if not varied:
            continue
        if d.arity() == 0:
            p = z3.Const(name + "'", d.range())
            prime[name] = (d(), p)
            subs.append((d(), p))
        else:
            pf = z3.Function(name + "'", *[d.domain(i) for i in range(d.arity())], d.range())
            prime[name] = (d, pf)
    defs2 = []
    for df in defs:
        t = z3.substitute(df, *subs) if subs else df
        for name, (d, pf) in prime.items():
            if z3.is_func_decl(d) if hasattr(z3, 'is_func_decl') else False:
                pass
        defs2.append(t)
    # sigma functions over varied summands: monotone companion functions (lemma by induction, A-IND)
    hyps = list(defs) + defs2
    hyps += [h for h in c15.read_hyps(year, defs, nonneg, cents=cents)]
    hyps += [h for h in c15.read_hyps(year, defs2, nonneg, cents=False) if not z3.is_quantifier(h)]
    if cents:
        # the primed copy holds exact decimals too (C12)
        for name, (a, b) in prime.items():
            if z3.is_expr(b) and b.sort() == z3.RealSort() and name.startswith('v|'):
                pl = c15.places_of(cat, name[2:])
                if pl is not None:
                    hyps.append(sym.decimal_fact(b, pl))
    hyps += relation(prime)
    # figure_tax: monotone in the amount for equal status (contract from C07), instantiated on every pair of calls
    taxapps = [t for t in collect_apps(hyps) if t.decl().name().startswith('tax_')]
    for a in taxapps:
        for b in taxapps:
            if a.get_id() != b.get_id() and a.decl().name() == b.decl().name():
                hyps.append(z3.Implies(z3.And(a.arg(0) == b.arg(0), a.arg(1) <= b.arg(1)), a <= b))
                # slope: the tax never grows faster than the amount (top rate < 1; table steps are at most the row width)
    T = target_expr(lambda n: cat_sym(cat, n))
    T2 = z3.substitute(T, *subs) if subs else T
    g = goal(T, T2)
    st, model, be, secs, txt = smt.prove(hyps, g, timeout_ms=timeout_ms)
    return st, txt, lines, model


def collect_apps(terms):
    seen, out = set(), []
    stack = list(terms)
    while stack:
        t = stack.pop()
        if t.get_id() in seen:
            continue
        seen.add(t.get_id())
        if z3.is_quantifier(t):
            stack.append(t.body())
            continue
        if z3.is_app(t):
            if t.decl().kind() == z3.Z3_OP_UNINTERPRETED and t.num_args() > 0:
                out.append(t)
            stack.extend(t.children())
    return out


def cat_sym(cat, name):
    fld = cat.fields[name]
    kind, ecls, opt = linevc.field_kind(fld)
    t = linevc.read_symbol('v', name, kind, ecls)
    return z3.ToReal(t) if kind == 'int' else t


def monotone(year):
    cat = linevc.Cat.get(year)
    nn = set(c15.load_nonneg()['nonneg'].get(str(year), []))
    graph = static_reads(year)
    obs = []
    total_tax = '1040.24'
    line1 = '1040.1' if year == 2021 else '1040.1a'
    cases = [
        ('wages-never-lower-total-tax', {f'v|{line1}'}, [f'v|{line1}'], +1, f'more wages (Form 1040 line {line1.split(".")[1]}, the sum of W-2 box 1 over all copies) never lower total tax (line 24)'),
        ('medical-expenses-never-raise-total-tax', {'i|1040_sa.medical_dental_expenses'}, ['i|1040_sa.medical_dental_expenses'], -1, 'larger medical and dental expenses never raise total tax'),
        ('real-estate-taxes-never-raise-total-tax', {'i|1040_sa.state_local_real_estate_taxes'}, ['i|1040_sa.state_local_real_estate_taxes'], -1, 'larger deductible real-estate taxes never raise total tax'),
        ('charity-never-raises-total-tax', {'i|1040_sa.gifts_by_cash_or_check'}, ['i|1040_sa.gifts_by_cash_or_check'], -1, 'larger charitable gifts never raise total tax'),
    ]
    with open(os.path.join(oblig.VERIF, 'contracts', 'monotone_claimed.json')) as f:
        claimed = set(json.load(f)['claimed'])
    for cid, vary, order_syms, sign, text in cases:
        t0 = time.time()
        oid = f'C16/{year}/monotone/{cid}'
        if oid not in claimed:
            obs.append(Ob(id=oid + '/not-claimed', backend='none', bounded=True, cases=0, function=total_tax,
                          note='two-copy VC not claimed for this year (see contracts/monotone_claimed.json): not covered'))
            continue
        if not any(any(v in rs for v in vary) for rs in graph.values()):
            obs.append(Ob(id=oid + '/site', backend='none', bounded=True, cases=0, function=total_tax, note=f'no line of {year} reads {sorted(vary)}; case not applicable'))
            continue

        def relation(prime, order_syms=order_syms):
            out = []
            for s in order_syms:
                if s in prime:
                    a, b = prime[s]
                    out.append(b >= a)
                    out.append(a >= 0)
            return out
        st, txt, lines, model = two_copy(year, lambda V: V(total_tax), vary, relation,
                                         (lambda T, T2: T2 >= T) if sign > 0 else (lambda T, T2: T2 <= T), nn, graph, [total_tax], timeout_ms=300000)
        fid = f'{len(lines)} lines in the cone of {total_tax} that depend on {sorted(vary)}'
        if st == 'discharged':
            obs.append(Ob(id=oid, backend='z3', function=fid, time_s=time.time() - t0, clause=text + ' (for every pair of solved returns that differ only in that input)', vc=f'two-copy VC over the definitions of {lines[:12]}...'))
        else:
            obs.append(Ob(id=oid, status=oblig.UNDECIDED if st != 'refuted' else oblig.REFUTED, backend='z3', function=fid, clause='NOT: ' + text, solver_output=txt[:300],
                          witness={'model': {k: v for k, v in list((model or {}).items())[:40]}}, replay={'reproduced': False, 'note': 'two-copy counter-model over composed line definitions; see witness'}))
    return obs


WITHHOLDING = ['v|w-2:{n}.box_2', 'v|1099-r:{n}.box_4', 'v|1099-div:{n}.box_4', 'v|1099-int:{n}.box_4', 'i|1040.other_federal_withholding', 'i|1040.estimated_tax_payments']


def withholding(year):
    cat = linevc.Cat.get(year)
    nn = set(c15.load_nonneg()['nonneg'].get(str(year), []))
    graph = static_reads(year)
    obs = []
    memo = {}
    dep = depends_on(graph, '1040.24', set(WITHHOLDING), memo)
    readers = sorted(l for l in cone(graph, '1040.24') if any(w in graph.get(l, ()) for w in WITHHOLDING))
    if not dep:
        obs.append(Ob(id=f'C16/{year}/withholding/total-tax-does-not-read-withholding', backend='symexec', function='1040.24',
                      clause='no line in the transitive read set of total tax (line 24) reads a withholding or estimated-payment input', vc=f'{len(cone(graph, "1040.24"))} lines in the cone'))
    else:
        obs.append(Ob(id=f'C16/{year}/withholding/total-tax-does-not-read-withholding', status=oblig.REFUTED, backend='symexec', function='1040.24',
                      clause=f'total tax depends on a withholding input through {readers}', witness={'readers': readers}, replay={'reproduced': True, 'static': True}))
    # one more dollar in 25a / 25b / 26 moves (34 - 37) by exactly one dollar
    for cid, varyline in (('w2-withholding', 'v|1040.25a'), ('1099-withholding', 'v|1040.25b'), ('other-federal-withholding', 'i|1040.other_federal_withholding'),
                          ('estimated-payments', 'i|1040.estimated_tax_payments')):
        t0 = time.time()
        vary = {varyline}
        d = z3.Real('delta')

        def relation(prime, varyline=varyline, d=d):
            if varyline not in prime:
                return [z3.BoolVal(False)]
            a, b = prime[varyline]
            # amounts are whole cents (what a user can meaningfully enter; thresholds such as "> 0.001" mean "non-zero")
            return [b == a + d, d >= 0, a >= 0, sym.decimal_fact(a, 2), sym.decimal_fact(d, 2)]

        def target(V):
            return V('1040.34') - V('1040.37')
        roots = ['1040.34', '1040.37']
        st, txt, lines, model = two_copy(year, target, vary, relation, lambda T, T2: T2 - T == d, nn, graph, roots, cents=True)
        oid = f'C16/{year}/withholding/{cid}-moves-refund-minus-owed-one-for-one'
        if not lines:
            if varyline.startswith('i|') and varyline[2:] not in cat.inputs:
                obs.append(Ob(id=oid + '/site', backend='none', bounded=True, cases=0, function='1040.34', note=f'{year} has no input {varyline[2:]}; case not applicable'))
                continue
            obs.append(Ob(id=oid, status=oblig.ERROR, function='1040.34', solver_output=f'vacuous: no line in the cone of 34/37 reads {varyline}'))
            continue
        text = f'each extra dollar of {varyline.split("|")[1]} moves overpayment minus amount owed (34 - 37) by exactly one dollar'
        if st == 'discharged':
            obs.append(Ob(id=oid, backend='z3', function=f'cone {lines}', time_s=time.time() - t0, clause=text, vc=f'two-copy VC over {lines}'))
        else:
            obs.append(Ob(id=oid, status=oblig.UNDECIDED if st != 'refuted' else oblig.REFUTED, backend='z3', function=f'cone {lines}', clause='NOT: ' + text, solver_output=txt[:300],
                          witness={'model': {k: v for k, v in list((model or {}).items())[:30]}}, replay={'reproduced': False}))
    # the sums themselves: 25a is the sum of W-2 box 2 over all copies (so a dollar in any copy is a dollar on 25a)
    return obs


# ---------------------------------------------------------------------------------------- listing rows
def row_symmetry(year):
    """Renumbering permutes the per-payer listing rows (frozen list).  Every other line that reads those rows must be a symmetric
    function of them: its outcome (value / not implemented / returns at all) is unchanged when two adjacent rows swap all their
    columns - adjacent transpositions generate every permutation.  z3 over the line summary."""
    cat = linevc.Cat.get(year)
    listing = set(listing_lines().get(str(year), []))
    groups = {}
    for name in listing:
        m = re.match(r'^(.*)\.(\w+?)_([a-z]+)_(\d+)$', name)
        if not m:
            continue
        form, num, col, k = m.group(1), m.group(2), m.group(3), int(m.group(4))
        groups.setdefault((form, num), {}).setdefault(k, {})[col] = name
    graph = static_reads(year)
    obs = []
    for line, reads in sorted(graph.items()):
        if line in listing:
            continue
        for (form, num), rows in sorted(groups.items()):
            if not any(f'v|{n}' in reads for cols in rows.values() for n in cols.values()):
                continue
            fld = cat.fields.get(line)
            oid = f'C16/{year}/renumber/rows/{line}/{form}.{num}'
            sm = summary.Summary(year, fld, max_paths=400)
            if sm.unsupported or sm.value() is None:
                rep = native_rows(year, line, rows)
                obs.append(Ob(id=oid, status=oblig.REFUTED if rep.get('reproduced') else oblig.UNDECIDED, backend='native' if rep.get('reproduced') else 'none', function=line,
                              clause=f'NOT: {line} is unchanged when two listing rows of {form} line {num} swap', solver_output='line outside the subset: ' + str((sm.unsupported or ['no numeric summary'])[0]),
                              witness=rep, replay=rep))
                continue
            F, R = sm.value(), sm.returns()
            N = z3.Or(*sm.ni) if sm.ni else z3.BoolVal(False)
            ks = sorted(rows)
            bad = None
            t0 = time.time()
            for a, b in zip(ks, ks[1:]):
                pairs = []
                for col in rows[a]:
                    if col not in rows[b]:
                        continue
                    fa, fb = cat.fields[rows[a][col]], cat.fields[rows[b][col]]
                    ka, ea, _ = linevc.field_kind(fa)
                    sa, sb = linevc.read_symbol('v', rows[a][col], ka, ea), linevc.read_symbol('v', rows[b][col], ka, ea)
                    pairs += [(sa, sb), (sb, sa)]
                F2, R2, N2 = z3.substitute(F, *pairs), z3.substitute(R, *pairs), z3.substitute(N, *pairs)
                st, model, be, secs, txt = smt.prove([], z3.And(R == R2, N == N2, z3.Implies(R, F == F2)))
                if st != 'discharged':
                    bad = (a, b, st, txt, model)
                    break
            if bad is None:
                obs.append(Ob(id=oid, backend='z3', function=line, time_s=time.time() - t0, clause=f'{line} is a symmetric function of the listing rows of {form} line {num} (invariant under each adjacent swap of rows)',
                              vc=f'{len(ks) - 1} transpositions over the line summary'))
            else:
                rep = native_rows(year, line, rows)
                obs.append(Ob(id=oid, status=oblig.REFUTED if (bad[2] == 'refuted' or rep.get('reproduced')) else oblig.UNDECIDED, backend='z3', function=line,
                              clause=f'NOT: {line} is unchanged when rows {bad[0]} and {bad[1]} of {form} line {num} swap', solver_output=str(bad[3])[:300],
                              witness={'rows': [bad[0], bad[1]], 'model': {k: v for k, v in list((bad[4] or {}).items())[:20]}}, replay=rep))
    return obs


def sums_count_every_copy(year):
    """A total over the copies of a form counts every copy: sum() never runs over a set (a set keeps one of two equal amounts, so raising
    an amount until it equals another copy's LOWERS the total - "a larger deductible expense never raises tax" and the withholding clause
    both fail).  AST frame over every line and the helpers it calls; one obligation per year, one per offending line."""
    import ast
    import types as _types
    from . import c05
    obs, n = [], 0
    for form, fld in extract.all_lines(year):
        fn = extract.line_function(fld)
        stack, seen, bad = [fn], set(), []
        while stack:
            g = stack.pop()
            if id(g) in seen:
                continue
            seen.add(id(g))
            try:
                node = extract.func_ast(g)
            except Exception:
                continue
            for c in ast.walk(node):
                if isinstance(c, ast.Call) and isinstance(c.func, ast.Name):
                    if c.func.id in ('sum', 'fsum') and c.args and (isinstance(c.args[0], (ast.Set, ast.SetComp)) or c05.hash_ordered(g, c.args[0])):
                        bad.append(f'sum over a set at line {c.lineno}: {ast.unparse(c)[:120]}')
                    ok, obj = extract.resolve_name(g, c.func.id)
                    if ok and isinstance(obj, _types.FunctionType) and obj.__code__.co_filename.startswith(extract.REPO):
                        stack.append(obj)
        n += 1
        if bad:
            fid = f'{fn.__code__.co_filename.split("habutax/")[-1]}:{fn.__code__.co_firstlineno}'
            obs.append(Ob(id=f'C16/{year}/sums/{fld.name()}', status=oblig.REFUTED, backend='ast-scan', function=fid, clause=f'NOT: {fld.name()} counts every copy in its totals: ' + bad[0],
                          witness={'sums': bad[:3]}, replay={'reproduced': True, 'static': True, 'python': 'sum({9000.0, 9000.0}) == 9000.0 while sum({9000.0, 8999.0}) == 17999.0'}))
    if not any(o.id.startswith(f'C16/{year}/sums/') for o in obs):
        obs.append(Ob(id=f'C16/{year}/sums/all-lines', backend='ast-scan', function=f'every line definition of {year}', clause='no total is taken over a set: equal amounts on two copies are both counted', vc=f'{n} line(s)'))
    return obs


def agi_monotone(year):
    """Line-level part of "more wages never lower total tax": every real-valued line outside Form 1040 that reads adjusted gross income
    directly moves with it in the direction contracts/agi_monotone.json states (other reads fixed); a line that reads it and is not
    listed is reported.  z3 over the line summary, two copies of the AGI symbol."""
    with open(os.path.join(oblig.VERIF, 'contracts', 'agi_monotone.json')) as f:
        table = json.load(f).get(str(year), {})
    cat = linevc.Cat.get(year)
    graph = static_reads(year)
    obs = []
    x = linevc.read_symbol('v', '1040.11', 'real')
    x2 = z3.Real('agi_after')
    for line, reads in sorted(graph.items()):
        if 'v|1040.11' not in reads or line.startswith('1040.'):
            continue
        fld = cat.fields[line]
        if linevc.field_kind(fld)[0] != 'real':
            continue
        oid = f'C16/{year}/agi/{line}'
        want = table.get(line)
        if want is None:
            obs.append(Ob(id=oid, status=oblig.REFUTED, backend='ast-scan', function=line, clause=f'NOT: {line} reads adjusted gross income and is listed in contracts/agi_monotone.json with its direction',
                          witness={'line': line}, replay={'reproduced': True, 'static': True}))
            continue
        t0 = time.time()
        sm = summary.Summary(year, fld, max_paths=600)
        if sm.unsupported or sm.value() is None:
            rep = native_agi(year, line, want, None)
            obs.append(Ob(id=oid, status=oblig.REFUTED if rep.get('reproduced') else oblig.UNDECIDED, backend='native' if rep.get('reproduced') else 'none', function=line,
                          clause=f'NOT: {line} is {want} in adjusted gross income', solver_output='line outside the subset: ' + str((sm.unsupported or ['no numeric summary'])[0]), witness=rep, replay=rep))
            continue
        F, R = sm.value(), sm.returns()
        F2, R2 = z3.substitute(F, (x, x2)), z3.substitute(R, (x, x2))
        facts = [f for p in sm.paths for f in p.facts if not z3.is_quantifier(f)]
        facts += [z3.substitute(f, (x, x2)) for f in facts]
        goal = (F >= F2) if want == 'nonincreasing' else (F <= F2)
        st, model, be, secs, txt = smt.prove(facts + [x <= x2, R, R2], goal, 10000)
        clause = f'{line} is {want} in adjusted gross income (1040.11), everything else it reads held fixed'
        if st == 'discharged':
            obs.append(Ob(id=oid, backend=be, function=line, time_s=time.time() - t0, clause=clause, vc=f'{len(sm.paths)} path(s), two copies of 1040.11'))
        else:
            rep = native_agi(year, line, want, model)
            obs.append(Ob(id=oid, status=oblig.REFUTED if (st == 'refuted' or rep.get('reproduced')) else oblig.UNDECIDED, backend=be, function=line, clause='NOT: ' + clause,
                          solver_output=str(txt)[:200], witness={'model': {k: v for k, v in list((model or {}).items())[:16]}}, replay=rep))
    for line in table:
        if line in cat.fields and 'v|1040.11' not in graph.get(line, ()):
            obs.append(Ob(id=f'C16/{year}/agi/{line}', status=oblig.ERROR, function=line, solver_output='listed in contracts/agi_monotone.json but does not read 1040.11 (table out of date)'))
    return obs


def native_agi(year, line, want, model):
    """Concretisation: the real line at a sweep of adjusted gross incomes (the other reads from the model, else type defaults chosen to
    make phase-outs visible: amounts 1 200, questions answered yes)."""
    try:
        inputs, values = replay.concretise(model, year) if model is not None else ({}, {})
    except Exception:
        inputs, values = {}, {}
    values = {k: v for k, v in values.items() if k != '1040.11'}
    cat = linevc.Cat.get(year)
    if model is None:
        for r in static_reads(year).get(line, ()):
            acc, nm = r.split('|', 1)
            if '{n}' in nm or nm == '1040.11':
                continue
            spec = (cat.inputs if acc == 'i' else cat.fields).get(nm)
            if spec is None:
                continue
            kind = (linevc.input_kind(spec) if acc == 'i' else linevc.field_kind(spec))[0]
            tgt = inputs if acc == 'i' else values
            if kind == 'real':
                tgt[nm] = 1200.0
            elif kind == 'bool':
                tgt[nm] = True
            elif kind == 'int':
                tgt[nm] = 1
    pts = [0.0, 40000.0, 49000.0, 50400.0, 52600.0, 54900.0, 99000.0, 100400.0, 102990.0, 103010.0, 105500.0, 108999.0, 111000.0, 150000.0, 250000.0, 500000.0]
    runs, last, bad = [], None, None
    for a in pts:
        r = replay.replay_line(year, line, dict(inputs), dict(values, **{'1040.11': a}))
        if r.get('outcome') != 'return':
            runs.append({'agi': a, 'outcome': r.get('exc') or r.get('outcome')})
            continue
        try:
            val = float(r.get('value'))
        except Exception:
            continue
        runs.append({'agi': a, 'value': val})
        if last is not None and ((want == 'nonincreasing' and val > last[1] + 1e-9) or (want == 'nondecreasing' and val < last[1] - 1e-9)):
            bad = bad or {'agi': [last[0], a], 'line_value': [last[1], val]}
        last = (a, val)
    if bad is None and model is not None:
        return native_agi(year, line, want, None)       # the model's other reads hide the effect: try amounts 1 200 / yes answers
    return {'reproduced': bad is not None, 'kind': 'agi-sweep', 'violating_pair': bad, 'runs': runs[:16], 'inputs': {k: repr(v) for k, v in inputs.items()}, 'values': {k: repr(v) for k, v in values.items()}}


def native_rows(year, line, rows):
    """Replay: three filled rows (one with a blank text column), every order of them: the real line must give one result."""
    import itertools
    cat = linevc.Cat.get(year)
    ks = sorted(rows)
    content = [{'text': 'payer a', 'amount': 1000.0}, {'text': '', 'amount': 800.0}, {'text': 'payer c', 'amount': 900.0}]
    outs = {}
    for perm in itertools.permutations(range(3)):
        values = {}
        for k in ks:
            for col, name in rows[k].items():
                kind = linevc.field_kind(cat.fields[name])[0]
                src = content[perm[k]] if k < 3 else None
                if kind == 'real':
                    values[name] = src['amount'] if src else 0.0
                elif kind == 'str':
                    values[name] = src['text'] if src else ''
                else:
                    values[name] = replay.default_for(kind, None, True)
        r = replay.replay_line(year, line, {}, values)
        outs[str(perm)] = (r.get('outcome'), r.get('value'), r.get('exc'))
    distinct = sorted(set(outs.values()), key=str)
    return {'reproduced': len(distinct) > 1, 'rows': 'amounts 1000 / 800 (blank payer) / 900 in every order of the first three rows', 'results': {k: list(v) for k, v in list(outs.items())[:6]}}


# ---------------------------------------------------------------------------------------- withholding boxes
def sigma_summands(sm):
    """{name of the copy-count input: (index term, summand term)} of the canonical sums over copies in a line summary."""
    out = {}
    for c, v, p in sm.cases:
        for f in p.facts:
            if not (z3.is_app(f) and f.decl().kind() == z3.Z3_OP_IMPLIES and z3.is_app(f.arg(1)) and f.arg(1).decl().kind() == z3.Z3_OP_EQ):
                continue
            lhs, rhs = f.arg(1).arg(0), f.arg(1).arg(1)
            if z3.is_app(rhs) and rhs.decl().kind() == z3.Z3_OP_ADD and rhs.num_args() == 2 and rhs.arg(0).decl().name().startswith('Sigma') and lhs.num_args() == 1:
                out.setdefault(str(lhs.arg(0)), []).append((rhs.arg(0).arg(0), rhs.arg(1)))
    return out


def _bump(S, app, d):
    return z3.substitute(S, (app, app + d))


def withheld_boxes(year):
    """Every box that carries income tax withheld counts once, dollar for dollar, in the sums the return credits:
    federal boxes in 1040.25a + 25b, N.C. boxes (selector == NC) in nc_d-400.20a + 20b. Summand-level obligations on the
    canonical sums over copies (so for every number of copies and every copy)."""
    import json
    cat = linevc.Cat.get(year)
    with open(os.path.join(oblig.VERIF, 'contracts', 'withholding_boxes.json')) as f:
        spec = json.load(f)
    obs = []
    d = z3.Real('delta')

    def total_delta(lines, form, app_of):
        """sum over the lines of (summand with the box bumped by d) - summand, for the sums over copies of `form`."""
        tot = z3.RealVal(0)
        found = False
        unsupported = None
        for l in lines:
            fld = cat.fields.get(l)
            if fld is None:
                continue
            sm = summary.Summary(year, fld, max_paths=400)
            if sm.unsupported:
                unsupported = f'{l}: {sm.unsupported[0]}'
                continue
            for cnt, pairs in sigma_summands(sm).items():
                if not cnt.endswith(f'number_{form}'):
                    continue
                seen = set()
                for idx, S in pairs:
                    if S.sexpr() in seen:
                        continue
                    seen.add(S.sexpr())
                    app = app_of(idx)
                    tot = tot + (_bump(S, app, d) - S)
                    found = True
        return tot, found, unsupported

    # federal
    for form in extract.NUMBERED:
        f0 = cat.forms.get(f'{form}:0')
        if f0 is None:
            continue
        for inp in f0.inputs():
            if (inp.help() or '').strip().lower() != 'federal income tax withheld':
                continue
            box = inp.base_name()
            sym_box = linevc.read_symbol('v', f'{form}:{{n}}.{box}', 'real', None, index=z3.Int('_n')).decl()
            oid = f'C16/{year}/withholding/box/{form}.{box}-counts-once-in-25a-25b'
            tot, found, uns = total_delta(['1040.25a', '1040.25b'], form, lambda idx: sym_box(idx))
            clause = f'a dollar of federal income tax withheld in {form} {box} (any copy) adds exactly a dollar to Form 1040 lines 25a + 25b'
            if uns and not found:
                obs.append(Ob(id=oid, status=oblig.UNDECIDED, function='1040.25a/25b', solver_output='outside the subset: ' + uns))
                continue
            st, model, be, secs, txt = smt.prove([d > 0], tot == d) if found else ('refuted', None, 'symexec', 0.0, f'no sum over the copies of {form} in 25a / 25b reads {box}')
            if st == 'discharged':
                obs.append(Ob(id=oid, backend=be, function='1040.25a/25b', time_s=secs, clause=clause, vc='summand of the canonical sum over copies, box bumped by delta'))
            else:
                rep = native_box(year, form, box, ['1040.25a', '1040.25b'])
                obs.append(Ob(id=oid, status=oblig.REFUTED if (st == 'refuted' or rep.get('reproduced')) else oblig.UNDECIDED, backend=be, function='1040.25a/25b', clause='NOT: ' + clause, solver_output=txt[:300],
                              witness={'form': form, 'box': box}, replay=rep))
    # N.C.
    if 'nc_d-400' in cat.forms:
        nc = None
        for form, pairs in spec['state'].items():
            f0 = cat.forms.get(f'{form}:0')
            if f0 is None:
                continue
            for sel, box in pairs:
                selfld = cat.fields.get(f'{form}:0.{sel}')
                if selfld is None or cat.fields.get(f'{form}:0.{box}') is None:
                    obs.append(Ob(id=f'C16/{year}/withholding/box/{form}.{box}-nc/uncovered', backend='none', bounded=True, cases=0, function='nc_d-400.20a/20b', note=f'{form} has no {sel}/{box} in {year}'))
                    continue
                kind, ecls, opt = linevc.field_kind(selfld)
                sym_box = linevc.read_symbol('v', f'{form}:{{n}}.{box}', 'real', None, index=z3.Int('_n')).decl()
                sym_sel = linevc.read_symbol('v', f'{form}:{{n}}.{sel}', kind, ecls, index=z3.Int('_n')).decl()
                sort, consts, none, cls = sym.enum_sort(ecls)
                oid = f'C16/{year}/withholding/box/{form}.{box}-counts-once-in-nc-20a-20b'
                holder = {}

                def app_of(idx, sym_box=sym_box, holder=holder):
                    holder['idx'] = idx
                    return sym_box(idx)
                tot, found, uns = total_delta(['nc_d-400.20a', 'nc_d-400.20b'], form, app_of)
                clause = f'a dollar of state tax withheld in {form} {box} adds exactly a dollar to N.C. D-400 lines 20a + 20b when {sel} is NC (whoever the copy belongs to), and nothing otherwise'
                if not found:
                    st, txt, be, secs, model = 'refuted', f'no sum over the copies of {form} in 20a / 20b reads {box}', 'symexec', 0.0, None
                else:
                    isnc = sym_sel(holder['idx']) == consts['NC']
                    hy = [d > 0]
                    belf = cat.fields.get(f'{form}:0.belongs_to')
                    if belf is not None:
                        # the owner of a copy is a required answer: always one of the members, never blank
                        bk, becls, _ = linevc.field_kind(belf)
                        bsort, bconsts, bnone, _ = sym.enum_sort(becls)
                        sym_bel = linevc.read_symbol('v', f'{form}:{{n}}.belongs_to', bk, becls, index=z3.Int('_n')).decl()
                        hy.append(z3.Or(*[sym_bel(holder['idx']) == c for c in bconsts.values()]))
                    st, model, be, secs, txt = smt.prove(hy, z3.And(z3.Implies(isnc, tot == d), z3.Implies(z3.Not(isnc), tot == 0)))
                if st == 'discharged':
                    obs.append(Ob(id=oid, backend=be, function='nc_d-400.20a/20b', time_s=secs, clause=clause, vc='summands of the canonical sums over copies in 20a and 20b, box bumped by delta, for every owner'))
                else:
                    obs.append(Ob(id=oid, status=oblig.REFUTED if st == 'refuted' else oblig.UNDECIDED, backend=be, function='nc_d-400.20a/20b', clause='NOT: ' + clause, solver_output=txt[:300],
                                  witness={'form': form, 'box': box, 'model': {k: v for k, v in list((model or {}).items())[:12]}}, replay={'reproduced': False}))
    return obs


def native_box(year, form, box, lines):
    """Replay: one copy of the form with 100.00 in the box and nothing else withheld: the lines must add up to 100."""
    cat = linevc.Cat.get(year)
    inputs = {f'1040.number_{f}': (1 if f == form else 0) for f in extract.NUMBERED}
    values = {}
    for f in cat.forms[f'{form}:0'].fields():
        k, e, o = linevc.field_kind(f)
        values[f'{form}:0.{f.base_name()}'] = 100.0 if f.base_name() == box else replay.default_for(k, e, o)
    tot, outs = 0.0, {}
    for l in lines:
        r = replay.replay_line(year, l, dict(inputs), dict(values))
        outs[l] = {k: r.get(k) for k in ('outcome', 'value', 'exc')}
        try:
            tot += float(r.get('value')) if r.get('outcome') == 'return' and r.get('value') not in (None, 'None') else 0.0
        except ValueError:
            pass
    return {'reproduced': abs(tot - 100.0) > 0.001, 'input': f'one {form} with {box} = 100.00', 'lines': outs, 'credited': tot}


def run(tier, seed, t0):
    tasks = []
    for year in extract.YEARS:
        cat = linevc.Cat.get(year)
        for fname, form in cat.forms.items():
            if fname.endswith(':spouse') or fname.split(':')[0] in extract.NUMBERED:
                continue
            tasks.append(Task(f'C16/{year}/renumber/{fname}', renumbering, year, fname, weight=len(form.fields())))
        tasks.append(Task(f'C16/{year}/monotone', monotone, year, weight=400))
        tasks.append(Task(f'C16/{year}/withholding', withholding, year, weight=300))
        tasks.append(Task(f'C16/{year}/withheld-boxes', withheld_boxes, year, weight=100))
        tasks.append(Task(f'C16/{year}/rows', row_symmetry, year, weight=100))
        tasks.append(Task(f'C16/{year}/agi', agi_monotone, year, weight=60))
        tasks.append(Task(f'C16/{year}/sums', sums_count_every_copy, year, weight=30))
    obs = oblig.run_tasks(tasks)
    functions = sorted({o.function for o in obs if o.function and not o.bounded})
    return oblig.finish('C16', tier, seed, obs, t0, functions=functions[:50] + [f'... {len(functions)} in all'],
                        trusted_base=base.TRUSTED + ['contracts/listing_lines.json'],
                        assumptions=base.assumptions('A-PY', 'A-REAL', 'A-READ', 'A-SIGMA') + [
                            'Sigma-permutation lemma: a canonical sum over all copies n < count is invariant under renumbering the copies (A-IND)',
                            'two-copy VCs compare only pairs in which every line of the cone has a value in both returns ("both returns solve")',
                            'figure_tax is monotone in the amount for a fixed status (C07)',
                            'more wages is modelled as a larger Form 1040 wage line (the sum of W-2 box 1, monotone in each copy by the Sigma lemma)'],
                        checker_cmd='./check C16', min_obligations=60)
