"""C07 - income tax follows the statutory rate schedule.

Spec: contracts/official.py (bracket schedules of the Rev. Procs, IRS table row
structure).  Code under contract: TAX_TABLE, TAX_WORKSHEET_VALUES,
figure_tax_table, figure_tax_worksheet, figure_tax of each year.
"""
import ast
import importlib
import importlib.util
import os
import time
from fractions import Fraction as F

import z3

from .. import base, extract, linevc, oblig, replay, smt, sym
from ..oblig import Ob, Task
from ..sym import SV


def official():
    spec = importlib.util.spec_from_file_location('official', os.path.join(oblig.VERIF, 'contracts', 'official.py'))
    m = importlib.util.module_from_spec(spec)
    spec.loader.exec_module(m)
    return m


def module(year):
    return importlib.import_module(f'habutax.forms.ty{year}.f1040_figure_tax')


def fid(year, name):
    return f'forms/ty{year}/f1040_figure_tax.py:{name}'


def status_enum(year):
    import habutax.enum as E
    return E.filing_status_2021 if year == 2021 else E.filing_status


def replay_tax(year, x, member_name, expected):
    m = module(year)
    st = status_enum(year)[member_name]
    try:
        got = m.figure_tax(x, st)
        ok = expected is not None and abs(got - float(expected)) < 0.005
        return {'reproduced': not ok, 'call': f'figure_tax({x!r}, {member_name})', 'returned': got, 'expected': None if expected is None else float(expected)}
    except BaseException as ex:
        return {'reproduced': True, 'call': f'figure_tax({x!r}, {member_name})', 'raised': f'{type(ex).__name__}: {str(ex)[:200]}',
                'expected': None if expected is None else float(expected)}


COLNAME = {2: 'Single', 3: 'MarriedFilingJointly', 4: 'MarriedFilingSeparately', 5: 'HeadOfHousehold'}


def ground_rows(year, lo_ix, hi_ix):
    """(a),(b): each code row is an IRS row and its four cells equal the spec."""
    off = official()
    m = module(year)
    obs = []
    rows = m.TAX_TABLE[lo_ix:hi_ix]
    for row in rows:
        t0 = time.time()
        lo, hi = row[0], row[1]
        oid = f'C07/{year}/TAX_TABLE/row=[{lo},{hi})'
        bad = None
        if not (isinstance(lo, int) and isinstance(hi, int) and off.is_irs_row(lo, hi)):
            bad = (f'[{lo},{hi}) is not a row of the IRS Tax Table structure', None, None)
        else:
            for c in (2, 3, 4, 5):
                want = off.table_cell(year, off.COLUMN_STATUS[c], lo, hi)
                if row[c] != want:
                    bad = (f'cell column {c} ({off.COLUMN_STATUS[c]}) is {row[c]}, statutory value is {want}', c, want)
                    break
        if bad is None:
            obs.append(Ob(id=oid, backend='ground-eval', function=fid(year, 'TAX_TABLE'), time_s=time.time() - t0,
                          clause='row is an IRS table row and each of its 4 cells equals round_half_up(tax_y(status, midpoint))',
                          vc=f'{row} vs spec {[off.table_cell(year, off.COLUMN_STATUS[c], lo, hi) for c in (2, 3, 4, 5)]}'))
        else:
            text, c, want = bad
            x = float(lo)
            rep = replay_tax(year, x, COLNAME[c or 2], want) if c else {'reproduced': True, 'note': text}
            obs.append(Ob(id=oid, status=oblig.REFUTED, backend='ground-eval', function=fid(year, 'TAX_TABLE'),
                          clause=text, vc=str(row), solver_output='ground evaluation in exact rationals',
                          witness={'row': list(row), 'column': c, 'taxable_amount': x}, replay=rep,
                          replay_spec={'kind': 'tax', 'year': year, 'x': x, 'status': COLNAME[c or 2], 'expected': want}))
    return obs


class TaxInterp(sym.Interp):
    """figure_tax with the two lookups by contract (uninterpreted)."""
    def __init__(self, run, year=None, by_contract=False):
        super().__init__(run)
        self.year = year
        self.by_contract = by_contract

    def getattr_hook(self, obj, attr, node):
        if isinstance(obj, SV) and obj.kind == 'enum':
            try:
                return obj.cls[attr]
            except KeyError:
                raise sym.Raised(AttributeError(f'{obj.cls.__name__} has no member {attr}'), node)
        return NotImplemented

    def call_hook(self, f, args, kwargs, node):
        if self.by_contract and getattr(f, '__name__', '') in ('figure_tax_table', 'figure_tax_worksheet'):
            x, ix = args
            self.run.path.lookups = getattr(self.run.path, 'lookups', []) + [(f.__name__, x, ix)]
            fn = z3.Function(f.__name__, z3.RealSort(), z3.IntSort(), z3.RealSort())
            if ix is None:
                raise sym.Raised(TypeError('index None'), node)
            return SV('real', fn(sym.term(x, 'real'), sym.term(ix, 'int')))
        return NotImplemented


def table_loop(year, lo_ix, hi_ix):
    """(c) loop contract of figure_tax_table, row by row on the real loop body."""
    m = module(year)
    fn = m.figure_tax_table
    fnode = extract.func_ast(fn)
    loops = [s for s in fnode.body if isinstance(s, ast.For)]
    obs = []
    if len(loops) != 1 or not isinstance(fnode.body[-1], ast.Assert):
        return [Ob(id=f'C07/{year}/figure_tax_table/shape', status=oblig.UNDECIDED, function=fid(year, 'figure_tax_table'),
                   solver_output='function no longer has the shape "for row in TAX_TABLE: ...; assert False"; loop contract not applicable')]
    loop = loops[0]
    x = z3.Real('taxable_amount')
    c = z3.Int('filing_status_column')
    table = m.TAX_TABLE
    ex = sym.Explorer()
    for k in range(lo_ix, min(hi_ix, len(table))):
        row = table[k]
        t0 = time.time()
        lo, hi = row[0], row[1]

        def body(run, row=row):
            it = TaxInterp(run, year)
            fr = sym.Frame({'taxable_amount': SV('real', x), 'filing_status_column': SV('int', c)}, fn)
            it.assign(loop.target, row, fr)
            try:
                it.exec_block(loop.body, fr)
            except sym._Return as r:
                return ('return', r.v)
            return ('next', None)
        base_c = [c >= 2, c <= 5]
        paths = ex.explore(body, base_conds=base_c)
        oid = f'C07/{year}/figure_tax_table/row=[{lo},{hi})'
        inrow = z3.And(x >= lo, x < hi)
        ok = True
        why = ''
        wit = None
        ret_conds = []
        for p in paths:
            cond = z3.And(*p.conds[2:]) if len(p.conds) > 2 else z3.BoolVal(True)
            if p.outcome[0] != 'return':
                ok, why = False, f'loop body outcome {p.outcome}'
                break
            kind, val = p.outcome[1]
            if kind == 'return':
                ret_conds.append(cond)
                # value must be the cell of the selected column
                cell = z3.RealVal(0)
                for cc in (2, 3, 4, 5):
                    cell = z3.If(c == cc, sym.real_of(row[cc]), cell)
                if sym.kind_of(val) != 'real':
                    ok, why = False, f'returns {sym.pytype_name(val)}, not float'
                    break
                st, model, be, secs, txt = smt.prove(base_c + [cond], sym.term(val, 'real') == cell)
                if st != 'discharged':
                    ok, why, wit = False, f'return value is not row[filing_status_column] ({txt})', model
                    break
        if ok:
            rc = z3.Or(*ret_conds) if ret_conds else z3.BoolVal(False)
            st, model, be, secs, txt = smt.prove(base_c, rc == inrow)
            if st != 'discharged':
                ok, why, wit = False, f'the row is selected under a condition different from {lo} <= amount < {hi} ({txt})', model
        if ok:
            obs.append(Ob(id=oid, backend='z3', function=fid(year, 'figure_tax_table'), time_s=time.time() - t0,
                          clause=f'loop body on row {k}: returns float(row[column]) exactly when {lo} <= amount < {hi}, otherwise falls through',
                          vc=f'forall amount, column in 2..5: (returns <=> {lo}<=amount<{hi}) and value == row[column]'))
        else:
            xv = float(lo)
            if wit and 'taxable_amount' in wit:
                try:
                    xv = float(F(wit['taxable_amount'].replace('?', '')))
                except Exception:
                    pass
            off = official()
            want = off.table_cell(year, 'Single', lo, hi) if off.is_irs_row(lo, hi) else None
            obs.append(Ob(id=oid, status=oblig.REFUTED, function=fid(year, 'figure_tax_table'), clause=why, solver_output=why,
                          witness={'taxable_amount': xv, 'model': wit}, replay=replay_tax(year, xv, 'Single', want),
                          replay_spec={'kind': 'tax', 'year': year, 'x': xv, 'status': 'Single', 'expected': want}))
    return obs


def table_chain(year):
    """Invariant chain: rows are contiguous from 0 to 100000 (so the trailing assert is unreachable
    and exactly one row matches every amount in [0, 100000))."""
    off = official()
    m = module(year)
    t = m.TAX_TABLE
    obs = []
    f = fid(year, 'figure_tax_table')
    x = z3.Real('taxable_amount')

    def gap_ob(oid, hyp, goal, clause, xs):
        t0 = time.time()
        st, model, be, secs, txt = smt.prove(hyp, goal)
        if st == 'discharged':
            return Ob(id=oid, backend=be, function=f, clause=clause, vc=f'{hyp} => {goal}', time_s=time.time() - t0)
        xv = xs
        want = None
        for lo, hi in off.irs_rows():
            if lo <= xv < hi:
                want = off.table_cell(year, 'Single', lo, hi)
        return Ob(id=oid, status=oblig.REFUTED if st == 'refuted' else oblig.UNDECIDED, backend=be, function=f, clause=clause,
                  vc=f'{hyp} => {goal}', solver_output=txt, witness={'taxable_amount': xv, 'model': model},
                  replay=replay_tax(year, float(xv), 'Single', want),
                  replay_spec={'kind': 'tax', 'year': year, 'x': float(xv), 'status': 'Single', 'expected': want})
    obs.append(gap_ob(f'C07/{year}/figure_tax_table/invariant/init', [x >= 0], x >= t[0][0],
                      'invariant holds at loop entry: amount >= lower bound of first row', 0))
    for k in range(len(t) - 1):
        lo, hi, nlo = t[k][0], t[k][1], t[k + 1][0]
        if hi == nlo:
            continue  # summarised below
        # Inv_k: x >= lo_k ; not selected => x >= hi_k ; need Inv_{k+1}: x >= lo_{k+1}, and rows must not overlap
        if nlo > hi:
            obs.append(gap_ob(f'C07/{year}/figure_tax_table/invariant/gap=[{hi},{nlo})',
                              [x >= lo, z3.Not(z3.And(x >= lo, x < hi)), x < 100000], x >= nlo,
                              f'invariant preserved after row [{lo},{hi}): amount not in the row implies amount >= {nlo} (next row start); '
                              f'otherwise no row matches and the trailing assert fires', hi))
        else:
            obs.append(gap_ob(f'C07/{year}/figure_tax_table/invariant/overlap=[{nlo},{hi})',
                              [x >= nlo, x < hi], z3.BoolVal(False), f'rows [{lo},{hi}) and the next one overlap', nlo))
    contiguous = sum(1 for k in range(len(t) - 1) if t[k][1] == t[k + 1][0])
    obs.append(Ob(id=f'C07/{year}/figure_tax_table/invariant/preserved-contiguous', backend='ground-eval', function=f,
                  clause=f'{contiguous} of {len(t) - 1} consecutive row pairs satisfy hi_k == lo_k+1, which makes Inv_k+1 (amount >= lo_k+1) follow from Inv_k and "row k not selected"',
                  vc='hi_k == lo_{k+1}'))
    obs.append(gap_ob(f'C07/{year}/figure_tax_table/invariant/exit', [x >= t[-1][1], x < 100000], z3.BoolVal(False),
                      'after the last row the invariant contradicts amount < 100000: the trailing `assert False` is unreachable', t[-1][1]))
    # (f) monotone cells
    for c in (2, 3, 4, 5):
        bad = [k for k in range(len(t) - 1) if t[k][c] > t[k + 1][c]]
        if not bad:
            obs.append(Ob(id=f'C07/{year}/TAX_TABLE/monotone/col={c}', backend='ground-eval', function=fid(year, 'TAX_TABLE'),
                          clause='cells are non-decreasing down the column', vc=f'{len(t) - 1} comparisons'))
        else:
            k = bad[0]
            obs.append(Ob(id=f'C07/{year}/TAX_TABLE/monotone/col={c}/row={t[k + 1][0]}', status=oblig.REFUTED, backend='ground-eval',
                          function=fid(year, 'TAX_TABLE'), clause=f'tax decreases from row {t[k][:2]} to {t[k + 1][:2]}',
                          witness={'taxable_amount': t[k + 1][0]},
                          replay={'reproduced': True, 'lower_row': list(t[k]), 'upper_row': list(t[k + 1])}))
    return obs


def spec_term(year, sched, x):
    """Bracket formula as a z3 term (piecewise linear)."""
    off = official()
    ends = off.BRACKETS[year][sched]
    total = F(0)
    lo = F(0)
    pieces = []
    for r, hi in zip(off.RATES, ends + [None]):
        pieces.append((hi, z3.RealVal(str(total)) + (x - z3.RealVal(str(lo))) * z3.RealVal(str(r))))
        if hi is not None:
            total += (F(hi) - lo) * r
            lo = F(hi)
    t = pieces[-1][1]
    for hi, e in reversed(pieces[:-1]):
        t = z3.If(x <= hi, e, t)
    return t


def worksheet(year):
    """(d) figure_tax_worksheet: every path of the real function, symbolic amount."""
    off = official()
    m = module(year)
    fn = m.figure_tax_worksheet
    x = z3.Real('taxable_amount')
    obs = []
    ex = sym.Explorer()
    dom = [x >= 100000, x <= off.SUPPORTED_MAX]
    for ix in (2, 3, 4, 5):
        sched = off.COLUMN_STATUS[ix]
        spec = spec_term(year, sched, x)

        def thunk(run):
            return TaxInterp(run, year).call_function(fn, [SV('real', x), ix])
        paths = ex.explore(thunk, base_conds=dom)
        for pi, p in enumerate(paths):
            t0 = time.time()
            oid = f'C07/{year}/figure_tax_worksheet/{sched}/path={p.sig() or "-"}'
            if p.outcome[0] == 'return':
                val = p.outcome[1]
                st, model, be, secs, txt = smt.prove(p.conds, sym.term(val, 'real') == spec)
                clause = f'on this path ({sched}) amount*rate - subtraction == bracket formula of {off.BRACKET_SOURCE[year]}'
            else:
                st, model, be, secs, txt = smt.prove(p.conds, z3.BoolVal(False))
                clause = f'path ending in {p.outcome} is unreachable for 100000 <= amount <= 1e12 ({sched})'
            if st == 'discharged':
                obs.append(Ob(id=oid, backend=be, function=fid(year, 'figure_tax_worksheet'), clause=clause,
                              vc=' AND '.join(str(c) for c in p.conds)[:400], time_s=time.time() - t0))
            else:
                xv = 100000.0
                if model and 'taxable_amount' in model:
                    try:
                        xv = float(F(model['taxable_amount'].replace('?', '')))
                    except Exception:
                        pass
                want = off.tax(year, sched, F(repr(xv)))
                obs.append(Ob(id=oid, status=oblig.REFUTED if st == 'refuted' else oblig.UNDECIDED, backend=be,
                              function=fid(year, 'figure_tax_worksheet'), clause=clause, solver_output=txt,
                              vc=' AND '.join(str(c) for c in p.conds)[:400], witness={'taxable_amount': xv, 'status': COLNAME[ix], 'model': model},
                              replay=replay_tax(year, xv, COLNAME[ix], want),
                              replay_spec={'kind': 'tax', 'year': year, 'x': xv, 'status': COLNAME[ix], 'expected': float(want)}))
        # continuity / monotonicity across the 100000 boundary: last table cell <= worksheet(100000)
        last = m.TAX_TABLE[-1]
        w = off.tax(year, sched, 100000)
        if last[ix] <= w:
            obs.append(Ob(id=f'C07/{year}/boundary-100000/{sched}', backend='ground-eval', function=fid(year, 'figure_tax'),
                          clause='tax is non-decreasing across the table/worksheet boundary', vc=f'{last[ix]} <= {float(w)}'))
        else:
            obs.append(Ob(id=f'C07/{year}/boundary-100000/{sched}', status=oblig.REFUTED, backend='ground-eval', function=fid(year, 'figure_tax'),
                          clause=f'tax drops at 100000: table {last[ix]} > worksheet {float(w)}', witness={'taxable_amount': 100000.0},
                          replay=replay_tax(year, 100000.0, COLNAME[ix], w)))
    return obs


def dispatch(year):
    """(e) figure_tax: status -> column, table below 100000, worksheet at or above; total on the five statuses."""
    off = official()
    m = module(year)
    fn = m.figure_tax
    enum = status_enum(year)
    sort, consts, none, cls = sym.enum_sort(enum)
    s = z3.Const('filing_status', sort)
    x = z3.Real('taxable_amount')
    ex = sym.Explorer()

    def thunk(run):
        return TaxInterp(run, year, by_contract=True).call_function(fn, [SV('real', x), SV('enum', s, enum)])
    paths = ex.explore(thunk, base_conds=[s != none, x >= 0, x <= off.SUPPORTED_MAX])
    obs = []
    seen = {}
    for p in paths:
        t0 = time.time()
        # which member(s) does this path cover
        for name, cst in consts.items():
            if smt.satisfiable(p.conds + [s == cst]) != z3.sat:
                continue
            oid_b = f'C07/{year}/figure_tax/{name}'
            lookups = getattr(p, 'lookups', [])
            want_ix = {v: k for k, v in off.COLUMN_STATUS.items()}[off.STATUS_SCHEDULE[name]]
            ok = p.outcome[0] == 'return' and len(lookups) == 1
            why = ''
            if ok:
                lname, lx, lix = lookups[0]
                below = smt.satisfiable(p.conds + [s == cst, x < 100000]) == z3.sat
                above = smt.satisfiable(p.conds + [s == cst, x >= 100000]) == z3.sat
                if lix != want_ix:
                    ok, why = False, f'{name} uses column/index {lix}, statutory schedule is {off.STATUS_SCHEDULE[name]} (index {want_ix})'
                elif lname == 'figure_tax_table' and above:
                    ok, why = False, 'table lookup used at or above 100000'
                elif lname == 'figure_tax_worksheet' and below:
                    ok, why = False, 'worksheet used below 100000'
                elif not (isinstance(lx, SV) and lx.t.sexpr() == x.sexpr()):
                    ok, why = False, 'lookup is not applied to the taxable amount itself'
                part = 'table' if lname == 'figure_tax_table' else 'worksheet'
            else:
                why = f'path outcome {p.outcome} with lookups {lookups}'
                part = 'x'
            oid = f'{oid_b}/{part}'
            if ok:
                obs.append(Ob(id=oid, backend='symexec+z3', function=fid(year, 'figure_tax'), time_s=time.time() - t0,
                              clause=f'{name}: {part} lookup with index {want_ix} ({off.STATUS_SCHEDULE[name]}) on the proper side of 100000',
                              vc=' AND '.join(str(c) for c in p.conds)[:300]))
                seen.setdefault(name, set()).add(part)
            else:
                xv = 50000.0 if part != 'worksheet' else 250000.0
                sched = off.STATUS_SCHEDULE[name]
                want = None
                for lo, hi in off.irs_rows():
                    if lo <= xv < hi:
                        want = off.table_cell(year, sched, lo, hi)
                if xv >= 100000:
                    want = off.tax(year, sched, F(repr(xv)))
                obs.append(Ob(id=oid, status=oblig.REFUTED, backend='symexec+z3', function=fid(year, 'figure_tax'), clause=why,
                              witness={'status': name, 'taxable_amount': xv}, replay=replay_tax(year, xv, name, want),
                              replay_spec={'kind': 'tax', 'year': year, 'x': xv, 'status': name, 'expected': None if want is None else float(want)}))
    for name in consts:
        if seen.get(name) != {'table', 'worksheet'} and not any(o.id.startswith(f'C07/{year}/figure_tax/{name}/') and o.status == oblig.REFUTED for o in obs):
            obs.append(Ob(id=f'C07/{year}/figure_tax/{name}/total', status=oblig.REFUTED, backend='symexec+z3', function=fid(year, 'figure_tax'),
                          clause=f'figure_tax is not defined on both sides of 100000 for {name}: covered {sorted(seen.get(name, []))}',
                          witness={'status': name}, replay=replay_tax(year, 50000.0, name, None)))
    return obs


def callers(year):
    """(g) every place a line applies the schedule: it calls the figure_tax of its own tax year, on the amount the form names
    (contracts/tax_callers.json) and with the return's filing status; no line calls it that the table does not list."""
    import ast
    import json
    with open(os.path.join(oblig.VERIF, 'contracts', 'tax_callers.json')) as f:
        table = json.load(f)['callers']
    cat = linevc.Cat.get(year)
    obs = []
    found = set()
    for form, fld in extract.all_lines(year):
        name = fld.name()
        fn = extract.line_function(fld)
        try:
            node = extract.func_ast(fn)
        except Exception:
            continue
        stack, seen, mentions = [fn], set(), False
        while stack and not mentions:
            g = stack.pop()
            if id(g) in seen:
                continue
            seen.add(id(g))
            try:
                gnode = extract.func_ast(g)
            except Exception:
                continue
            for n in ast.walk(gnode):
                if isinstance(n, ast.Name):
                    if n.id == 'figure_tax' or n.id.startswith('figure_tax'):
                        mentions = True
                    ok, obj = extract.resolve_name(g, n.id)
                    import types as _types
                    if ok and isinstance(obj, _types.FunctionType) and obj.__code__.co_filename.startswith(extract.REPO) and 'figure_tax' not in obj.__code__.co_filename:
                        stack.append(obj)
                    elif ok and isinstance(obj, _types.FunctionType) and obj.__name__ == 'figure_tax':
                        mentions = True
                    elif ok and isinstance(obj, dict) and any(isinstance(x, _types.FunctionType) for x in obj.values()):
                        mentions = True          # a table of functions (closures built in a loop): explore the line
        if not mentions and name not in table:
            continue
        fidn = f'{fn.__code__.co_filename.split("habutax/")[-1]}:{fn.__code__.co_firstlineno}'
        paths = linevc.explore_line(year, fld)
        calls = [(p, c) for p in paths for c in getattr(p, 'figure_tax_calls', [])]
        oid = f'C07/{year}/caller/{name}'
        if any(p.outcome[0] == 'unsupported' for p in paths):
            obs.append(Ob(id=oid, status=oblig.UNDECIDED, function=fidn, solver_output='line outside the subset: ' + str([p.outcome[1] for p in paths if p.outcome[0] == 'unsupported'][:1])))
            continue
        if not calls:
            if name in table:
                obs.append(Ob(id=oid, status=oblig.REFUTED, backend='symexec', function=fidn, clause=f'NOT: {name} applies the tax schedule (contracts/tax_callers.json lists it as a caller)',
                              witness={}, replay={'reproduced': True, 'static': True}))
            continue
        found.add(name)
        want = table.get(name)
        bad = None
        for p, (st, a, r, f) in calls:
            mod = getattr(f, '__module__', '')
            if f'.ty{year}.' not in mod:
                bad = (f'{name} ({year}) figures the tax with {mod}.figure_tax - the schedule of another year', p, None)
                break
            if want is None:
                bad = (f'{name} applies the tax schedule but is not listed in contracts/tax_callers.json', p, None)
                break
            ws, wk = c08_symbol(want, year)
            ssym, _ = c08_symbol('i|1040.filing_status', year, enum=True)
            hyp = p.conds + p.facts
            if ws is None or smt.prove(hyp, a == (z3.ToReal(ws) if wk == 'int' else ws))[0] != 'discharged':
                bad = (f'{name} figures the tax on another amount than {want.split("|")[1]}', p, a)
                break
            if ssym is None or smt.prove(hyp, st == ssym)[0] != 'discharged':
                bad = (f'{name} figures the tax for another status than the filing status of the return', p, st)
                break
        if bad is None:
            obs.append(Ob(id=oid, backend='z3', function=fidn, clause=f'{name} figures the tax with the {year} schedule on {want.split("|")[1]} for the filing status of the return', vc=f'{len(calls)} call(s) on {len(paths)} path(s)'))
        else:
            msg, p, term = bad
            mdl, _ = replay.solve_model(p)
            rep, wit = c08_native(year, name, mdl)
            obs.append(Ob(id=oid, status=oblig.REFUTED, backend='z3', function=fidn, clause='NOT: ' + msg, witness=wit, replay=dict(rep, reproduced=False, note='the call site itself is the evidence (function object and argument term of the symbolic run)'),
                          solver_output=str(term)[:200]))
    for name in table:
        if name not in found and name in cat.fields and not any(o.id.endswith('/' + name) for o in obs):
            obs.append(Ob(id=f'C07/{year}/caller/{name}', status=oblig.REFUTED, backend='symexec', function=name, clause=f'NOT: {name} applies the tax schedule', witness={}, replay={'reproduced': True, 'static': True}))
    return obs


def c08_symbol(name, year, enum=False):
    from . import c08
    if enum:
        return c08.find_symbol(name, c08.status_enum(year))
    return c08.find_symbol(name)


def c08_native(year, lname, model):
    from . import c08
    try:
        return c08.native(year, lname, model)
    except Exception as ex:
        return {'error': str(ex)[:100]}, {}


def spec_lemmas(year):
    """(f) on the spec: monotone, slope <= top rate; QSS == MFJ is by STATUS_SCHEDULE + dispatch."""
    off = official()
    obs = []
    x, y = z3.Reals('x y')
    for sched in ('Single', 'MFJ', 'MFS', 'HoH'):
        fx, fy = spec_term(year, sched, x), spec_term(year, sched, y)
        t0 = time.time()
        st, model, be, secs, txt = smt.prove([x >= 0, y >= x], z3.And(fy >= fx, fy - fx <= z3.RealVal('37/100') * (y - x)))
        obs.append(Ob(id=f'C07/{year}/spec/monotone-slope/{sched}', status=oblig.DISCHARGED if st == 'discharged' else oblig.UNDECIDED,
                      backend=be, function='contracts/official.py:tax', time_s=time.time() - t0,
                      clause='bracket formula is non-decreasing with slope at most 37% (so the code, equal to it, is too; table rows add at most one rounding step)',
                      vc='0<=x<=y => 0 <= tax(y)-tax(x) <= 0.37*(y-x)', solver_output=txt))
    return obs


def bounded_float(year, n_random, seed):
    """Bounded stand-in for A-REAL: native float evaluation vs exact rationals."""
    import random
    off = official()
    m = module(year)
    enum = status_enum(year)
    rnd = random.Random(seed * 7919 + year)
    cases = 0
    for name in enum.__members__:
        sched = off.STATUS_SCHEDULE[name]
        st = enum[name]
        pts = []
        for e in off.BRACKETS[year][sched]:
            pts += [e - 0.01, float(e), e + 0.01]
        pts += [100000.0, 100000.01, 99999.99, 0.0, 0.01, 1e12]
        for lo, hi in off.irs_rows():
            pts += [float(lo), hi - 0.01]
            if (lo // 50) % 16 == seed % 16:
                pts += [lo + 0.49, lo + 0.51, (lo + hi) / 2]
        pts += [round(rnd.uniform(100000, 2e6), 2) for _ in range(n_random)]
        pts += [round(10 ** rnd.uniform(5, 12), 2) for _ in range(n_random)]
        for xv in pts:
            if xv < 0:
                continue
            cases += 1
            try:
                got = m.figure_tax(xv, st)
            except BaseException as ex:
                return Ob(id=f'C07/{year}/bounded-float', status=oblig.REFUTED, backend='native', bounded=True, cases=cases,
                          clause=f'figure_tax({xv}, {name}) raised {type(ex).__name__}', witness={'taxable_amount': xv, 'status': name},
                          replay=replay_tax(year, xv, name, None), function=fid(year, 'figure_tax'))
            if xv >= 100000:
                want = float(off.tax(year, sched, F(repr(xv))))
            else:
                want = None
                for lo, hi in off.irs_rows():
                    if lo <= xv < hi:
                        want = float(off.table_cell(year, sched, lo, hi))
            if want is not None and abs(got - want) > 0.005 + 1e-9 * abs(want):
                return Ob(id=f'C07/{year}/bounded-float', status=oblig.REFUTED, backend='native', bounded=True, cases=cases,
                          clause=f'float result {got} differs from exact {want} by more than half a cent', function=fid(year, 'figure_tax'),
                          witness={'taxable_amount': xv, 'status': name}, replay=replay_tax(year, xv, name, want))
    return Ob(id=f'C07/{year}/bounded-float', backend='native', bounded=True, cases=cases, function=fid(year, 'figure_tax'),
              note=f'IEEE-754 evaluation agrees with exact rationals to half a cent at bracket ends +-1 cent and {2 * n_random} seeded amounts per status up to 1e12')


def bounded_whole_dollars(year):
    """Thorough tier: every whole dollar in [0, 100000) natively, all statuses."""
    off = official()
    m = module(year)
    enum = status_enum(year)
    cases = 0
    rows = off.irs_rows()
    for name in enum.__members__:
        sched = off.STATUS_SCHEDULE[name]
        st = enum[name]
        for lo, hi in rows:
            want = float(off.table_cell(year, sched, lo, hi))
            for xv in range(lo, hi):
                cases += 1
                try:
                    got = m.figure_tax(float(xv), st)
                except BaseException as ex:
                    return Ob(id=f'C07/{year}/bounded-whole-dollars', status=oblig.REFUTED, backend='native', bounded=True, cases=cases,
                              clause=f'figure_tax({xv}, {name}) raised {type(ex).__name__}', witness={'taxable_amount': xv, 'status': name},
                              replay=replay_tax(year, float(xv), name, want), function=fid(year, 'figure_tax'))
                if got != want:
                    return Ob(id=f'C07/{year}/bounded-whole-dollars', status=oblig.REFUTED, backend='native', bounded=True, cases=cases,
                              clause=f'figure_tax({xv}, {name}) = {got}, statutory {want}', witness={'taxable_amount': xv, 'status': name},
                              replay=replay_tax(year, float(xv), name, want), function=fid(year, 'figure_tax'))
    return Ob(id=f'C07/{year}/bounded-whole-dollars', backend='native', bounded=True, cases=cases, function=fid(year, 'figure_tax'),
              note='every whole-dollar income in [0,100000) x 5 statuses evaluated natively')


def run(tier, seed, t0):
    tasks = []
    for year in extract.YEARS:
        n = len(module(year).TAX_TABLE)
        step = 130
        for lo in range(0, n, step):
            tasks.append(Task(f'C07/{year}/ground/{lo}', ground_rows, year, lo, lo + step))
            tasks.append(Task(f'C07/{year}/loop/{lo}', table_loop, year, lo, lo + step, weight=3))
        tasks.append(Task(f'C07/{year}/chain', table_chain, year))
        tasks.append(Task(f'C07/{year}/worksheet', worksheet, year, weight=2))
        tasks.append(Task(f'C07/{year}/dispatch', dispatch, year, weight=2))
        tasks.append(Task(f'C07/{year}/callers', callers, year, weight=3))
        tasks.append(Task(f'C07/{year}/spec', spec_lemmas, year))
        tasks.append(Task(f'C07/{year}/float', bounded_float, year, 50 if tier == 'quick' else 100000, seed, weight=1 if tier == 'quick' else 50))
        if tier == 'thorough':
            tasks.append(Task(f'C07/{year}/whole', bounded_whole_dollars, year, weight=60))
    obs = oblig.run_tasks(tasks)
    functions = []
    for y in extract.YEARS:
        functions += [fid(y, n) for n in ('TAX_TABLE', 'TAX_WORKSHEET_VALUES', 'figure_tax_table', 'figure_tax_worksheet', 'figure_tax')]
    return oblig.finish('C07', tier, seed, obs, t0, functions=functions, trusted_base=base.TRUSTED + ['contracts/official.py (transcribed bracket schedules, IRS row structure)'],
                        assumptions=base.assumptions('A-PY', 'A-REAL', 'A-ORACLE', 'A-ENUM') + [
                            'the loop contract of figure_tax_table is applied to the function shape "for row in TAX_TABLE: if <cond>: return <expr>" followed by assert False; a different shape is reported undecided',
                            'call-site preconditions 0 <= amount of the callers (1040.16, worksheet lines) are obligations of C15 (non-negativity of the lines passed)'],
                        checker_cmd='./check C07', min_obligations=10000)
