"""C11 - lines only ever see validated, correctly typed, finite input values.

(1) InputStore.__getitem__ : outcome order spec-known -> provided -> valid -> convert (real code, config by A-CFG);
(2) every Input class: valid(s) true => value(s) returns a value of the declared type, finite for numbers;
    valid never raises (symbolic strings; strip/lower/replace uninterpreted, float()/int() by assumed grammar);
(3) prompt_input returns (v, True) only with missing.valid(v); Ctrl-C -> (None, False); other exceptions propagate;
(4) Solver._attempt_input stores an answer only after the validity assertion (from the solve unit);
(5) bounded stand-in: native enumeration of short adversarial strings against the same contracts.
"""
import itertools
import math
import time

import z3

from .. import base, corevc, extract, oblig, smt, sym
from ..corevc import AObj, Opaque, SV, ZMap, fresh, wrap, OBJ
from ..oblig import Ob, Task
from ..sym import Raised, Unsupported

STR = z3.StringSort()
VALS = z3.DeclareSort('InVal')
section_of = z3.Function('section_of', OBJ, STR)
base_of = z3.Function('base_name_of', OBJ, STR)
valid_fn = z3.Function('valid', OBJ, STR, z3.BoolSort())
value_fn = z3.Function('value', OBJ, STR, VALS)


# InputStore.__getitem__ / provides / __setitem__ are verified in store_units.py (explicit ConfigParser contract incl. [DEFAULT]).


def native_store():
    """Replay: run the real InputStore on concrete cases of the four outcomes, for every input class."""
    import configparser
    from habutax import inputs

    class F(object):
        def name(self):
            return 'f'
    out = []
    for text in ('5', 'nope', None):
        cfg = configparser.ConfigParser()
        cfg.add_section('f')
        if text is not None:
            cfg.set('f', 'x', text)
        i = inputs.IntegerInput('x')
        i.__form_init__(F())
        st = inputs.InputStore(cfg, {'f.x': i})
        try:
            out.append({'text': text, 'returned': repr(st['f.x'])})
        except BaseException as ex:
            out.append({'text': text, 'raised': type(ex).__name__})
    want = [{'text': '5', 'returned': '5'}, {'text': 'nope', 'raised': 'InvalidInput'}, {'text': None, 'raised': 'MissingInput'}]
    bad = out != want
    # an input that was not supplied must be reported missing, whatever its type and options
    for name, make, kind in input_cases():
        cfg = configparser.ConfigParser()
        cfg.add_section('f')
        i = make()
        st = inputs.InputStore(cfg, {'f.x': i})
        try:
            r = {'class': name, 'text': None, 'returned': repr(st['f.x'])}
        except BaseException as ex:
            r = {'class': name, 'text': None, 'raised': type(ex).__name__}
        if r.get('raised') != 'MissingInput':
            bad = True
            out.append(r)
    return {'reproduced': bad, 'runs': out}


class InputInterp(sym.Interp):
    """Input.valid / Input.value on a symbolic string; compiled-regex match by contract."""
    def call_hook(self, f, args, kwargs, node):
        import re
        if getattr(f, '__name__', '') == 'match' and isinstance(getattr(f, '__self__', None), re.Pattern):
            fn = z3.Function(f're_match_{abs(hash(f.__self__.pattern)) % 10**8}', STR, z3.BoolSort())
            return SV('bool', fn(sym.term(args[0])))
        return NotImplemented


def input_cases():
    from habutax import inputs
    import habutax.enum as E

    class F(object):
        def name(self):
            return 'f'
    mk = [
        ('StringInput', lambda: inputs.StringInput('x'), 'str'),
        ('BooleanInput', lambda: inputs.BooleanInput('x'), 'bool'),
        ('IntegerInput', lambda: inputs.IntegerInput('x'), 'int'),
        ('FloatInput', lambda: inputs.FloatInput('x'), 'real'),
        ('EnumInput', lambda: inputs.EnumInput('x', E.taxpayer_or_spouse), 'enum'),
        ('EnumInput(allow_empty)', lambda: inputs.EnumInput('x', E.taxpayer_or_spouse, allow_empty=True), 'enum?'),
        ('RegexInput', lambda: inputs.RegexInput('x', '^[0-9]{9}$'), 'str'),
        ('SSNInput', lambda: inputs.SSNInput('x'), 'str'),
    ]
    out = []
    for name, f, kind in mk:
        def make(f=f):
            o = f()
            o.__form_init__(F())
            try:
                o._pyvc_symbolic = True
            except Exception:
                pass
            return o
        out.append((name, make, kind))
    return out


def input_class(name):
    case = [c for c in input_cases() if c[0] == name][0]
    _, make, kind = case
    obj = make()
    cls = type(obj)
    fid = f'inputs.py:{cls.__name__}.valid/value'
    s = z3.String('text')
    ex = sym.Explorer()

    def thunk(run):
        it = InputInterp(run)
        ok = it.call_function(cls.valid, [obj, SV('str', s)])
        run.path.valid_result = ok
        if it.truth(ok, None) if isinstance(ok, SV) else ok:
            run.path.stage = 'value'
            return ('valid', it.call_function(cls.value, [obj, SV('str', s)]))
        return ('invalid', None)
    paths = ex.explore(thunk)
    res = {}
    import importlib
    import sys as _sys
    if oblig.VERIF not in _sys.path:
        _sys.path.insert(0, oblig.VERIF)
    grammar = importlib.import_module('contracts.input_grammar')
    spec = grammar.accepts(name, obj, s, sym)
    ax = grammar.axioms(s)

    undec = set()

    def note(label, ok, detail='', model=None, undecided=False):
        cur = res.setdefault(label, [True, 0, '', None])
        cur[1] += 1
        if not ok and undecided and cur[0]:
            undec.add(label)
        if not ok and (cur[0] or (label in undec and not undecided)):
            cur[0], cur[2], cur[3] = False, detail, model
            if not undecided:
                undec.discard(label)
    nvalid = 0
    for p in paths:
        if p.outcome[0] == 'unsupported':
            return [Ob(id=f'C11/{name}/subset', status=oblig.UNDECIDED, function=fid, solver_output=p.outcome[1])]
        hyp = p.conds + p.facts
        stage = getattr(p, 'stage', 'valid')
        if p.outcome[0] == 'raise':
            m = smt.check_sat(hyp)[1]
            if stage == 'valid':
                note('valid-never-raises', False, f'valid() raised {p.outcome[1]!r}', m)
            else:
                note('accepted-text-converts-without-error', False, f'value() raised {p.outcome[1]!r} on text that valid() accepted', m)
            continue
        note('valid-never-raises', True)
        tag, v = p.outcome[1]
        if spec is not None:
            # the set of accepted texts is exactly the set the class documents (contracts/input_grammar.py), path by path
            if tag == 'invalid':
                st, model, be, secs, txt = smt.prove(hyp + ax, z3.Not(spec), strings=True)
                note('rejects-only-text-that-denotes-no-value', st == 'discharged', f'valid() rejects a text that denotes a value ({txt})', model, undecided=st not in ('discharged', 'refuted'))
            else:
                st, model, be, secs, txt = smt.prove(hyp + ax, spec, strings=True)
                note('accepts-only-text-that-denotes-a-value', st == 'discharged', f'valid() accepts a text that denotes no value of this input ({txt})', model, undecided=st not in ('discharged', 'refuted'))
        if tag == 'invalid':
            continue
        nvalid += 1
        note('accepted-text-converts-without-error', True)
        k = sym.kind_of(v)
        want = {'enum?': ('enum', 'none')}.get(kind, (kind,))
        note('converted-value-has-the-declared-type', k in want, f'value() returned {sym.pytype_name(v)}')
        if kind == 'real' and isinstance(v, SV):
            src = sym.IS_FINITE_OF.get(v.t.get_id())
            if src is not None:
                st, model, be, secs, txt = smt.prove(hyp, sym.FLOAT_FINITE(src))
                note('accepted-number-is-finite', st == 'discharged', 'valid() accepts a text for which float() yields inf or nan', model)
            else:
                note('accepted-number-is-finite', True)
    note('some-text-is-accepted', nvalid > 0, 'vacuous: no accepting path')
    obs = []
    for label, (ok, n, detail, model) in res.items():
        oid = f'C11/{name}/{label}'
        if ok:
            obs.append(Ob(id=oid, backend='symexec+z3', function=fid, clause=f'{name}: {label.replace("-", " ")}', vc=f'{n} path(s) over a symbolic input string'))
        else:
            wit = {'text': (model or {}).get('text')}
            rep = native_input(make, kind, wit['text'])
            obs.append(Ob(id=oid, status=oblig.UNDECIDED if label in undec else oblig.REFUTED, backend='symexec+z3', function=fid, clause=f'NOT: {name}: {label}', solver_output=detail, witness=wit, replay=rep,
                          replay_spec={'kind': 'input', 'class': name, 'text': wit['text']}))
    return obs


ADVERSARIAL = ['nan', 'NaN', 'inf', '-inf', 'Infinity', '1e999', '-1e999', ' nan ', '+inf', 'infinity']


def native_input(make, kind, text):
    """Replay on the real class: the model's text (if any) and the fixed adversarial list."""
    o = make()
    try:
        del o._pyvc_symbolic
    except Exception:
        pass
    runs = []
    bad = False
    texts = [t.strip('"') for t in [text] if t] + ADVERSARIAL
    for t in texts:
        try:
            ok = o.valid(t)
        except BaseException as ex:
            runs.append({'text': t, 'valid_raised': type(ex).__name__})
            bad = True
            continue
        if ok:
            try:
                v = o.value(t)
                fin = not isinstance(v, float) or math.isfinite(v)
                runs.append({'text': t, 'valid': True, 'value': repr(v), 'finite': fin})
                bad = bad or not fin
            except BaseException as ex:
                runs.append({'text': t, 'valid': True, 'value_raised': type(ex).__name__})
                bad = True
    return {'reproduced': bad, 'runs': runs[:12]}


class PromptSpec(corevc.Spec):
    def loop_invariant(self, node):
        return {'inv': lambda it, me, frame: [], 'modifies': []}

    def havoc(self, it, selfobj, attrs, frame, local_names):
        # the loop changes `value` (None or a string) and `prompt`
        if it.run.branch(fresh('value_is_none', z3.BoolSort()), where='havoc-value-none'):
            frame.locals['value'] = None
        else:
            frame.locals['value'] = SV('str', fresh('value', STR))
        frame.locals['prompt'] = SV('str', fresh('prompt', STR))

    def call_hook(self, it, f, args, kwargs, node):
        import builtins
        if f is builtins.input:
            k = it.ghost.get('kind')
            if it.run.branch(fresh('input_raises', z3.BoolSort()), where='input-raises'):
                e = k('raised by input()')
                it.ghost['raised'] = e
                raise Raised(e, node)
            return SV('str', fresh('typed', STR))
        return NotImplemented

    def opaque_call(self, it, obj, attr, args, kwargs, node):
        if obj.kind == 'input':
            if attr == 'valid':
                return SV('bool', valid_fn(obj.ref, sym.term(args[0])))
            if attr in ('name', 'help', 'format_suggestion'):
                return SV('str', z3.Function(f'in_{attr}', OBJ, STR)(obj.ref))
        raise Unsupported(f'opaque {obj.kind}.{attr}')


class PromptInterp(corevc.CoreInterp):
    def iterate_bag(self, bag, s, frame):
        return None     # the needed_by listing only builds the prompt text


def prompt_unit():
    import habutax
    fn = habutax.prompt_input
    fid = '__init__.py:prompt_input'
    obs = []
    for kname, kcls in (('KeyboardInterrupt', KeyboardInterrupt), ('EOFError', EOFError), ('RuntimeError', RuntimeError)):
        spec = PromptSpec()
        ex = sym.Explorer(feas_skip_quant=True)

        def thunk(run):
            it = PromptInterp(run, spec)
            it.ghost['kind'] = kcls
            run.path.interp = it
            missing = Opaque(fresh('missing', OBJ), 'input')
            run.path.missing = missing
            nb = corevc.ZBag.havoc(OBJ, 'needed_by')
            for f in nb.wf():
                run.fact(f)
            run.path.needed_by, run.path.needed_by0 = nb, nb.snap()
            try:
                return it.call_function(fn, [missing, nb])
            except corevc.LoopIterationDone:
                run.path.iteration_only = True
                return None
        paths = ex.explore(thunk)
        res = {}

        def note(label, ok, detail=''):
            cur = res.setdefault(label, [True, 0, ''])
            cur[1] += 1
            if not ok:
                cur[0], cur[2] = False, detail
        for p in paths:
            if p.outcome[0] == 'unsupported':
                obs.append(Ob(id=f'C11/prompt_input/{kname}/subset', status=oblig.UNDECIDED, function=fid, solver_output=p.outcome[1]))
                continue
            if getattr(p, 'iteration_only', False):
                continue
            hyp = p.conds + p.facts
            # frame: the list of waiting lines shown to the callback is the solver's own list - it is read, never changed
            e = z3.Const('_e', OBJ)
            nb, nb0 = p.needed_by, p.needed_by0
            same = smt.prove(hyp, z3.And(nb.size == nb0.size, z3.ForAll([e], nb.cnt[e] == nb0.cnt[e])))[0] == 'discharged'
            note('the-list-of-waiting-lines-is-left-as-received', same, 'needed_by is modified by the callback')
            if p.outcome[0] == 'return':
                r = p.outcome[1]
                if isinstance(r, tuple) and len(r) == 2 and r[1] is True:
                    v = r[0]
                    ok = isinstance(v, SV) and smt.prove(hyp, valid_fn(p.missing.ref, v.t))[0] == 'discharged'
                    note('an-answer-is-returned-only-if-the-validator-accepts-it', ok, str(r))
                elif isinstance(r, tuple) and r == (None, False):
                    note('ctrl-c-at-a-prompt-means-refused', kcls is KeyboardInterrupt and p.interp.ghost.get('raised') is not None, f'{kname}: {r}')
                else:
                    note('result-shape', False, str(r))
            else:
                e = p.outcome[1]
                note('other-interruptions-propagate-unchanged', kcls is not KeyboardInterrupt and e is p.interp.ghost.get('raised'), f'{kname}: {e!r}')
        for label, (ok, n, detail) in res.items():
            oid = f'C11/prompt_input/{kname}/{label}'
            if ok:
                obs.append(Ob(id=oid, backend='symexec+z3', function=fid, clause=label.replace('-', ' '), vc=f'{n} path(s); input() raising {kname}', note='C20'))
            else:
                obs.append(Ob(id=oid, status=oblig.REFUTED, backend='symexec+z3', function=fid, clause='NOT: ' + label, solver_output=detail, witness={'detail': detail},
                              replay=native_prompt_frame() if 'left-as-received' in label else {'reproduced': False}, note='C20'))
    return obs


def native_prompt_frame():
    """Concretisation of the frame: the real prompt_input shown 1, 30 and 200 waiting lines, one typed answer."""
    import builtins
    import contextlib
    import io
    import habutax

    class Fm(object):
        def full_description(self):
            return 'Form X'

        def instance(self):
            return None

    class Fl(object):
        def __init__(self, k):
            self.k = k

        def form(self):
            return Fm()

        def base_name(self):
            return f'line{self.k}'

        def name(self):
            return f'x.line{self.k}'

    class Missing(object):
        def name(self):
            return 'x.amount'

        def help(self):
            return 'An amount?'

        def format_suggestion(self):
            return ''

        def valid(self, v):
            return True
    runs, bad = [], False
    orig = builtins.input
    builtins.input = lambda prompt='': '1'
    try:
        for n in (1, 30, 200):
            lst = [Fl(k) for k in range(n)]
            before = list(lst)
            try:
                with contextlib.redirect_stdout(io.StringIO()):
                    r = habutax.prompt_input(Missing(), lst)
                runs.append({'waiting_lines_shown': n, 'left_in_the_list': len(lst), 'returned': repr(r)[:40]})
                bad = bad or lst != before
            except BaseException as ex:
                runs.append({'waiting_lines_shown': n, 'raised': type(ex).__name__})
    finally:
        builtins.input = orig
    return {'reproduced': bad, 'kind': 'prompt-frame', 'runs': runs}


def bounded_enumeration(tier):
    """Bounded stand-in: all strings of length <= L over an adversarial alphabet, every input class, native."""
    alphabet = [' ', '\t', '+', '-', '.', '_', '0', '1', '9', 'e', 'E', 'n', 'a', 'i', 'f', 'y', 'T', '٣']
    maxlen = 3 if tier == 'quick' else 5
    cases = 0
    for name, make, kind in input_cases():
        o = make()
        try:
            del o._pyvc_symbolic
        except Exception:
            pass
        for n in range(0, maxlen + 1):
            for tup in itertools.product(alphabet, repeat=n):
                t = ''.join(tup)
                cases += 1
                try:
                    ok = o.valid(t)
                except BaseException as ex:
                    return [Ob(id='C11/bounded/enumeration', status=oblig.REFUTED, backend='native', bounded=True, cases=cases, function='inputs.py', clause=f'{name}.valid({t!r}) raised {type(ex).__name__}',
                               witness={'class': name, 'text': t}, replay={'reproduced': True})]
                if ok:
                    try:
                        v = o.value(t)
                    except BaseException as ex:
                        return [Ob(id='C11/bounded/enumeration', status=oblig.REFUTED, backend='native', bounded=True, cases=cases, function='inputs.py',
                                   clause=f'{name}.value({t!r}) raised {type(ex).__name__} although valid() accepted it', witness={'class': name, 'text': t}, replay={'reproduced': True})]
                    if isinstance(v, float) and not math.isfinite(v):
                        return [Ob(id='C11/bounded/enumeration', status=oblig.REFUTED, backend='native', bounded=True, cases=cases, function='inputs.py',
                                   clause=f'{name} accepts {t!r} and converts it to {v!r}', witness={'class': name, 'text': t}, replay={'reproduced': True, 'value': repr(v)})]
    return [Ob(id='C11/bounded/enumeration', backend='native', bounded=True, cases=cases, function='inputs.py',
               note=f'all strings of length <= {maxlen} over {len(alphabet)} adversarial characters x 8 input classes: valid never raises, accepted text converts to a finite value')]


def run(tier, seed, t0):
    from . import solver_props as sp
    from . import store_units
    tasks = [Task('store', store_units.store_getitem), Task('provides', store_units.store_provides), Task('setitem', store_units.store_setitem), Task('prompt', prompt_unit), Task('bounded', bounded_enumeration, tier, weight=5)]
    for name, _, _ in input_cases():
        tasks.append(Task(f'input/{name}', input_class, name))
    tasks.append(Task('unit/solve', sp.unit_runner, 'solve', weight=10))
    # what the solver does with the store's reports: an invalid text propagates (never handled as "missing"), a wait on an input is
    # registered only for an input that is not supplied, a supplied input is never listed as unmet
    tasks.append(Task('unit/_attempt_field', sp.unit_runner, '_attempt_field', weight=2))
    obs = oblig.run_tasks(tasks)
    keep = []
    for o in obs:
        if o.id.startswith('SOLVER/'):
            # "an input that was supplied is never reported missing": an answer given at a prompt (supplied and valid, blank included) is stored
            if 'stored-answer' in o.id or 'every-answer-given' in o.id or 'prompt@' in o.id and 'declared' in o.id or (o.id.startswith('SOLVER/_attempt_field/') and any(
                    k in o.id for k in ('wait-on-input-is-justified', 'propagated-exception', 'no-internal-error', 'inputs-untouched', 'met-inputs-are-provided', 'subset'))):
                o.id = o.id.replace('SOLVER/', 'C11/solver/')
                keep.append(o)
        else:
            keep.append(o)
    from . import solver_units as su
    solver_part = su.finish_with_refutation('C11', [o for o in keep if o.id.startswith('C11/solver/')], lambda o: True, seed, tier)
    keep = [o for o in keep if not o.id.startswith('C11/solver/')] + solver_part
    return oblig.finish('C11', tier, seed, keep, t0,
                        functions=['inputs.py:InputStore.__getitem__', 'inputs.py:InputStore.provides', 'inputs.py:InputStore.__setitem__', 'inputs.py:Input.valid'] + [f'inputs.py:{n}' for n, _, _ in input_cases()] + ['__init__.py:prompt_input', 'solver.py:Solver._attempt_input', 'solver.py:Solver._attempt_field'],
                        trusted_base=base.TRUSTED,
                        assumptions=base.assumptions('A-PY', 'A-BUILTIN', 'A-CFG', 'A-ENUM') + [
                            'A-BUILTIN float(): raises ValueError or returns; after stripping, [+-]?(inf|infinity|nan) in any case is accepted and not finite; finiteness of other accepted text (e.g. 1e999) is an uninterpreted predicate that the code has to test',
                            'str.strip/lower/replace and compiled-regex match are uninterpreted functions of the text',
                            'prompt_input: the retry loop is abstracted by the havoc rule (value is None or any string)',
                            'A-CFG is the explicit ConfigParser contract of pyvc/props/store_units.py (sections, own options, [DEFAULT] options; has_option/get/add_section/set/sections/defaults); option names lower-case (C17), no % interpolation',
                            'contracts/input_grammar.py: which texts denote a value, per input class (from format_suggestion() and the README)'],
                        checker_cmd='./check C11', min_obligations=40)
