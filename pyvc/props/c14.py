"""C14 - a written solution reads back to exactly the values that were solved.

(1) per line type: from_string(to_string(x)) == x on the real methods (Boolean, Enum: ground/exhaustive;
    Integer, String, Float(places 0,2,5): symbolic with the assumed contracts of str/int/float/format);
(2) ValueStore.to_config writes exactly the stored values under form -> line with the line's own to_string;
(3) PDFFiller._read_form_fields re-types every entry with the definition of the same name;
(4) habutax.solve writes tax_year = args.year; fill_pdfs reads it and interprets the solution with that year's forms.
"""
import configparser
import os
import time

import z3

from .. import base, corevc, extract, linevc, oblig, smt, sym
from ..corevc import AObj, Opaque, SV, ZMap, fresh, OBJ
from ..oblig import Ob, Task
from ..sym import Raised, Unsupported

STR = z3.StringSort()
py_str_int = z3.Function('py_str_int', z3.IntSort(), STR)
py_fmt_fixed = z3.Function('py_fmt_fixed', z3.RealSort(), z3.IntSort(), STR)


class FakeForm(object):
    def name(self):
        return 'formx'


def builtin_axioms(x, n, p):
    """A-BUILTIN used by the round trip: int(str(n)) == n; the fixed-point text of a p-decimal x denotes x; str.strip of such text is the identity."""
    strip = z3.Function('str_strip', STR, STR)
    ax = [sym.INT_OK(py_str_int(n)), sym.INT_VAL(py_str_int(n)) == n]
    t = py_fmt_fixed(x, z3.IntVal(p))
    ax += [z3.And(sym.FLOAT_OK(t), sym.FLOAT_FINITE(t), sym.FLOAT_VAL(t) == x)]     # for x an exact p-decimal (precondition of the obligation)
    return ax


def roundtrip():
    from habutax import fields as F
    import habutax.enum as E
    obs = []
    stub = lambda s, i, v: None
    # ---- ground: booleans and every enumeration used by an EnumField of the catalogue
    t0 = time.time()
    bf = F.BooleanField('b', stub)
    bad = [v for v in (True, False) if bf.from_string(bf.to_string(v)) is not v]
    obs.append(mk('C14/roundtrip/BooleanField', not bad, 'fields.py:BooleanField.to_string/from_string', 'both booleans read back exactly', {'failing': bad}, t0))
    enums = {}
    for y in extract.YEARS:
        for f, fld in extract.all_lines(y):
            if type(fld) is F.EnumField:
                enums[id(fld.enum())] = fld.enum()
    for en in enums.values():
        ef = F.EnumField('e', en, stub)
        bad = []
        for m in list(en) + [None]:
            try:
                if ef.from_string(ef.to_string(m)) is not m:
                    bad.append(str(m))
            except BaseException as ex:
                bad.append(f'{m}: {type(ex).__name__}')
        obs.append(mk(f'C14/roundtrip/EnumField/{en.__name__.replace(" ", "_")}', not bad, 'fields.py:EnumField.to_string/from_string',
                      f'every member of {en.__name__} and the empty choice read back by member', {'failing': bad[:5]}, t0))
    # ---- symbolic: Integer, String, Float
    n, x, sv = z3.Int('n'), z3.Real('x'), z3.String('s')
    cases = [('IntegerField', lambda: F.IntegerField('i', stub), SV('int', n), 'int', None),
             ('StringField', lambda: F.StringField('s', stub), SV('str', sv), 'str', None)]
    for p in (0, 2, 5):
        cases.append((f'FloatField(places={p})', lambda p=p: F.FloatField('f', stub, places=p), SV('real', x), 'real', p))
    for name, mkf, val, kind, p in cases:
        t0 = time.time()
        fld = mkf()
        fld.__form_init__(FakeForm())
        fld._pyvc_symbolic = True
        ex = sym.Explorer()

        def thunk(run):
            it = sym.Interp(run)
            text = it.call_function(type(fld).to_string, [fld, val])
            run.path.text = text
            return it.call_function(type(fld).from_string, [fld, text])
        pre = []
        if kind == 'real':
            pre = [sym.decimal_fact(x, p), z3.Function(f'is_decimal_{p}', z3.RealSort(), z3.BoolSort())(x)]      # the range of FloatField.value (C12): exact p-decimals
        paths = ex.explore(thunk, base_conds=pre + builtin_axioms(x, n, p if p is not None else 2))
        bad = None
        model = None
        undecided = False
        for pth in paths:
            hyp = pth.conds + pth.facts
            if pth.outcome[0] != 'return':
                bad = f'{pth.outcome}'
                model = smt.check_sat(hyp)[1]
                break
            r = pth.outcome[1]
            if sym.kind_of(r) != kind:
                bad = f'reads back as {sym.pytype_name(r)}'
                break
            st, model, be, secs, txt = smt.prove(hyp, sym.term(r) == val.t)
            if st != 'discharged':
                bad = f'reads back a different value ({txt})'
                undecided = st != 'refuted'
                break
        clause = f'{name}: from_string(to_string(v)) == v for every v in the range of the field' + (f' (exact {p}-decimals)' if p is not None else '')
        if bad is None:
            obs.append(Ob(id=f'C14/roundtrip/{name}', backend='symexec+z3', function=f'fields.py:{type(fld).__name__}.to_string/from_string', clause=clause,
                          vc=f'{len(paths)} path(s)', time_s=time.time() - t0))
        else:
            rep = native_roundtrip(mkf, kind, p, model)
            obs.append(Ob(id=f'C14/roundtrip/{name}', status=oblig.REFUTED if (not undecided or rep.get('reproduced')) else oblig.UNDECIDED, backend='symexec+z3', function=f'fields.py:{type(fld).__name__}.to_string/from_string',
                          clause='NOT: ' + clause, solver_output=bad, witness={'model': model}, replay=rep))
    return obs


def mk(oid, ok, fid, clause, wit, t0):
    if ok:
        return Ob(id=oid, backend='ground-eval', function=fid, clause=clause, vc='exhaustive', time_s=time.time() - t0)
    return Ob(id=oid, status=oblig.REFUTED, backend='ground-eval', function=fid, clause='NOT: ' + clause, witness=wit, replay={'reproduced': True, 'observed': wit})


def native_roundtrip(mkf, kind, p, model):
    fld = mkf()
    vals = {'int': [0, -1, 7, 2 ** 53 + 1, 10 ** 30], 'str': ['', 'a b', 'x'], 'real': [0.0, -0.0, 0.01, 1234.56, 0.00001, 0.06796, 1e15, 2.675, -3.5, 1.005]}[kind]
    if kind == 'real':
        vals = [round(v, p) for v in vals]
    runs, bad = [], False
    for v in vals:
        try:
            r = fld.from_string(fld.to_string(v))
            ok = r == v and type(r) is type(v)
        except BaseException as ex:
            r, ok = f'raised {type(ex).__name__}', False
        runs.append({'value': repr(v), 'text': fld.to_string(v), 'read_back': repr(r)})
        bad = bad or not ok
    return {'reproduced': bad, 'runs': runs}


def bounded_float_roundtrip(tier):
    from habutax import fields as F
    stub = lambda s, i, v: None
    cases = 0
    import random
    rnd = random.Random(1)
    for p in (0, 2, 5):
        fld = F.FloatField('f', stub, places=p)
        pts = [float(k) / 100 for k in range(-20000, 20001)] if tier == 'quick' else [float(k) / 100 for k in range(-1000000, 1000001, 1)]
        pts += [10.0 ** e for e in range(0, 16)] + [-(10.0 ** e) for e in range(0, 16)] + [rnd.uniform(-1e9, 1e9) for _ in range(2000)]
        for v in pts:
            v = round(v, p)
            cases += 1
            r = fld.from_string(fld.to_string(v))
            if r != v:
                return [Ob(id='C14/bounded/float-roundtrip', status=oblig.REFUTED, backend='native', bounded=True, cases=cases, function='fields.py:FloatField',
                           clause=f'places={p}: {v!r} is written as {fld.to_string(v)!r} and read back as {r!r}', witness={'value': v, 'places': p}, replay={'reproduced': True})]
    return [Ob(id='C14/bounded/float-roundtrip', backend='native', bounded=True, cases=cases, function='fields.py:FloatField',
               note='IEEE-754 stand-in for the assumed float()/format() contract: every cent value in the swept range, powers of ten to 1e15 and 2000 random amounts, places 0/2/5')]


class CfgSpec(corevc.Spec):
    """ValueStore.to_config / PDFFiller._read_form_fields: external ConfigParser and field objects by contract, effects logged."""
    def __init__(self):
        self.views = {('ValueStore', 'values'): corevc.View('map', STR, OBJ)}

    def sym_attr_call(self, it, obj, attr, args, node):
        if obj.t.sort() == STR and attr == 'split' and args == ['.']:
            return (SV('str', z3.Function('before_dot', STR, STR)(obj.t)), SV('str', z3.Function('after_dot', STR, STR)(obj.t)))
        if obj.t.sort() == OBJ and attr == 'to_string' and len(args) == 1:
            return SV('str', z3.Function('to_string', OBJ, OBJ, STR)(obj.t, sym.term(args[0]) if not isinstance(args[0], SV) else args[0].t))
        if obj.t.sort() == OBJ and attr == 'from_string' and len(args) == 1:
            return SV('obj', z3.Function('from_string', OBJ, STR, OBJ)(obj.t, sym.term(args[0])))
        return NotImplemented

    def call_hook(self, it, f, args, kwargs, node):
        import configparser
        if f is configparser.ConfigParser:
            return Opaque(fresh('config', OBJ), 'config')
        return NotImplemented

    def opaque_call(self, it, obj, attr, args, kwargs, node):
        log = it.ghost.setdefault('log', [])
        if obj.kind == 'config':
            if attr == '__contains__':
                return SV('bool', fresh('has_section', z3.BoolSort()))
            if attr == '__setitem__':
                log.append(('add-section', args[0]))
                return None
            if attr == '__getitem__':
                o = Opaque(fresh('section', OBJ), 'section')
                o.section = args[0]
                return o
        if obj.kind == 'section':
            if attr == '__setitem__':
                log.append(('set', obj.section, args[0], args[1]))
                return None
            if attr == '__getitem__':
                return SV('str', z3.Function('cfg_get', STR, STR, STR)(sym.term(obj.section), sym.term(args[0])))
        raise Unsupported(f'opaque {obj.kind}.{attr}')


class CfgInterp(corevc.CoreInterp):
    def compare(self, op, a, b, node):
        import ast
        if isinstance(op, (ast.In, ast.NotIn)) and isinstance(b, Opaque) and b.kind == 'config':
            r = self.spec.opaque_call(self, b, '__contains__', [a], {}, node)
            return SV('bool', z3.Not(r.t)) if isinstance(op, ast.NotIn) else r
        return super().compare(op, a, b, node)

    def iterate_keys(self, m, s, frame, items=False):
        # single symbolic iteration stands for every key (the body only logs effects on the external config)
        k = z3.Const('_key', m.ksort)
        self.run.assume(m.has[k])
        self.ghost['iter_key'] = k
        self.assign(s.target, (corevc.wrap(k), corevc.wrap(m.val[k])) if items else corevc.wrap(k), frame)
        try:
            self.exec_block(s.body, frame)
        except sym._Continue:
            pass          # the generic key is skipped: no effect is logged for it, which the postcondition then refutes
        return None


def to_config_unit():
    from habutax import values
    spec = CfgSpec()
    fn = values.ValueStore.to_config
    fid = 'values.py:ValueStore.to_config'
    ex = sym.Explorer(feas_skip_quant=True)

    def thunk(run):
        it = CfgInterp(run, spec)
        run.path.interp = it
        vals = ZMap.havoc(STR, OBJ, 'values')
        fm = ZMap.havoc(STR, OBJ, 'field_map')
        it.ghost['vals'], it.ghost['fm'] = vals, fm
        me = AObj(values.ValueStore, {'values': vals}, name='vs')
        return it.call_function(fn, [me, fm])
    paths = ex.explore(thunk)
    bad = None
    n = 0
    for p in paths:
        it = p.interp
        if p.outcome[0] == 'unsupported':
            bad = ('undecided', p.outcome[1])
            break
        if p.outcome[0] == 'raise':
            if isinstance(p.outcome[1], KeyError):
                continue       # a stored name without a definition: not a solver-produced store (C04: values are lines of the field map)
            bad = ('refuted', str(p.outcome))
            break
        k = it.ghost.get('iter_key')
        vals, fm = it.ghost['vals'], it.ghost['fm']
        sets = [e for e in it.ghost.get('log', []) if e[0] == 'set']
        bd, ad = z3.Function('before_dot', STR, STR), z3.Function('after_dot', STR, STR)
        ts = z3.Function('to_string', OBJ, OBJ, STR)
        ok = len(sets) == 1 and sym.term(sets[0][1]).sexpr() == bd(k).sexpr() and sym.term(sets[0][2]).sexpr() == ad(k).sexpr() \
            and sym.term(sets[0][3]).sexpr() == ts(fm.val[k], vals.val[k]).sexpr()
        if not ok:
            bad = ('refuted', f'effects {[(e[0], str(e[1:])) for e in it.ghost.get("log", [])]}')
            break
        if not (isinstance(p.outcome[1], Opaque) and p.outcome[1].kind == 'config'):
            bad = ('refuted', 'does not return the ConfigParser it filled')
            break
        n += 1
    clause = 'for every stored name "form.line": the text to_string(definition of that name, stored value) is written under section form, option line; nothing else is written'
    if bad is None and n:
        return [Ob(id='C14/to_config/writes-exactly-the-stored-values', backend='symexec', function=fid, clause=clause, vc=f'{n} path(s) of the generic iteration')]
    return [Ob(id='C14/to_config/writes-exactly-the-stored-values', status=oblig.REFUTED if bad and bad[0] == 'refuted' else oblig.UNDECIDED, backend='symexec', function=fid,
               clause='NOT: ' + clause, solver_output=(bad or ('', 'vacuous'))[1], witness={'detail': (bad or ('', 'vacuous'))[1]}, replay={'reproduced': False})]


def main_year():
    """habutax.solve stores tax_year = args.year (from the main unit's event log)."""
    from . import main_unit
    obs = []
    for o in main_unit.unit_main():
        if o.note == 'C14' and 'KeyboardInterrupt' in o.id:
            o.id = o.id.replace('MAIN/solve/KeyboardInterrupt/C14/', 'C14/main/')
            obs.append(o)
    # the stamp names the year whose forms solved the return: a native run of the real habutax.solve on an input file that carries a
    # [habutax] section of its own (refutes when the main unit is outside the subset, and cross-checks it otherwise)
    rep = native_solve_year()
    oid = 'C14/main/the-stamped-year-is-the-year-of-the-forms-that-solved'
    if rep.get('reproduced'):
        obs.append(Ob(id=oid, status=oblig.REFUTED, backend='native', bounded=True, cases=len(rep.get('runs', [])), function='__init__.py:solve',
                      clause='NOT: the solution is stamped with the tax year of the catalogue that solved it', witness=rep, replay=rep))
    else:
        obs.append(Ob(id=oid, backend='native', bounded=True, cases=len(rep.get('runs', [])), function='__init__.py:solve',
                      clause='the solution is stamped with the tax year of the catalogue handed to the solver (also when the input file has a [habutax] section)',
                      note='bounded stand-in next to the symbolic main unit: every year x input files with and without a [habutax] tax_year of another year'))
    return obs


def native_solve_year():
    import argparse
    import contextlib
    import io
    import tempfile
    import habutax
    from habutax import forms, solver
    runs, bad = [], False
    orig = solver.Solver
    try:
        for year in sorted(forms.available_forms):
            for pinned in (None,) + tuple(y for y in sorted(forms.available_forms) if y != year):
                used = {}

                class Rec(orig):
                    def __init__(self, input_store, form_list, prompt=None):
                        used['forms'] = form_list
                        orig.__init__(self, input_store, form_list, prompt=prompt)
                solver.Solver = Rec
                with tempfile.TemporaryDirectory() as d:
                    inp, sol = os.path.join(d, 'in.ini'), os.path.join(d, 'out.ini')
                    with open(inp, 'w') as f:
                        f.write('[w-2:0]\nbox_1 = 1\n' + (f'[habutax]\ntax_year = {pinned}\n' if pinned else ''))
                    args = argparse.Namespace(input_file=inp, solution=sol, year=year, forms=['w-2:0'], prompt_missing=False, writeback_input=False)
                    try:
                        with contextlib.redirect_stdout(io.StringIO()):
                            habutax.solve(args)
                        c = configparser.ConfigParser()
                        c.read(sol)
                        stamped = c.getint('habutax', 'tax_year')
                        solved_with = [y for y, v in forms.available_forms.items() if v is used.get('forms')]
                        ok = solved_with == [stamped]
                        runs.append({'--year': year, 'input_file_pins': pinned, 'stamped': stamped, 'solved_with_forms_of': solved_with})
                    except BaseException as ex:
                        ok = True          # an abort writes no solution: nothing to read back
                        runs.append({'--year': year, 'input_file_pins': pinned, 'ended': f'{type(ex).__name__}: {str(ex)[:60]}'})
                    bad = bad or not ok
    finally:
        solver.Solver = orig
    return {'reproduced': bad, 'kind': 'solve-year', 'runs': runs}


def writer_dialect():
    """(positional, keyword) arguments of the ConfigParser(...) call in the real ValueStore.to_config, constants evaluated."""
    import ast
    from habutax import values
    node = extract.func_ast(values.ValueStore.to_config)
    for n in ast.walk(node):
        if isinstance(n, ast.Call) and isinstance(n.func, ast.Attribute) and n.func.attr == 'ConfigParser':
            try:
                return ([ast.literal_eval(a) for a in n.args], {k.arg: ast.literal_eval(k.value) for k in n.keywords})
            except Exception:
                return None
    return None


def native_text_roundtrip():
    """Concretisation / bounded stand-in: texts with per-cent signs, quotes, brackets through the real ValueStore.to_config -> write ->
    the parser fill_pdfs builds -> PDFFiller._read_form_fields."""
    import argparse
    import tempfile
    import habutax
    from habutax import fields as F, pdf_filler, values
    texts = ['plain', 'A%%B', '100% sales', '%(first)s', '50%', "it's", '"quoted"', '[x]', 'a = b', 'a; b # c', 'tab\there']

    class Fm(object):
        form_name = 'toy'

        def __init__(self, instance=None):
            self._f = [F.StringField('first', lambda s, i, v: ''), F.StringField('t', lambda s, i, v: '')]
            for f in self._f:
                f.__form_init__(self)

        def name(self):
            return 'toy'

        def fields(self):
            return self._f
    runs, bad = [], False
    orig = pdf_filler.PDFFiller
    for t in texts:
        got = {}
        try:
            fm = Fm()
            vs = values.ValueStore()
            vs['toy.first'] = 'Pat'
            vs['toy.t'] = t
            cfg = vs.to_config({f.name(): f for f in fm.fields()})
            cfg['habutax'] = {'tax_year': 2022, 'version': 'x'}

            class Rec(orig):
                def __init__(self, solution, available, out, flatten=True):
                    orig.__init__(self, solution, [Fm], out, flatten)

                def fill(self):
                    self._add_form('toy')
                    got['v'] = self._values['toy.t']
            pdf_filler.PDFFiller = Rec
            with tempfile.TemporaryDirectory() as d:
                path = os.path.join(d, 's.ini')
                with open(path, 'w') as f:
                    cfg.write(f)
                habutax.fill_pdfs(argparse.Namespace(solution=path, output=os.path.join(d, 'o.pdf'), flatten=True))
            ok = got.get('v') == t.strip()
            runs.append({'solved': t, 'read_back': got.get('v')})
        except BaseException as ex:
            ok = False
            runs.append({'solved': t, 'raised': f'{type(ex).__name__}: {str(ex)[:80]}'})
        finally:
            pdf_filler.PDFFiller = orig
        bad = bad or not ok
    return {'reproduced': bad, 'kind': 'text-roundtrip', 'runs': runs}


def fill_pdfs_unit():
    """fill_pdfs: the year is read from [habutax] tax_year and that year's catalogue interprets the solution."""
    import habutax
    from habutax import forms, pdf_filler
    fid = '__init__.py:fill_pdfs'
    Y = z3.Int('tax_year_in_file')
    log = []

    class Spec(corevc.Spec):
        def call_hook(self, it, f, args, kwargs, node):
            import configparser
            if f is configparser.ConfigParser:
                it.ghost['parser_options'] = (list(args), dict(kwargs))
                return Opaque(fresh('solution', OBJ), 'solution')
            if f is open:
                return Opaque(fresh('file', OBJ), 'file')
            if f is pdf_filler.PDFFiller:
                it.ghost['filler_args'] = args
                return Opaque(fresh('filler', OBJ), 'filler')
            return NotImplemented

        def opaque_call(self, it, obj, attr, args, kwargs, node):
            if obj.kind == 'solution':
                if attr == 'read_file':
                    return None
                if attr == 'getint':
                    it.ghost['getint'] = args
                    return SV('int', Y)
                if attr == 'get' and len(args) == 2:
                    # ConfigParser.get: the option's text; the fallback (when given) if the section or option is absent
                    it.ghost.setdefault('get', []).append(list(args))
                    if 'fallback' in kwargs and it.run.branch(fresh('option_absent', z3.BoolSort()), where=f'cfgget-absent@{node.lineno}'):
                        return kwargs['fallback']
                    return SV('str', z3.Function('cfg_get', STR, STR, STR)(sym.term(args[0]), sym.term(args[1])))
                if attr == 'remove_section':
                    it.ghost['removed'] = args[0]
                    return None
            if obj.kind == 'filler' and attr == 'fill':
                it.ghost['filled'] = True
                return None
            raise Unsupported(f'{obj.kind}.{attr}')

    class Interp(corevc.CoreInterp):
        def enter_context(self, ctx, item):
            return ctx
    spec = Spec()
    ex = sym.Explorer()
    import argparse

    def thunk(run):
        it = Interp(run, spec)
        run.path.interp = it
        args = AObj(argparse.Namespace, {'solution': 'SOLUTION', 'output': 'OUT', 'flatten': True}, name='args')
        return it.call_function(habutax.fill_pdfs, [args])
    paths = ex.explore(thunk)
    res = []
    years = set()
    for p in paths:
        it = p.interp
        hyp = p.conds + p.facts
        if p.outcome[0] == 'unsupported':
            return [Ob(id='C14/fill_pdfs/subset', status=oblig.UNDECIDED, function=fid, solver_output=p.outcome[1])]
        if p.outcome[0] == 'raise':
            ok = isinstance(p.outcome[1], KeyError) and all(smt.prove(hyp, Y != y)[0] == 'discharged' for y in forms.available_forms)
            res.append(('unknown-year-aborts', ok, str(p.outcome)))
            continue
        a = it.ghost.get('filler_args')
        gi = it.ghost.get('getint')
        yr = [y for y in forms.available_forms if smt.prove(hyp, Y == y)[0] == 'discharged']
        ok = a is not None and len(yr) == 1 and a[1] is forms.available_forms[yr[0]] and gi == ['habutax', 'tax_year'] and it.ghost.get('filled') \
            and it.ghost.get('removed') == 'habutax'
        wopts = writer_dialect()
        ropts = it.ghost.get('parser_options')
        same = ropts is not None and wopts is not None and list(ropts[0]) == list(wopts[0]) and {k: repr(v) for k, v in ropts[1].items()} == {k: repr(v) for k, v in wopts[1].items()}
        res.append(('solution-is-parsed-with-the-dialect-it-was-written-in', same, f'reader ConfigParser{ropts} vs writer (ValueStore.to_config) ConfigParser{wopts}'))
        # text is transported as it is: with interpolation on, '%%' reads back as '%' and '%(name)s' as another entry's value
        raw = ropts is not None and ropts[0] == [] and set(ropts[1]) == {'interpolation'} and ropts[1]['interpolation'] is None
        res.append(('the-solution-dialect-interpolates-nothing', raw and same, f'reader ConfigParser{ropts}, writer ConfigParser{wopts}'))
        years.update(yr)
        res.append(('solution-interpreted-with-the-forms-of-the-year-it-carries', ok, f'year {yr} args {a}'))
    res.append(('all-catalogued-years-reachable', years == set(forms.available_forms), str(years)))
    obs = []
    for label in sorted({r[0] for r in res}):
        rs = [r for r in res if r[0] == label]
        ok = all(r[1] for r in rs)
        oid = f'C14/fill_pdfs/{label}'
        if ok:
            obs.append(Ob(id=oid, backend='symexec+z3', function=fid, clause=label.replace('-', ' '), vc=f'{len(rs)} path(s)'))
        else:
            obs.append(Ob(id=oid, status=oblig.REFUTED, backend='symexec+z3', function=fid, clause='NOT: ' + label, solver_output=[r[2] for r in rs if not r[1]][0][:300],
                          witness={'detail': [r[2] for r in rs if not r[1]][0][:300]}, replay=native_text_roundtrip() if 'dialect' in label else native_fill_pdfs()))
    return obs


def native_fill_pdfs():
    """Concretisation: the real fill_pdfs on a stamped solution of every catalogued year, with a recording PDFFiller."""
    import argparse
    import tempfile
    import habutax
    from habutax import forms, pdf_filler
    runs, bad = [], False
    orig = pdf_filler.PDFFiller
    try:
        for y in sorted(forms.available_forms):
            got = {}

            class Rec(object):
                def __init__(self, solution, available, out, flatten=True):
                    got['forms'] = available
                    got['sections'] = list(solution.sections())

                def fill(self):
                    got['filled'] = True
            pdf_filler.PDFFiller = Rec
            with tempfile.TemporaryDirectory() as d:
                path = os.path.join(d, 'solution.ini')
                with open(path, 'w') as f:
                    f.write(f'[habutax]\ntax_year = {y}\nversion = x\n\n[w-2:0]\nbox_1 = 1.00\n')
                try:
                    habutax.fill_pdfs(argparse.Namespace(solution=path, output=os.path.join(d, 'o.pdf'), flatten=True))
                    yr = [k for k, v in forms.available_forms.items() if v is got.get('forms')]
                    ok = yr == [y] and 'habutax' not in got.get('sections', ['habutax']) and got.get('filled')
                    runs.append({'stamped_year': y, 'interpreted_with_forms_of': yr, 'sections_passed_on': got.get('sections')})
                except BaseException as ex:
                    ok = False
                    runs.append({'stamped_year': y, 'raised': f'{type(ex).__name__}: {str(ex)[:80]}'})
                bad = bad or not ok
    finally:
        pdf_filler.PDFFiller = orig
    return {'reproduced': bad, 'kind': 'fill_pdfs', 'runs': runs}


def read_form_fields_unit():
    from habutax import pdf_filler
    spec = CfgSpec()
    spec.views = {('ValueStore', 'values'): corevc.View('map', STR, OBJ)}
    fn = pdf_filler.PDFFiller._read_form_fields
    fid = 'pdf_filler.py:PDFFiller._read_form_fields'
    from habutax import values

    class SectionIter(corevc.Abstract):
        def __init__(self, section):
            self.section = section

        def sym_iter(self, it, s, frame):
            k = z3.String('field_name')
            it.ghost['iter_key'] = k
            it.assign(s.target, SV('str', k), frame)
            it.exec_block(s.body, frame)
            return None

    class Spec2(CfgSpec):
        def opaque_call(self, it, obj, attr, args, kwargs, node):
            if obj.kind == 'solution' and attr == '__getitem__':
                o = Opaque(fresh('section', OBJ), 'section')
                o.section = args[0]
                o.sym_iter = None
                return SectionProxy(o, args[0])
            return super().opaque_call(it, obj, attr, args, kwargs, node)

    class SectionProxy(corevc.Abstract):
        def __init__(self, o, section):
            self.section = section

        def sym_iter(self, it, s, frame):
            return SectionIter(self.section).sym_iter(it, s, frame)

        def sym_getitem(self, it, key, node):
            return SV('str', z3.Function('cfg_get', STR, STR, STR)(sym.term(self.section), sym.term(key)))
    spec = Spec2()
    ex = sym.Explorer(feas_skip_quant=True)
    form_name = z3.String('form_name')

    def thunk(run):
        it = corevc.CoreInterp(run, spec)
        run.path.interp = it
        fm = ZMap.havoc(STR, OBJ, 'field_map')
        vals = ZMap.havoc(STR, OBJ, 'values')
        it.ghost['fm'], it.ghost['vals0'] = fm, vals.snap()
        vs = AObj(values.ValueStore, {'values': vals}, name='vs')
        me = AObj(pdf_filler.PDFFiller, {'_solution': Opaque(fresh('solution', OBJ), 'solution'), '_field_map': fm, '_values': vs}, name='filler')
        run.path.vs = vs
        return it.call_function(fn, [me, SV('str', form_name)])
    paths = ex.explore(thunk)
    bad, n = None, 0
    for p in paths:
        it = p.interp
        if p.outcome[0] == 'unsupported':
            bad = ('undecided', p.outcome[1])
            break
        if p.outcome[0] == 'raise':
            if isinstance(p.outcome[1], KeyError):
                continue    # an entry whose name no form of that year defines
            bad = ('refuted', str(p.outcome))
            break
        k = it.ghost['iter_key']
        full = z3.Concat(form_name, z3.StringVal('.'), k)
        fm = it.ghost['fm']
        v1 = p.vs.attrs['values']
        want = z3.Function('from_string', OBJ, STR, OBJ)(fm.val[full], z3.Function('cfg_get', STR, STR, STR)(form_name, k))
        st = smt.prove(p.conds + p.facts, z3.And(v1.has[full], v1.val[full] == want))[0]
        if st != 'discharged':
            bad = ('refuted', 'the entry is not stored as from_string(definition of the same full name, text of that entry)')
            break
        n += 1
    clause = 'every entry "line = text" of section form is stored under "form.line" as from_string(definition registered under that same name, text)'
    if bad is None and n:
        return [Ob(id='C14/_read_form_fields/retyped-by-the-same-name', backend='symexec+z3', function=fid, clause=clause, vc=f'{n} path(s) of the generic iteration')]
    return [Ob(id='C14/_read_form_fields/retyped-by-the-same-name', status=oblig.REFUTED if bad and bad[0] == 'refuted' else oblig.UNDECIDED, backend='symexec+z3', function=fid,
               clause='NOT: ' + clause, solver_output=(bad or ('', 'vacuous'))[1], witness={'detail': (bad or ('', 'vacuous'))[1]}, replay={'reproduced': False})]


def filler_catalogue_unit():
    """PDFFiller.__init__ establishes, for THIS filler, the map form name -> class of exactly the catalogue it was given - whatever fillers
    were built before it in the same process (class-level or module-level state would let an earlier year's classes re-type a later
    solution).  Ground evaluation of the real constructor and _add_form on two one-form catalogues with the same form name."""
    from habutax import pdf_filler
    import configparser
    fid = 'pdf_filler.py:PDFFiller.__init__'

    def cat(tag):
        class StubForm(object):
            form_name = 'stub'
            year_tag = tag

            def __init__(self, instance=None):
                self._instance = instance

            def fields(self):
                return []

            def name(self):
                return 'stub'
        return [StubForm]
    seen = []
    for tag in ('first', 'second', 'third'):
        sol = configparser.ConfigParser()
        sol.add_section('stub')
        forms_ = cat(tag)
        p = pdf_filler.PDFFiller(sol, forms_, os.devnull)
        try:
            p._add_form('stub')
            seen.append((tag, getattr(type(p.forms[-1]), 'year_tag', None), p._form_map.get('stub') is forms_[0]))
        except BaseException as ex:
            seen.append((tag, f'raised {type(ex).__name__}', False))
    ok = all(t == got and same for t, got, same in seen)
    oid = 'C14/PDFFiller.__init__/interprets-with-the-catalogue-it-was-given'
    clause = 'every filler instantiates a section with the form class of the catalogue passed to its own constructor, also when other fillers were built before it in the same process'
    if ok:
        return [Ob(id=oid, backend='native', bounded=True, cases=3, function=fid, clause=clause, vc=str(seen),
                   note='bounded stand-in (three fillers built in a row in one process), not a proof: separation of state between instances is outside the executor')]
    return [Ob(id=oid, status=oblig.REFUTED, backend='native', bounded=True, cases=3, function=fid, clause='NOT: ' + clause, witness={'catalogue_given / class_used / map_entry_is_given_class': seen},
               replay={'reproduced': True, 'kind': 'filler-catalogue', 'runs': [list(x) for x in seen]})]


def field_value_units():
    """The round trip is claimed for the values a solution can hold: the range of FieldType.value (exact p-decimals for a float
    line of p places).  That range is the value() contract of C12; its obligations belong to C14 as well."""
    from . import c12
    out = []
    for o in c12.field_contracts():
        o.id = o.id.replace('C12/', 'C14/')
        out.append(o)
    return out


def run(tier, seed, t0):
    tasks = [Task('fieldvalue', field_value_units, weight=5), Task('filler', filler_catalogue_unit), Task('rt', roundtrip, weight=3), Task('bf', bounded_float_roundtrip, tier, weight=3), Task('cfg', to_config_unit), Task('main', main_year),
             Task('fill', fill_pdfs_unit), Task('read', read_form_fields_unit)]
    obs = oblig.run_tasks(tasks)
    return oblig.finish('C14', tier, seed, obs, t0,
                        functions=['fields.py:BasicTypedField.to_string/from_string', 'fields.py:BooleanField.from_string', 'fields.py:FloatField.to_string/from_string',
                                   'fields.py:EnumField.to_string/from_string', 'fields.py:TypedField.value', 'fields.py:FloatField.value', 'values.py:ValueStore.to_config', 'pdf_filler.py:PDFFiller._read_form_fields', '__init__.py:solve', '__init__.py:fill_pdfs'],
                        trusted_base=base.TRUSTED,
                        assumptions=base.assumptions('A-PY', 'A-BUILTIN', 'A-CFG', 'A-REAL') + [
                            'A-BUILTIN: int(str(n)) == n; the fixed-point text f"{x:.pf}" of an exact p-decimal x denotes x and float() returns it; round(y, p) is a nearest p-decimal',
                            'INI transport of text (ConfigParser strips surrounding whitespace, multi-line values) is A-CFG and not verified here',
                            'stored float values are exact p-decimals: the value() contracts, proved here as C14/fields/*'],
                        checker_cmd='./check C14', min_obligations=12)
