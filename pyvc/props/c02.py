"""C02 - every computed line equals what the official form instructs for it.

Oracle: (1) the instruction parsed on every run from the <speak> text of the bundled IRS templates (pyvc/instr.py),
(2) cited transcriptions in contracts/instructions_transcribed.json (worksheets that have no template).
Obligation per line with an instruction term I: on every returning path of the real line function,
value == I(other lines of the same solution) in real arithmetic; reads constrained only by the callees' contracts.
Carry lines: the value equals the named line of the other form, or is blank when that form is not demanded.
"""
import json
import re
import os
import time
from fractions import Fraction

import z3

from .. import base, extract, instr, linevc, oblig, pdfread, replay, smt, sym
from ..oblig import Ob, Task
from .c07 import status_enum
from .c08 import find_symbol


def transcribed():
    with open(os.path.join(oblig.VERIF, 'contracts', 'instructions_transcribed.json')) as f:
        return json.load(f)


def collect_instructions(year, fname):
    """-> {line base name: (term, provenance)} for one form, plus the count of labelled-but-unparsed widgets."""
    cat = linevc.Cat.get(year)
    form = cat.forms[fname]
    out, unparsed = {}, []
    pdf = form.pdf_file()
    if pdf and os.path.exists(pdf):
        w = pdfread.xfa_widgets(pdf)
        if w:
            order = []
            for wd in w.values():
                ln = pdfread.speak_line_number(wd.speak)
                if ln and ln not in order:
                    order.append(ln)
            for pf in form.pdf_fields():
                wd = w.get(pf.pdf_field_name)
                if wd is None or not wd.speak or '.' in pf.field_name:
                    continue
                ln = pdfread.speak_line_number(wd.speak)
                if ln is None:
                    continue
                r = instr.parse(pdfread.strip_heading(wd.speak), order, ln)
                if r is None:
                    unparsed.append(pf.field_name)
                    continue
                term, prov = r
                if pf.field_name not in out:
                    out[pf.field_name] = (term, f'template:{os.path.basename(pdf)}#{pf.pdf_field_name.split(".")[-1]}: "{prov}"')
    with open(os.path.join(oblig.VERIF, 'contracts', 'instruction_overrides.json')) as f:
        overrides = json.load(f)
    for line in list(out):
        key = f'{fname.split(":")[0]}.{line}'
        if key in overrides:
            del out[line]
            unparsed.append(f'{line} (override: {overrides[key][:80]})')
    tr = transcribed().get(str(year), {}).get(fname.split(':')[0], {})
    for line, ent in tr.items():
        if ent.get('verbatim') and ent.get('verbatim_booklet'):
            # ... or in an official instruction booklet bundled with the repository (decoded by pyvc/pdftext.py)
            from .. import pdftext
            bp = os.path.join(extract.REPO, 'habutax', 'forms', f'ty{year}', 'instructions', ent['verbatim_booklet'])
            ok = pdftext.norm(ent['verbatim']) in pdftext.norm(pdftext.text(bp))
            if not ok:
                unparsed.append(f'{line} (transcribed sentence not found in the bundled booklet {ent["verbatim_booklet"]})')
                continue
        elif ent.get('verbatim'):
            # a transcription that claims to be the template's own text must occur verbatim in the bundled PDF
            vf = cat.forms.get(ent.get('verbatim_form', fname))
            ok = False
            if vf is not None and vf.pdf_file() and os.path.exists(vf.pdf_file()):
                ok = re.sub(r'\s+', ' ', ent['verbatim']) in pdfread.page_text(vf.pdf_file())
            if not ok:
                unparsed.append(f'{line} (transcribed sentence not found in the bundled template)')
                continue
        if ent.get('carry'):
            if line not in out:
                out[line] = (('carry', ent['carry'][0], ent['carry'][1]), f'transcribed:{ent["source"]}: {ent["text"]}')
            continue
        if ent.get('term'):
            # a transcription may complete a template text that states only part of the rule (replaces_template)
            if line not in out or ent.get('replaces_template'):
                out[line] = (_term_of_json(ent['term']), f'transcribed:{ent["source"]}: "{ent["text"]}"')
            continue
        r = instr.parse(ent['text'], ent.get('order'), line)
        if r is not None and line not in out:
            t = _prefixed(r[0], ent['prefix']) if ent.get('prefix') else r[0]
            out[line] = (t, f'transcribed:{ent["source"]}: "{ent["text"]}"')
    return out, unparsed


def _term_of_json(j):
    if isinstance(j, list) and j and j[0] == 'line':
        return ('line', j[1], j[2])
    if isinstance(j, list) and j and j[0] == 'const':
        return ('const', Fraction(j[1]))
    if isinstance(j, list) and j and j[0] in ('add', 'min', 'max', 'oneof'):
        return (j[0], [_term_of_json(x) for x in j[1]])
    if isinstance(j, list) and j:
        return tuple([j[0]] + [_term_of_json(x) for x in j[1:]])
    return j


def _prefixed(t, prefix):
    """Worksheet lines are named '<prefix><n>' in the catalogue ('clwkst_a_3'): rename same-form line references."""
    if isinstance(t, tuple) and t and t[0] == 'line' and t[1] is None:
        return ('line', None, prefix + t[2])
    if isinstance(t, tuple):
        return tuple(_prefixed(x, prefix) for x in t)
    if isinstance(t, list):
        return [_prefixed(x, prefix) for x in t]
    return t


class NoSuchLine(Exception):
    pass


def term_z3(term, year, form, cat):
    """instruction term -> z3 Real term over the read symbols of the solution."""
    k = term[0]
    if k == 'line':
        f = term[1] or form.name()
        full = f'{f}.{term[2]}'
        fld = cat.fields.get(full)
        if fld is None:
            raise NoSuchLine(full)
        kind, ecls, opt = linevc.field_kind(fld)
        if kind not in ('real', 'int'):
            raise NoSuchLine(full + ' (not numeric)')
        t = linevc.read_symbol('v', full, kind, ecls)
        return z3.ToReal(t) if kind == 'int' else t
    if k == 'const':
        return z3.RealVal(str(term[1]))
    if k == 'add':
        ts = [term_z3(t, year, form, cat) for t in term[1]]
        r = ts[0]
        for t in ts[1:]:
            r = r + t
        return r
    if k == 'sub':
        return term_z3(term[1], year, form, cat) - term_z3(term[2], year, form, cat)
    if k == 'mul':
        return term_z3(term[1], year, form, cat) * term_z3(term[2], year, form, cat)
    if k == 'div':
        return term_z3(term[1], year, form, cat) / term_z3(term[2], year, form, cat)
    if k in ('min', 'max'):
        ts = [term_z3(t, year, form, cat) for t in term[1]]
        r = ts[0]
        for t in ts[1:]:
            r = z3.If(t < r, t, r) if k == 'min' else z3.If(t > r, t, r)
        return r
    if k == 'ite_gt':
        a, b = term_z3(term[1], year, form, cat), term_z3(term[2], year, form, cat)
        return z3.If(a > b, term_z3(term[3], year, form, cat), term_z3(term[4], year, form, cat))
    if k == 'oneof':
        # the box holds one of several amounts, which one is decided by a condition the text does not state in checkable form
        return [term_z3(t, year, form, cat) for t in term[1]]
    if k == 'addrows':
        rows = sorted(n for n in cat.fields if n.startswith(f'{form.name()}.{term[1]}_amount_'))
        if not rows:
            raise NoSuchLine(f'{form.name()}.{term[1]}_amount_*')
        r = z3.RealVal(0)
        for full in rows:
            kind, ecls, opt = linevc.field_kind(cat.fields[full])
            t = linevc.read_symbol('v', full, kind, ecls)
            r = r + (z3.ToReal(t) if kind == 'int' else t)
        return r
    if k == 'ceilmult':
        m = z3.RealVal(str(term[1]))
        x = term_z3(term[2], year, form, cat)
        # least multiple of m that is >= x:  m * ceil(x / m), ceil(y) = -floor(-y)
        return m * z3.ToReal(-z3.ToInt(-(x / m)))
    if k == 'by_status':
        enum = status_enum(year)
        sort, consts, none, cls = sym.enum_sort(enum)
        s = linevc.read_symbol('i', '1040.filing_status', 'enum', enum)
        r = z3.RealVal(str(term[2]))
        for m, v in term[1].items():
            if m in consts:
                r = z3.If(s == consts[m], z3.RealVal(str(v)), r)
        return r
    raise NoSuchLine(str(term))


def eval_native(term, form, values, inputs):
    k = term[0]
    if k == 'line':
        return Fraction(repr(float(values.get(f'{term[1] or form.name()}.{term[2]}', 0.0))))
    if k == 'const':
        return term[1]
    if k == 'add':
        return sum(eval_native(t, form, values, inputs) for t in term[1])
    if k == 'sub':
        return eval_native(term[1], form, values, inputs) - eval_native(term[2], form, values, inputs)
    if k == 'mul':
        return eval_native(term[1], form, values, inputs) * eval_native(term[2], form, values, inputs)
    if k == 'div':
        d = eval_native(term[2], form, values, inputs)
        return eval_native(term[1], form, values, inputs) / d if d else None
    if k == 'min':
        return min(eval_native(t, form, values, inputs) for t in term[1])
    if k == 'max':
        return max(eval_native(t, form, values, inputs) for t in term[1])
    if k == 'ite_gt':
        return eval_native(term[3], form, values, inputs) if eval_native(term[1], form, values, inputs) > eval_native(term[2], form, values, inputs) else eval_native(term[4], form, values, inputs)
    if k == 'oneof':
        return None
    if k == 'addrows':
        return sum(Fraction(repr(float(v or 0.0))) for n, v in values.items() if n.startswith(f'{form.name()}.{term[1]}_amount_'))
    if k == 'ceilmult':
        import math
        x = eval_native(term[2], form, values, inputs)
        return None if x is None else term[1] * math.ceil(x / term[1])
    if k == 'by_status':
        st = inputs.get('1040.filing_status')
        return term[1].get(getattr(st, 'name', None), term[2])
    return None


def check_form(year, fname):
    cat = linevc.Cat.get(year)
    form = cat.forms[fname]
    instrs, unparsed = collect_instructions(year, fname)
    obs = []
    uncovered = list(unparsed)
    for line, (term, prov) in instrs.items():
        full = f'{fname}.{line}'
        fld = cat.fields.get(full)
        oid = f'C02/{year}/{full}'
        if fld is None:
            continue
        fn = extract.line_function(fld)
        fid = f'{fn.__code__.co_filename.split("habutax/")[-1]}:{fn.__code__.co_firstlineno}'
        kind = linevc.field_kind(fld)[0]
        if kind not in ('real', 'int'):
            uncovered.append(line)
            continue
        t0 = time.time()
        paths = linevc.explore_line(year, fld)
        if any(p.outcome[0] == 'unsupported' for p in paths):
            obs.append(Ob(id=oid, status=oblig.UNDECIDED, function=fid, solver_output='line outside the subset'))
            continue
        if term[0] in ('carry', 'carry-unknown'):
            obs.append(carry_ob(year, fname, full, fld, term, prov, paths, fid, cat, t0))
            continue
        try:
            I = term_z3(term, year, form, cat)
        except NoSuchLine as e:
            uncovered.append(f'{line} (instruction names {e}, which habutax does not define)')
            continue
        eqI = (lambda t: z3.Or(*[t == x for x in I])) if isinstance(I, list) else (lambda t: t == I)
        def prove_line(assume=()):
            bad, nret = None, 0
            for p in paths:
                if p.outcome[0] != 'return':
                    continue
                nret += 1
                v = p.outcome[1]
                if v is None or (isinstance(v, str) and v.strip() == ''):
                    vt = z3.RealVal(0)
                elif sym.kind_of(v) in sym.NUM:
                    vt = sym.term(v, 'real')
                else:
                    continue
                hyp = p.conds + [f for f in p.facts if not z3.is_quantifier(f)] + list(assume)
                st, model, be, secs, txt = smt.prove(hyp, eqI(vt), timeout_ms=8000)
                extra = []
                if st != 'discharged':
                    # callee contracts: stored money values are exact decimals (C12); lines of the frozen C15 list are non-negative
                    from . import c15
                    nn = set(c15.load_nonneg()['nonneg'].get(str(year), []))
                    extra = [h for h in c15.read_hyps(year, [vt] + (I if isinstance(I, list) else [I]) + hyp, nn, cents=True) if not z3.is_quantifier(h)]
                    st, model, be, secs, txt = smt.prove(hyp + extra, eqI(vt), timeout_ms=8000)
                    if st != 'discharged':
                        # callee contracts at their strongest: the definitions of the lines read, unfolded a few levels
                        defs = c15.def_facts(year, [vt] + (I if isinstance(I, list) else [I]) + hyp, 4, {full})
                        extra = defs + [h for h in c15.read_hyps(year, [vt] + (I if isinstance(I, list) else [I]) + hyp + defs, nn, cents=True) if not z3.is_quantifier(h)]
                        st, model, be, secs, txt = smt.prove(hyp + extra, eqI(vt), timeout_ms=15000)
                if st != 'discharged':
                    mdl, _ = replay.solve_model(p, extra=extra + list(assume) + [z3.Not(eqI(vt))])
                    bad = (st, txt, mdl, p)
                    break
            return bad, nret
        bad, nret = prove_line()
        clause = f'{full} == {render(term)}   [{prov}]'
        if bad is None and nret:
            obs.append(Ob(id=oid, backend='z3', function=fid, time_s=time.time() - t0, clause=clause, vc=f'{nret} returning path(s)'))
        elif bad is None:
            uncovered.append(f'{line} (no returning path)')
        else:
            st, txt, mdl, p = bad
            wit, rep = {}, {'reproduced': False}
            if mdl is not None:
                inputs, values = replay.concretise(mdl, year)
                wit = {'inputs': {k: repr(v) for k, v in inputs.items()}, 'values': {k: repr(v) for k, v in values.items()}}
                rep = replay.replay_line(year, full, inputs, values)
                want = eval_native(term, form, values, inputs)
                rep['instruction_value'] = None if want is None else float(want)
                try:
                    got = float(eval(rep.get('value', 'None'), {'__builtins__': {}}) or 0.0)
                    rep['reproduced'] = rep.get('outcome') == 'return' and want is not None and abs(got - float(want)) > 0.005
                except Exception:
                    rep['reproduced'] = False
            obs.append(Ob(id=oid, status=oblig.REFUTED if (st == 'refuted' or rep.get('reproduced')) else oblig.UNDECIDED, backend='z3', function=fid, clause='NOT: ' + clause,
                          solver_output=txt, witness=wit, replay=rep, vc=' AND '.join(str(c)[:100] for c in p.conds[-4:]),
                          replay_spec={'kind': 'line', 'year': year, 'line': full, 'inputs': wit.get('inputs', {}), 'values': wit.get('values', {})}))
            # a recorded finding covers a class of failing reads; a mismatch outside that class is a different violation
            from . import c15
            cond = c15.recorded_condition(oid, year)
            if cond is not None:
                bad2, _ = prove_line(assume=[z3.Not(cond)])
                if bad2 is not None:
                    obs.append(Ob(id=oid + '/outside-recorded-input-class', status=oblig.REFUTED if bad2[0] == 'refuted' else oblig.UNDECIDED, backend='z3', function=fid,
                                  clause='NOT: ' + clause + ' [also outside the class of reads the recorded finding names]', solver_output=bad2[1], replay={'reproduced': False}))
    obs.append(Ob(id=f'C02/{year}/{fname}/uncovered', backend='none', bounded=True, cases=len(uncovered), function=fname,
                  note=f'lines of {fname} mapped to a labelled box without a usable instruction term: {sorted(set(map(str, uncovered)))[:40]}'))
    return obs


def render(term):
    k = term[0]
    if k == 'line':
        return (term[1] + '.' if term[1] else '') + term[2]
    if k == 'const':
        return str(float(term[1])) if term[1].denominator != 1 else str(term[1].numerator)
    if k == 'add':
        return ' + '.join(render(t) for t in term[1])
    if k == 'sub':
        return f'({render(term[1])} - {render(term[2])})'
    if k == 'mul':
        return f'{render(term[1])} * {render(term[2])}'
    if k == 'div':
        return f'{render(term[1])} / {render(term[2])}'
    if k in ('min', 'max'):
        return f'{k}({", ".join(render(t) for t in term[1])})'
    if k == 'oneof':
        return 'one of {' + ' | '.join(render(t) for t in term[1]) + '}'
    if k == 'ite_gt':
        return f'({render(term[3])} if {render(term[1])} > {render(term[2])} else {render(term[4])})'
    if k == 'by_status':
        return f'by_status({ {m: float(v) for m, v in term[1].items()} }, else {float(term[2])})'
    return str(term)


def carry_ob(year, fname, full, fld, term, prov, paths, fid, cat, t0):
    oid = f'C02/{year}/{full}'
    _, oform, oline = term
    target = f'{oform}.{oline}'
    present = term[0] == 'carry' and oform in cat.classes
    tfld = cat.fields.get(target)
    clause = f'{full} carries {target}: it equals that line, or is blank when that form is not demanded   [{prov}]'
    if term[0] == 'carry-unknown':
        return Ob(id=oid + '/uncovered', backend='none', bounded=True, cases=1, function=fid, note=f'carry from a form HabuTax does not name: {oform}')
    if present and tfld is None:
        # e.g. instance forms (8889:you) or a line habutax names differently
        return Ob(id=oid + '/uncovered', backend='none', bounded=True, cases=1, function=fid, note=f'carry target {target} is not a line name of the catalogue (instance form or different naming)')
    bad = None
    n = 0
    for p in paths:
        if p.outcome[0] != 'return':
            continue
        n += 1
        v = p.outcome[1]
        reads = [r[1] for r in p.reads if r[0] == 'v']
        blank = v is None or (isinstance(v, (int, float)) and not isinstance(v, bool) and v == 0)
        if not present:
            if not blank:
                bad = (p, f'returns a value although form {oform} is not shipped')
                break
            continue
        if target in reads:
            kind = linevc.field_kind(tfld)[0]
            t = linevc.read_symbol('v', target, kind, linevc.field_kind(tfld)[1])
            tt = z3.ToReal(t) if kind == 'int' else t
            hyp = p.conds + [f for f in p.facts if not z3.is_quantifier(f)]
            if not isinstance(v, sym.SV) or smt.prove(hyp, sym.term(v, 'real') == tt)[0] != 'discharged':
                bad = (p, f'reads {target} but returns something else')
                break
        elif not blank:
            bad = (p, f'returns a value without reading {target}')
            break
    if bad is None and n:
        return Ob(id=oid, backend='z3', function=fid, time_s=time.time() - t0, clause=clause, vc=f'{n} returning path(s)')
    if bad is None:
        return Ob(id=oid + '/uncovered', backend='none', bounded=True, cases=1, function=fid, note='no returning path')
    p, why = bad
    mdl, _ = replay.solve_model(p)
    wit, rep = {}, {'reproduced': False}
    if mdl is not None:
        inputs, values = replay.concretise(mdl, year)
        values.setdefault(target, 123.45)
        wit = {'inputs': {k: repr(v) for k, v in inputs.items()}, 'values': {k: repr(v) for k, v in values.items()}}
        rep = replay.replay_line(year, full, inputs, values)
        # with the target line holding a non-zero amount, a carry returns that amount or (form not demanded) blank; the model's
        # inputs say which: a value that is neither, or a zero although the line is demanded and read elsewhere, is the failure
        rep['reproduced'] = rep.get('outcome') == 'return' and rep.get('value') != repr(values[target]) and (
            rep.get('value') not in ('0.0', 'None') or target not in (rep.get('filled_defaults') or []) and target not in p_reads(p))
    return Ob(id=oid, status=oblig.REFUTED, backend='z3', function=fid, clause='NOT: ' + clause, solver_output=why, witness=wit, replay=rep)


def p_reads(p):
    return [r[1] for r in p.reads if r[0] == 'v']


def run(tier, seed, t0):
    tasks = []
    for year in extract.YEARS:
        cat = linevc.Cat.get(year)
        for fname, form in cat.forms.items():
            if fname.endswith(':spouse'):
                continue
            tasks.append(Task(f'C02/{year}/{fname}', check_form, year, fname, weight=len(form.fields())))
    from . import roles
    for year in extract.YEARS:
        tasks.append(Task(f'C02/{year}/roles', roles.role_symmetry, year, weight=20))
        tasks.append(Task(f'C02/{year}/copies', roles.copy_symmetry, year, weight=20))
    obs = oblig.run_tasks(tasks)
    functions = sorted({o.function for o in obs if o.function and not o.bounded})
    return oblig.finish('C02', tier, seed, obs, t0, functions=functions[:60] + [f'... {len(functions)} line functions in all'],
                        trusted_base=base.TRUSTED + ['pyvc/pdfread.py, pyvc/instr.py (template reader and instruction grammar)', 'contracts/instructions_transcribed.json (cited transcriptions)', 'contracts/per_person_lines.json (lines that treat both spouses alike)'],
                        assumptions=base.assumptions('A-PY', 'A-REAL', 'A-READ', 'A-SIGMA', 'A-ORACLE') + [
                            'only instructions matched completely by the strict grammar are used; lines with prose-only instructions are listed as uncovered (bounded entries) and are not claimed',
                            'rounding of the stored value is not part of the comparison (the line function result is compared before FloatField rounding)'],
                        checker_cmd='./check C02', min_obligations=250)
