"""C18 - each PDF box is filled from the line the official template assigns to it.

Class invariant pdf_wf(form), ground and exhaustive over every mapping of every form and year, against the
field tree / accessibility text / export values / limits parsed from the bundled templates on every run;
exclusive check-box groups evaluated over the whole (finite) value domain of the driving line on the real
value functions; PDFFiller._fill_form executed symbolically (each box gets the text of its own line, blank
for an absent optional line).
"""
import functools
import itertools
import json
import os
import re
import time

import z3

from .. import base, corevc, extract, linevc, oblig, pdfread, smt, sym
from ..corevc import AObj, Opaque, SV, ZMap, fresh, OBJ
from ..oblig import Ob, Task
from ..sym import Raised, Unsupported

STR = z3.StringSort()


def exceptions():
    with open(os.path.join(oblig.VERIF, 'contracts', 'pdf_label_exceptions.json')) as f:
        return json.load(f)


def lead(base_name):
    m = re.match(r'^(\d+[a-z]?)(?![a-z0-9])', base_name)
    if m:
        return m.group(1)
    m = re.match(r'^(\d+[a-z]?)', base_name)
    return m.group(1) if m else None


def nc_line(pdf_name):
    m = re.search(r'_li(\d+[a-z]?)(?:_|$)', pdf_name)
    return m.group(1) if m else None


def form_mappings(year, fname):
    from habutax import pdf_fields as P
    cat = linevc.Cat.get(year)
    form = cat.forms[fname]
    exc = exceptions()
    obs = []
    pdf = form.pdf_file()
    fid = f'{type(form).__module__.replace("habutax.", "").replace(".", "/")}.py:pdf_fields'
    rel = os.path.relpath(pdf, extract.REPO) if pdf else None

    def ob(oid, ok, clause, wit=None):
        if ok:
            obs.append(Ob(id=oid, backend='ground-eval', function=fid, clause=clause, vc=clause))
        else:
            obs.append(Ob(id=oid, status=oblig.REFUTED, backend='ground-eval', function=fid, clause='NOT: ' + clause, witness=wit or {}, solver_output='compared with the template parsed from ' + str(rel),
                          replay={'reproduced': True, 'observed': wit, 'template': rel}))
    if not pdf or not os.path.exists(pdf):
        ob(f'C18/{year}/{fname}/template-exists', False, 'the form names a bundled template file', {'pdf_file': str(pdf)})
        return obs
    xfa = pdfread.xfa_widgets(pdf)
    acro = pdfread.acro_fields(pdf) if not xfa else {}
    names = [pf.pdf_field_name for pf in form.pdf_fields()]
    dup = sorted({n for n in names if names.count(n) > 1})
    ob(f'C18/{year}/{fname}/no-box-driven-twice', not dup, 'no template field is the target of two mappings', {'duplicates': dup[:5]})
    lines = {f.base_name() for f in form.fields()}
    for ix, pf in enumerate(form.pdf_fields()):
        tgt = pf.pdf_field_name
        short = tgt.split('.')[-1]
        oid = f'C18/{year}/{fname}/{short}->{pf.field_name}'
        w = xfa.get(tgt) if xfa else acro.get(tgt)
        ob(oid + '/target-exists', w is not None, f'{tgt} is a field of the template', {'target': tgt})
        # the mapped line exists
        fn = pf.field_name
        if '.' in fn:
            okline = fn in cat.fields
        else:
            okline = fn in lines
        ob(oid + '/line-exists', okline, f'mapped line {fn} is a line of the form (or of another catalogued form)', {'line': fn})
        if w is None:
            continue
        bn = fn.split('.')[-1]
        if xfa:
            label = pdfread.speak_line_number(w.speak)
            mine = lead(bn)
            if label and mine and '.' not in fn:
                key = f'{year}/{fname}/{short}'
                allowed = exc.get(key)
                ok = label == mine or (allowed is not None and allowed.get('label') == label and allowed.get('line') == fn)
                ob(oid + '/label-line', ok, f'the template labels the box "{w.speak[:60]}" (line {label}); the mapped line is {fn}' + (f' [accepted: {allowed["why"]}]' if allowed and label != mine else ''),
                   {'template_label': w.speak[:120], 'label_line': label, 'mapped_line': fn})
            for what, ok, why in keyword_label(bn, w):
                ob(oid + '/' + what, ok, why, {'template_label': w.speak[:160], 'mapped_line': fn})
            if isinstance(pf, P.ButtonPDFField):
                ob(oid + '/kind', w.kind == 'button', 'a check-box mapping targets a check-box widget', {'widget_kind': w.kind})
                on = [e for e in w.exports if e not in ('Off', '0', '')] or w.exports[:1]
                ob(oid + '/export-value', pf._true_value in w.exports and pf._true_value != 'Off', f'export value {pf._true_value!r} is an export value of the widget {w.exports}',
                   {'true_value': pf._true_value, 'template_exports': w.exports})
            elif isinstance(pf, P.TextPDFField):
                ob(oid + '/kind', w.kind in ('text',), 'a text mapping targets a text widget', {'widget_kind': w.kind})
                lim = w.comb or w.maxchars
                ob(oid + '/length-limit', pf.max_length == lim or (lim is None and pf.max_length is None) or (pf.max_length is not None and lim is not None and pf.max_length <= lim and key_allowed(exc, year, fname, short, 'limit')),
                   f'length limit of the mapping ({pf.max_length}) equals the template limit ({lim})', {'mapping_max_length': pf.max_length, 'template_limit': lim})
        else:
            # AcroForm templates carry no accessibility text, but their field names say what a box is: a social security number box
            # (…ssn…) is filled from an …ssn line and from nothing else, and an …ssn line fills only such boxes
            box_ssn, line_ssn = 'ssn' in tgt.lower(), 'ssn' in bn.lower()
            if box_ssn or line_ssn:
                ob(oid + '/ssn-box-from-ssn-line', box_ssn == line_ssn, f'template field {tgt} and line {fn} are both or neither a social security number', {'template_field': tgt, 'mapped_line': fn})
            label = nc_line(tgt)
            mine = lead(bn)
            if label and mine and '.' not in fn:
                key = f'{year}/{fname}/{short}'
                allowed = exc.get(key)
                ok = label == mine or (allowed is not None and allowed.get('label') == label and allowed.get('line') == fn)
                ob(oid + '/label-line', ok, f'the template field name carries line {label}; the mapped line is {fn}', {'template_field': tgt, 'label_line': label, 'mapped_line': fn})
            if isinstance(pf, P.ButtonPDFField):
                ob(oid + '/kind', w['ft'] == 'Btn', 'a check-box mapping targets a button field', {'ft': w['ft']})
                ob(oid + '/export-value', pf._true_value in w['states'] or not w['states'], f'export value {pf._true_value!r} is an appearance state of the field {sorted(w["states"])}',
                   {'true_value': pf._true_value, 'states': sorted(w['states'])})
            elif isinstance(pf, P.TextPDFField):
                ob(oid + '/kind', w['ft'] == 'Tx', 'a text mapping targets a text field', {'ft': w['ft']})
                ob(oid + '/length-limit', pf.max_length == w['maxlen'], f'length limit of the mapping ({pf.max_length}) equals the template /MaxLen ({w["maxlen"]})',
                   {'mapping_max_length': pf.max_length, 'template_maxlen': w['maxlen']})
            elif isinstance(pf, P.ChoicePDFField):
                ob(oid + '/kind', w['ft'] == 'Ch', 'a choice mapping targets a choice field', {'ft': w['ft']})
                ob(oid + '/choices', set(pf._choices) <= set(w['opts']) or not w['opts'], 'every choice of the mapping is an option of the template field', {'extra': sorted(set(pf._choices) - set(w['opts']))[:5]})
    obs.extend(exclusive_groups(year, fname, form, xfa, acro, fid))
    obs.extend(yesno_groups(year, fname, form, xfa, acro, fid))
    return obs


@functools.lru_cache(maxsize=None)
def label_keywords():
    with open(os.path.join(oblig.VERIF, 'contracts', 'pdf_label_keywords.json')) as f:
        return json.load(f)


def keyword_label(bn, w):
    """Descriptive line names (dependent_3_ctc, spouse_ssn, ...): the current label of the box names the same thing."""
    kw = label_keywords()
    out = []
    lab = (w.speak or '').lower()
    if not lab:
        return out
    for suf, phrases in kw['suffix'].items():
        if suf.startswith('_') and not bn.endswith(suf) and bn != suf[1:]:
            continue
        if not suf.startswith('_') and not bn.endswith(suf):
            continue
        out.append(('label-names-the-line', any(p in lab for p in phrases), f'the template labels the box "{w.speak[:70]}"; line {bn} fills only boxes labelled {phrases}'))
        break
    m = re.match(kw['row_of']['pattern'], bn)
    if m and 'row:' in lab:
        want = kw['row_of']['label'].format(n=int(m.group(1)) + kw['row_of']['offset']).lower()
        out.append(('label-row', want in lab, f'the template labels the box "{w.speak[:40]}"; line {bn} belongs to "{want}"'))
    return out


def person_copies(year):
    """Forms filed once per person (instances you / spouse of one class): the spouse's copy is the taxpayer's copy with the roles
    swapped - own lines stay own lines, a cross-form person line (1040.you_ssn) becomes the other person's (1040.spouse_ssn).  A box
    of both copies filled from the same person line of another form shows one person's data on the other person's form."""
    cat = linevc.Cat.get(year)
    by_class = {}
    for fname, form in cat.forms.items():
        if ':' in fname and fname.split(':')[1] in ('you', 'spouse') and getattr(form, 'pdf_file', None) and form.pdf_file():
            by_class.setdefault(fname.split(':')[0], {})[fname.split(':')[1]] = form
    obs = []

    def swap(fn):
        if '.' not in fn:
            return fn
        f, b = fn.rsplit('.', 1)
        if b.startswith('you_'):
            return f'{f}.spouse_{b[4:]}'
        if b.startswith('spouse_'):
            return f'{f}.you_{b[7:]}'
        return fn
    for cls, inst in sorted(by_class.items()):
        if set(inst) != {'you', 'spouse'}:
            continue
        a = {pf.pdf_field_name: pf.field_name for pf in inst['you'].pdf_fields()}
        b = {pf.pdf_field_name: pf.field_name for pf in inst['spouse'].pdf_fields()}
        bad = sorted(k for k in set(a) | set(b) if k not in a or k not in b or b[k] != swap(a[k]))
        fid = f'{type(inst["you"]).__module__.replace("habutax.", "").replace(".", "/")}.py:pdf_fields'
        oid = f'C18/{year}/{cls}/copies-per-person-are-role-symmetric'
        clause = f'every box of {cls}:spouse is filled from the line that fills it on {cls}:you with the roles swapped (own lines stay own lines)'
        if not bad:
            obs.append(Ob(id=oid, backend='ground-eval', function=fid, clause=clause, vc=f'{len(a)} box(es)'))
        else:
            k = bad[0]
            obs.append(Ob(id=oid, status=oblig.REFUTED, backend='ground-eval', function=fid, clause='NOT: ' + clause,
                          witness={'box': k, 'on_you_copy': a.get(k), 'on_spouse_copy': b.get(k), 'expected_on_spouse_copy': swap(a[k]) if k in a else None},
                          replay={'reproduced': True, 'observed': {'box': k, 'you': a.get(k), 'spouse': b.get(k)}}))
    return obs


def key_allowed(exc, year, fname, short, what):
    e = exc.get(f'{year}/{fname}/{short}')
    return bool(e and e.get('what') == what)


def value_domain(fld):
    from habutax import fields as F
    if isinstance(fld, F.EnumField):
        return list(fld.enum()) + [None]
    if isinstance(fld, F.BooleanField):
        return [True, False]
    return None


def yesno_groups(year, fname, form, xfa, acro, fid):
    """AcroForm templates (N.C.): check boxes the template itself names <stem>[n]yes / <stem>[n]no answer one question.
    All mapped boxes of one stem are driven by one line, and no value of that line turns on a yes box and a no box together;
    every value turns on at least one of them."""
    from habutax import pdf_fields as P
    if xfa:
        return []
    cat = linevc.Cat.get(year)
    groups = {}
    for pf in form.pdf_fields():
        if not isinstance(pf, P.ButtonPDFField):
            continue
        m = re.match(r'^(.*?)(\d*)(yes|no)$', pf.pdf_field_name, re.I)
        if m:
            groups.setdefault(m.group(1), []).append((m.group(3).lower(), pf))
    obs = []
    for stem, items in groups.items():
        if len(items) < 2 or len({k for k, _ in items}) < 2:
            continue
        oid = f'C18/{year}/{fname}/yesno={stem}'
        drivers = {pf.field_name for _, pf in items}
        if len(drivers) != 1:
            obs.append(Ob(id=oid + '/one-driver', status=oblig.REFUTED, backend='ground-eval', function=fid,
                          clause=f'the yes/no boxes {[pf.pdf_field_name for _, pf in items]} of one question are filled from several lines {sorted(drivers)}',
                          witness={'drivers': sorted(drivers)}, replay={'reproduced': True}))
            continue
        obs.append(Ob(id=oid + '/one-driver', backend='ground-eval', function=fid, clause=f'yes/no boxes of {stem}* are all filled from line {sorted(drivers)[0]}', vc=str([pf.pdf_field_name for _, pf in items])))
        ln = next(iter(drivers))
        full = ln if '.' in ln else f'{form.name()}.{ln}'
        fld = cat.fields.get(full)
        dom = value_domain(fld) if fld is not None else None
        if dom is None:
            continue
        bad = None
        for v in dom:
            on = {'yes': [], 'no': []}
            for k, pf in items:
                try:
                    r = pf.value(v, fld)
                except BaseException as ex:
                    r = f'raised {type(ex).__name__}'
                if r != 'Off':
                    on[k].append(pf.pdf_field_name)
            if (on['yes'] and on['no']) or (isinstance(v, bool) and not on['yes'] and not on['no']):
                bad = (str(v), on)
        if bad is None:
            obs.append(Ob(id=oid + '/yes-xor-no', backend='ground-eval', function=fid, clause=f'every value of {full} ticks yes boxes or no boxes of {stem}*, never both', vc=f'{len(dom)} value(s)'))
        else:
            obs.append(Ob(id=oid + '/yes-xor-no', status=oblig.REFUTED, backend='ground-eval', function=fid, clause=f'value {bad[0]} of {full} ticks {bad[1]}',
                          witness={'value': bad[0], 'on': bad[1]}, replay={'reproduced': True}))
    return obs


def exclusive_groups(year, fname, form, xfa, acro, fid):
    """Widgets sharing one name under one parent (c1_3[0..4]) / NC buttons driven by one line: at most one on."""
    from habutax import pdf_fields as P
    cat = linevc.Cat.get(year)
    groups = {}
    for pf in form.pdf_fields():
        if not isinstance(pf, P.ButtonPDFField):
            continue
        m = re.match(r'^(.*)\[(\d+)\]$', pf.pdf_field_name)
        key = m.group(1) if m and xfa else None
        if key is None:
            continue
        groups.setdefault(key, []).append(pf)
    obs = []
    for key, pfs in groups.items():
        if len(pfs) < 2:
            continue
        drivers = {pf.field_name for pf in pfs}
        oid = f'C18/{year}/{fname}/group={key.split(".")[-1]}'
        if len(drivers) != 1:
            obs.append(Ob(id=oid + '/one-driver', status=oblig.REFUTED, backend='ground-eval', function=fid, clause=f'exclusive boxes {key}[*] are driven by several lines {sorted(drivers)}',
                          witness={'drivers': sorted(drivers)}, replay={'reproduced': True}))
            continue
        ln = next(iter(drivers))
        full = ln if '.' in ln else f'{form.name()}.{ln}'
        fld = cat.fields.get(full)
        dom = value_domain(fld) if fld is not None else None
        if dom is None:
            continue
        bad = None
        ons = {}
        for v in dom:
            on = []
            for pf in pfs:
                try:
                    r = pf.value(v, fld)
                except BaseException as ex:
                    r = f'raised {type(ex).__name__}'
                if r != 'Off':
                    on.append((pf.pdf_field_name.split('.')[-1], r))
            ons[str(v)] = on
            if len(on) > 1:
                bad = (str(v), on)
        # each real member should light exactly one box when the group has one box per member
        exports = [pf._true_value for pf in pfs]
        if bad is None:
            obs.append(Ob(id=oid + '/at-most-one-on', backend='ground-eval', function=fid, clause=f'for every value of {full} at most one box of the group is on; export values {exports} distinct',
                          vc=str(ons)[:300]))
            if len(set(exports)) != len(exports):
                obs[-1] = Ob(id=oid + '/at-most-one-on', status=oblig.REFUTED, backend='ground-eval', function=fid, clause=f'two boxes of the group share an export value {exports}',
                             witness={'exports': exports}, replay={'reproduced': True})
        else:
            obs.append(Ob(id=oid + '/at-most-one-on', status=oblig.REFUTED, backend='ground-eval', function=fid, clause=f'value {bad[0]} of {full} turns on several exclusive boxes {bad[1]}',
                          witness={'value': bad[0], 'on': bad[1]}, replay={'reproduced': True, 'per_value': {k: v for k, v in list(ons.items())[:8]}}))
        # the label of each box names the member it is on for (where the template says so)
        if xfa and fld is not None and value_domain(fld) and hasattr(fld, 'enum'):
            for pf in pfs:
                w = xfa.get(pf.pdf_field_name)
                if w is None or not w.speak:
                    continue
                members_on = [m for m in fld.enum() if pf.value(m, fld) != 'Off']
                text = re.sub(r'[^a-z]', '', w.speak.lower())
                for m in members_on:
                    words = re.sub(r'([A-Z])', r' \1', m.name).lower().split()
                    hit = sum(1 for wd in words if wd[:5] in text)
                    others = [o for o in fld.enum() if o is not m]
                    best_other = max((sum(1 for wd in re.sub(r'([A-Z])', r' \1', o.name).lower().split() if wd[:5] in text), len(o.name)) for o in others)[0] if others else 0
                    ok = hit >= len(words) - 1 and hit >= best_other
                    lid = f'{oid}/box={pf.pdf_field_name.split(".")[-1]}/label-names-{m.name}'
                    if ok:
                        obs.append(Ob(id=lid, backend='ground-eval', function=fid, clause=f'the box that is on for {m.name} is labelled "{w.speak[:60]}"', vc='label words'))
                    else:
                        obs.append(Ob(id=lid, status=oblig.REFUTED, backend='ground-eval', function=fid, clause=f'the box labelled "{w.speak[:80]}" is on for {m.name}',
                                      witness={'label': w.speak[:120], 'on_for': m.name}, replay={'reproduced': True}))
    return obs


def filing_forms(year):
    from .c17 import needs_filing_can_be_true
    cat = linevc.Cat.get(year)
    obs = []
    for fname, form in cat.forms.items():
        cls = type(form)
        if not needs_filing_can_be_true(cls):
            continue
        ok = bool(form.pdf_file()) and os.path.exists(form.pdf_file()) and len(form.pdf_fields()) > 0
        oid = f'C18/{year}/{fname}/filing-form-has-template-and-mappings'
        if ok:
            obs.append(Ob(id=oid, backend='ground-eval', function=f'{cls.__name__}', clause='a form whose needs_filing can be true has a bundled template and at least one mapping', vc=str(form.pdf_file())[-40:]))
        else:
            obs.append(Ob(id=oid, status=oblig.REFUTED, backend='ground-eval', function=f'{cls.__name__}', clause='a form that can require filing has no template or no mapping',
                          witness={'pdf_file': str(form.pdf_file()), 'mappings': len(form.pdf_fields())}, replay={'reproduced': True}))
    return obs


class FillSpec(corevc.Spec):
    def __init__(self):
        self.views = {('ValueStore', 'values'): corevc.View('map', STR, OBJ)}

    def opaque_call(self, it, obj, attr, args, kwargs, node):
        log = it.ghost.setdefault('log', [])
        if obj.kind == 'form':
            if attr == 'pdf_file':
                return 'TEMPLATE.pdf'
            if attr == 'pdf_fields':
                return it.ghost['pdf_fields']
            if attr == 'required_fields':
                return it.ghost['required']
            if attr == 'name':
                return 'formx'
        if obj.kind == 'reqfield' and attr == 'name':
            return obj.name
        if obj.kind == 'pdffield' and attr == 'value':
            v = z3.Function('pdf_text', OBJ, OBJ, OBJ, STR)(obj.ref, corevc.to_term(args[0]), corevc.to_term(args[1]))
            return SV('str', v)
        raise Unsupported(f'{obj.kind}.{attr}')

    def call_hook(self, it, f, args, kwargs, node):
        import subprocess
        import types
        if f is subprocess.run:
            it.ghost['cmd'] = args[0]
            return None
        if isinstance(f, types.MethodType) and f.__func__.__name__ == '_create_fdf':
            it.ghost['fdf'] = args[0]
            return None
        return NotImplemented


def fill_form_unit():
    from habutax import pdf_filler, values
    fn = pdf_filler.PDFFiller._fill_form
    fid = 'pdf_filler.py:PDFFiller._fill_form'
    spec = FillSpec()
    ex = sym.Explorer(feas_skip_quant=True)
    n = 3

    def thunk(run):
        it = corevc.CoreInterp(run, spec)
        run.path.interp = it
        pfs = []
        for k in range(n):
            o = Opaque(fresh(f'pdffield{k}', OBJ), 'pdffield')
            o.pdf_field_name = f'box{k}'
            o.field_name = f'l{k}' if k != 1 else 'other.m'
            pfs.append(PFProxy(o))
        it.ghost['pdf_fields'] = pfs
        req = Opaque(fresh('req', OBJ), 'reqfield')
        req.name = 'formx.l0'
        it.ghost['required'] = [ReqProxy(req)]
        vals = ZMap.havoc(STR, OBJ, 'values')
        fm = ZMap.havoc(STR, OBJ, 'field_map')
        it.ghost['vals'], it.ghost['fm'] = vals, fm
        vs = AObj(values.ValueStore, {'values': vals}, name='vs')
        me = AObj(pdf_filler.PDFFiller, {'_values': vs, '_field_map': fm, '_pdftk': 'pdftk', '_flatten': True}, name='filler')
        return it.call_function(fn, [me, Opaque(fresh('form', OBJ), 'form'), 'OUT.pdf'])
    paths = ex.explore(thunk)
    res = {}

    def note(label, ok, detail=''):
        cur = res.setdefault(label, [True, 0, ''])
        cur[1] += 1
        if not ok:
            cur[0], cur[2] = False, detail
    nret = 0
    for p in paths:
        it = p.interp
        if p.outcome[0] == 'unsupported':
            rep = native_fill_form()
            if rep.get('reproduced'):
                return [Ob(id='C18/_fill_form/subset', status=oblig.REFUTED, backend='native', function=fid, clause='NOT: the real _fill_form gives each box the text its own pdf field produces for its own line (stub forms)',
                           solver_output=f'outside the subset ({p.outcome[1]}); refuted by the native stub-form run', witness={k: rep[k] for k in rep if k != 'reproduced'}, replay=rep)]
            return [Ob(id='C18/_fill_form/subset', status=oblig.UNDECIDED, function=fid, solver_output=p.outcome[1])]
        hyp = p.conds + p.facts
        vals, fm = it.ghost['vals'], it.ghost['fm']
        names = ['formx.l0', 'other.m', 'formx.l2']
        if p.outcome[0] == 'raise':
            e = p.outcome[1]
            if isinstance(e, RuntimeError):
                note('unknown-line-aborts', any(smt.prove(hyp, z3.Not(fm.has[z3.StringVal(nm)]))[0] == 'discharged' for nm in names), str(e))
            elif isinstance(e, AssertionError):
                note('absent-required-line-aborts', smt.prove(hyp, z3.Not(vals.has[z3.StringVal('formx.l0')]))[0] == 'discharged', str(e))
            else:
                note('no-other-exception', False, repr(e))
            continue
        nret += 1
        fdf = it.ghost.get('fdf')
        ok = isinstance(fdf, dict) and list(fdf.keys()) == ['box0', 'box1', 'box2']
        note('one-entry-per-mapping-in-order', ok, str(fdf)[:200])
        if not ok:
            continue
        pt = z3.Function('pdf_text', OBJ, OBJ, OBJ, STR)
        for k, nm in enumerate(names):
            key = z3.StringVal(nm)
            present = smt.prove(hyp, vals.has[key])[0] == 'discharged'
            absent = smt.prove(hyp, z3.Not(vals.has[key]))[0] == 'discharged'
            got = fdf[f'box{k}']
            pf = it.ghost['pdf_fields'][k].o
            if present:
                want = pt(pf.ref, vals.val[key], fm.val[key])
                note('a-box-gets-the-text-of-its-own-line', isinstance(got, SV) and got.t.sexpr() == want.sexpr(), f'box{k}: {got}')
            elif absent:
                note('a-box-of-an-absent-optional-line-is-blank', got == '', f'box{k}: {got!r}')
            else:
                note('path-decides-presence', False, nm)
        cmd = it.ghost.get('cmd')
        note('pdftk-fills-the-template-of-the-form', isinstance(cmd, list) and cmd[:4] == ['pdftk', 'TEMPLATE.pdf', 'fill_form', 'OUT.pdf.fdf'] and cmd[4:6] == ['output', 'OUT.pdf'], str(cmd))
    note('some-path-fills', nret > 0, 'no returning path')
    obs = []
    for label, (ok, cnt, detail) in res.items():
        oid = f'C18/_fill_form/{label}'
        if ok:
            obs.append(Ob(id=oid, backend='symexec+z3', function=fid, clause=label.replace('-', ' '), vc=f'{cnt} check(s) over {len(paths)} paths; 3 mappings (local, qualified, optional), symbolic solution'))
        else:
            obs.append(Ob(id=oid, status=oblig.REFUTED, backend='symexec+z3', function=fid, clause='NOT: ' + label, solver_output=detail, witness={'detail': detail}, replay=native_fill_form()))
    return obs


class PFProxy(corevc.Abstract):
    """A pdf_field object: concrete names, value() by contract."""
    def __init__(self, o):
        self.o = o
        self.pdf_field_name = o.pdf_field_name
        self.field_name = o.field_name

    def sym_method(self, it, attr, args, kwargs, node):
        return it.spec.opaque_call(it, self.o, attr, args, kwargs, node)


class ReqProxy(corevc.Abstract):
    def __init__(self, o):
        self.o = o

    def sym_method(self, it, attr, args, kwargs, node):
        return it.spec.opaque_call(it, self.o, attr, args, kwargs, node)


def native_fill_form():
    """Replay: the real _fill_form on a stub form with three text mappings, the middle line absent."""
    from habutax import pdf_filler, pdf_fields as P, fields as F, values
    import configparser
    import subprocess

    class FakeForm(object):
        def name(self):
            return 'formx'

        def pdf_file(self):
            return 'T.pdf'

        def pdf_fields(self):
            return [P.ButtonPDFField('box0', 'l0', '2'), P.TextPDFField('box1', 'l1'), P.TextPDFField('box2', 'l2')]

        def required_fields(self):
            return []
    p = pdf_filler.PDFFiller(configparser.ConfigParser(), [], '/dev/null')
    stub = lambda s, i, v: None
    for nm, cls in (('l0', F.BooleanField), ('l1', F.StringField), ('l2', F.StringField)):
        f = cls(nm, stub)
        f.__form_init__(FakeForm())
        p._field_map[f'formx.{nm}'] = f
    p._values['formx.l0'] = True
    p._values['formx.l2'] = 'z'
    got = {}
    p._create_fdf = lambda data, fn: got.update(data)
    orig = subprocess.run
    subprocess.run = lambda *a, **k: None
    try:
        p._fill_form(FakeForm(), '/dev/shm/x.pdf')
    except BaseException as ex:
        got = {'raised': f'{type(ex).__name__}: {ex}'}
    finally:
        subprocess.run = orig
    want = {'box0': '2', 'box1': '', 'box2': 'z'}
    # one line shown in two boxes with different limits: each box applies its own limit (the short one must refuse)
    class TwoBoxes(FakeForm):
        def pdf_fields(self):
            return [P.TextPDFField('boxA', 'l2', max_length=25), P.TextPDFField('boxB', 'l2', max_length=3)]
    p._values['formx.l2'] = 'zzzzz'
    got2 = {}
    p._create_fdf = lambda data, fn: got2.update(data)
    subprocess.run = lambda *a, **k: None
    try:
        p._fill_form(TwoBoxes(), '/dev/shm/x.pdf')
        got2 = {'written': dict(got2)}
    except BaseException as ex:
        got2 = {'raised': type(ex).__name__}
    finally:
        subprocess.run = orig
    want2 = {'raised': 'PDFValueTooLong'}
    return {'reproduced': got != want or got2 != want2, 'fdf': got, 'expected': want, 'two_boxes_one_line': got2, 'expected_two_boxes': want2}


def run(tier, seed, t0):
    tasks = []
    for year in extract.YEARS:
        cat = linevc.Cat.get(year)
        for fname, form in cat.forms.items():
            if form.pdf_file() or len(form.pdf_fields()) > 0:
                tasks.append(Task(f'C18/{year}/{fname}', form_mappings, year, fname, weight=len(form.pdf_fields())))
        tasks.append(Task(f'C18/{year}/filing', filing_forms, year))
        tasks.append(Task(f'C18/{year}/copies', person_copies, year))
    tasks.append(Task('C18/fill_form', fill_form_unit, weight=50))
    obs = oblig.run_tasks(tasks)
    return oblig.finish('C18', tier, seed, obs, t0,
                        functions=['every pdf_fields list (3 years, 39 templates)', 'pdf_fields.py:ButtonPDFField.value (with the real value_fn lambdas)', 'pdf_filler.py:PDFFiller._fill_form'],
                        trusted_base=base.TRUSTED + ['pyvc/pdfread.py (XFA / AcroForm reader)', 'contracts/pdf_label_exceptions.json', 'contracts/pdf_label_keywords.json'],
                        assumptions=['the bundled templates are the official ones; a label that does not parse counts as "no label"',
                                     'frozen label exceptions (template label errors, deliberate reuse) are listed with their reason in contracts/pdf_label_exceptions.json'],
                        checker_cmd='./check C18', min_obligations=3000, extra={'exhaustive': True})
