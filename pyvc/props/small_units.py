"""Contracts of the small accessor classes: FormAccessor, ValueStore (C03, C04, C14)."""
import z3

from .. import corevc, extract, oblig, smt, sym
from ..corevc import AObj, Opaque, SV, ZMap, fresh, OBJ
from ..oblig import Ob
from ..sym import Raised, Unsupported

STR = z3.StringSort()


class AccSpec(corevc.Spec):
    def __init__(self, kind):
        self.kind = kind

    def opaque_call(self, it, obj, attr, args, kwargs, node):
        if obj.kind == 'form' and attr == 'name':
            return SV('str', z3.String('form_name'))
        if obj.kind == 'mapping' and attr == '__getitem__':
            k = sym.term(args[0])
            it.ghost['looked_up'] = k
            if it.run.branch(fresh('mapping_raises', z3.BoolSort()), where='mapping-raises'):
                e = KeyError('raised by the underlying store')
                it.ghost['raised'] = e
                raise Raised(e, node)
            sort = {'real': z3.RealSort(), 'int': z3.IntSort(), 'bool': z3.BoolSort(), 'str': STR, 'obj': OBJ}[self.kind]
            t = z3.Function(f'lookup_{self.kind}', STR, sort)(k)
            it.ghost['result'] = t
            return SV(self.kind, t)
        raise Unsupported(f'opaque {obj.kind}.{attr}')


def form_accessor():
    from habutax import form
    fn = form.FormAccessor.__getitem__
    fid = 'form.py:FormAccessor.__getitem__'
    obs = []
    for kind in ('real', 'int', 'bool', 'str', 'obj'):
        spec = AccSpec(kind)
        key = z3.String('key')

        def make_state(it):
            me = AObj(form.FormAccessor, {'form': Opaque(fresh('form', OBJ), 'form'), 'mapping': Opaque(fresh('mapping', OBJ), 'mapping')}, name='acc')
            return [me, SV('str', key)], {}
        paths = corevc.run_function(fn, make_state, spec)
        bad = None
        n = 0
        for p in paths:
            if p.outcome[0] == 'unsupported':
                bad = ('undecided', p.outcome[1])
                break
            it = p.interp
            hyp = p.conds + p.facts
            want = z3.If(z3.Contains(key, z3.StringVal('.')), key, z3.Concat(z3.String('form_name'), z3.StringVal('.'), key))
            lk = it.ghost.get('looked_up')
            if lk is None or smt.prove(hyp, lk == want)[0] != 'discharged':
                bad = ('refuted', f'looked up {lk} instead of the name qualified with the owning form')
                break
            if p.outcome[0] == 'raise':
                if p.outcome[1] is not it.ghost.get('raised'):
                    bad = ('refuted', f'raised {p.outcome[1]!r} instead of propagating the store\'s exception')
                    break
            else:
                r = p.outcome[1]
                res = it.ghost.get('result')
                if not (isinstance(r, SV) and res is not None and r.t.sexpr() == res.sexpr()):
                    bad = ('refuted', f'returns {r} instead of exactly the stored value {res}')
                    break
            n += 1
        oid = f'SMALL/FormAccessor.__getitem__/{kind}'
        clause = f'reads (value kind {kind}) return exactly what the underlying store holds under the name qualified with the owning form; exceptions of the store propagate'
        if bad is None:
            obs.append(Ob(id=oid, backend='symexec+z3', function=fid, clause=clause, vc=f'{n} path(s)', note='C03,C04,C05'))
        else:
            rep = native_accessor()
            obs.append(Ob(id=oid, status=oblig.REFUTED if bad[0] == 'refuted' else oblig.UNDECIDED, backend='symexec+z3', function=fid, clause='NOT: ' + clause,
                          solver_output=bad[1], witness={'detail': bad[1]}, replay=rep, note='C03,C04,C05'))
    return obs


def native_accessor():
    from habutax import form

    class F(object):
        def name(self):
            return 'f'
    store = {'f.x': 0.06796, 'g.y': 1234.567, 'f.s': ' a ', 'f.i': 3, 'f.b': True}
    acc = form.FormAccessor(store, F())
    runs = []
    bad = False
    for k, want in (('x', 0.06796), ('g.y', 1234.567), ('s', ' a '), ('i', 3), ('b', True)):
        try:
            got = acc[k]
        except BaseException as ex:
            got = f'raised {type(ex).__name__}'
        runs.append({'key': k, 'stored': repr(want), 'read': repr(got)})
        bad = bad or got != want or type(got) is not type(want)
    return {'reproduced': bad, 'runs': runs}


def native_value_store():
    """Concretisation: the real ValueStore holding None, 0, 0.0, '' and False (all legitimate values of solved lines)."""
    from habutax import values
    vs = values.ValueStore()
    held = {'f.none': None, 'f.zero': 0, 'f.zerof': 0.0, 'f.empty': '', 'f.false': False, 'f.one': 1}
    for k, v in held.items():
        vs[k] = v
    runs, bad = [], False
    for k, v in held.items():
        try:
            r = vs[k]
            runs.append({'stored': repr(v), 'read': repr(r)})
            bad = bad or r is not v
        except BaseException as ex:
            runs.append({'stored': repr(v), 'raised': f'{type(ex).__name__}({ex})'})
            bad = True
    try:
        vs['f.absent']
        runs.append({'absent': 'returned'})
        bad = True
    except values.UnmetDependency:
        pass
    except BaseException as ex:
        runs.append({'absent': type(ex).__name__})
        bad = True
    return {'reproduced': bad, 'kind': 'value-store', 'runs': runs}


def value_store():
    from habutax import values
    V = z3.DeclareSort('SVal')
    obs = []
    fid = 'values.py:ValueStore'
    spec = corevc.Spec()
    spec.views = {('ValueStore', 'values'): corevc.View('map', STR, V)}
    key = z3.String('key')

    def mk(it):
        vals = ZMap.havoc(STR, V, 'values')
        it.ghost['vals0'] = vals.snap()
        return AObj(values.ValueStore, {'values': vals}, name='vs')
    # __getitem__
    paths = corevc.run_function(values.ValueStore.__getitem__, lambda it: ([mk(it), SV('str', key)], {}), spec)
    ok, why = True, ''
    for p in paths:
        it = p.interp
        v0 = it.ghost['vals0']
        hyp = p.conds + p.facts
        if p.outcome[0] == 'unsupported':
            ok, why = None, p.outcome[1]
        elif p.outcome[0] == 'return':
            r = p.outcome[1]
            if not (smt.prove(hyp, v0.has[key])[0] == 'discharged' and isinstance(r, SV) and smt.prove(hyp, r.t == v0.val[key])[0] == 'discharged'):
                ok, why = False, 'returns something else than the stored value of a present key'
        else:
            e = p.outcome[1]
            if not (isinstance(e, values.UnmetDependency) and smt.prove(hyp, z3.Not(v0.has[key]))[0] == 'discharged'
                    and isinstance(e.dependency, SV) and e.dependency.t.sexpr() == key.sexpr()):
                ok, why = False, f'absent key does not raise UnmetDependency(key): {e!r}'
    kinds = {p.outcome[0] for p in paths}
    if ok and kinds != {'return', 'raise'}:
        ok, why = False, f'outcomes {kinds}'
    obs.append(Ob(id='SMALL/ValueStore.__getitem__', status=oblig.DISCHARGED if ok else (oblig.UNDECIDED if ok is None else oblig.REFUTED), backend='symexec+z3', function=fid,
                  clause='a present name returns its stored value; an absent name raises UnmetDependency carrying that name; no default', vc=f'{len(paths)} paths', solver_output=why,
                  witness=None if ok else {'detail': why}, replay=None if ok else native_value_store(), note='C03,C04,C01,C06,C13'))
    # __setitem__
    val = fresh('val', V)
    paths = corevc.run_function(values.ValueStore.__setitem__, lambda it: ([mk(it), SV('str', key), SV('obj', val)], {}), spec)
    ok, why = True, ''
    k2 = z3.String('other')
    for p in paths:
        it = p.interp
        v0 = it.ghost['vals0']
        v1 = p.post_self.attrs['values']
        hyp = p.conds + p.facts
        if p.outcome[0] != 'return':
            ok, why = False, str(p.outcome)
            continue
        goal = z3.And(v1.has[key], v1.val[key] == val, z3.ForAll([k2], z3.Implies(k2 != key, z3.And(v1.has[k2] == v0.has[k2], v1.val[k2] == v0.val[k2]))))
        if smt.prove(hyp, goal)[0] != 'discharged':
            ok, why = False, 'store does not set exactly the given name to exactly the given value'
    obs.append(Ob(id='SMALL/ValueStore.__setitem__', status=oblig.DISCHARGED if ok else oblig.REFUTED, backend='symexec+z3', function=fid,
                  clause='stores exactly the given value under exactly the given name; every other name is untouched', vc=f'{len(paths)} paths', solver_output=why,
                  witness=None if ok else {'detail': why}, replay=None if ok else {'reproduced': False}, note='C03,C04,C12'))
    return obs


def all_small():
    return form_accessor() + value_store() + input_store_init() + exception_classes()


if __name__ == '__main__':
    import warnings
    warnings.simplefilter('ignore')
    extract.setup_path()
    for o in all_small():
        print(o.status, o.id, o.solver_output[:200])


def input_store_init():
    """InputStore.__init__ / write: the file is parsed and written with the default ConfigParser dialect (A-CFG round trip)."""
    import configparser
    from habutax import inputs
    log = {}

    class Spec(corevc.Spec):
        def call_hook(self, it, f, args, kwargs, node):
            if f is configparser.ConfigParser:
                log.setdefault('parser', []).append((list(args), dict(kwargs)))
                return Opaque(fresh('config', OBJ), 'config')
            if f is open:
                log.setdefault('open', []).append(list(args))
                return Opaque(fresh('file', OBJ), 'file')
            if f is isinstance and len(args) == 2 and isinstance(args[0], str):
                return False
            return NotImplemented

        def opaque_call(self, it, obj, attr, args, kwargs, node):
            if obj.kind == 'config' and attr in ('read_file', 'write'):
                log.setdefault(attr, []).append((list(args), dict(kwargs)))
                return None
            raise Unsupported(f'{obj.kind}.{attr}')

    class Interp(corevc.CoreInterp):
        def enter_context(self, ctx, item):
            return ctx
    spec = Spec()
    ex = sym.Explorer()

    def thunk(run):
        it = Interp(run, spec)
        me = AObj(inputs.InputStore, {}, name='store')
        it.call_function(inputs.InputStore.__init__, [me, 'INPUT_FILE'])
        it.call_function(inputs.InputStore.write, [me, 'INPUT_FILE'])
        return me
    paths = ex.explore(thunk)
    ok = len(paths) == 1 and paths[0].outcome[0] == 'return' and log.get('parser') == [([], {})] and len(log.get('read_file', [])) == 1 \
        and log['read_file'][0][1] == {} and len(log.get('write', [])) == 1 and log['write'][0][1] == {} and log.get('open') == [['INPUT_FILE'], ['INPUT_FILE', 'w']]
    detail = str({k: str(v)[:120] for k, v in log.items()}) + ' ' + str([p.outcome for p in paths])[:200]
    if ok:
        return [Ob(id='SMALL/InputStore.__init__+write/default-dialect', backend='symexec', function='inputs.py:InputStore.__init__/write',
                   clause='the input file is read into and written from one ConfigParser built with default options (so that what is written back parses to the same map, A-CFG)',
                   vc=detail[:300], note='C13,C20,C05')]
    return [Ob(id='SMALL/InputStore.__init__+write/default-dialect', status=oblig.REFUTED, backend='symexec', function='inputs.py:InputStore.__init__/write',
               clause='NOT: the input file is parsed and written with the default ConfigParser dialect', solver_output=detail[:400], witness={'calls': detail[:400]},
               replay=native_store_roundtrip(), note='C13,C20,C05')]


def native_store_roundtrip():
    import configparser
    import os
    import tempfile
    from habutax import inputs
    runs, bad = [], False
    for text in ('12 Main St #4', 'a ; b', 'x=y', '100%', ' padded '):
        fd, path = tempfile.mkstemp(dir='/dev/shm', suffix='.ini')
        os.close(fd)
        try:
            st = inputs.InputStore(path)
            if not st.config.has_section('f'):
                st.config.add_section('f')
            try:
                st.config.set('f', 'k', text)
                st.write(path)
                st2 = inputs.InputStore(path)
                got = st2.config.get('f', 'k')
            except BaseException as ex:
                got = f'raised {type(ex).__name__}'
            runs.append({'answer': text, 'read_back': got})
            bad = bad or (got != text and got != text.strip())
        finally:
            os.unlink(path)
    return {'reproduced': bad, 'runs': runs}


def exception_classes():
    """The control-flow exceptions must not be swallowed by the Mapping mixins (get / __contains__ catch KeyError),
    otherwise a read through v.get(...) / `name in v` of an unvalued line would not reach the solver (line oracle, A-PURE)."""
    from habutax import values, inputs, fields
    obs = []
    for mod, name in ((values, 'UnmetDependency'), (inputs, 'MissingInput'), (inputs, 'MissingInputSpecification'), (inputs, 'InvalidInput'), (fields, 'FieldNotImplemented')):
        cls = getattr(mod, name, None)
        ok = isinstance(cls, type) and issubclass(cls, Exception) and not issubclass(cls, (LookupError, ArithmeticError, AttributeError, StopIteration, AssertionError, TypeError, ValueError))
        oid = f'SMALL/exceptions/{name}-is-not-swallowed-by-mapping-mixins'
        if ok:
            obs.append(Ob(id=oid, backend='ground-eval', function=f'{mod.__name__.split(".")[-1]}.py:{name}', note='C01,C03,C04,C13',
                          clause=f'{name} derives from Exception and from none of the classes the Mapping mixins or the solver itself catch for other purposes (KeyError/LookupError, ...)', vc=str(cls.__mro__)[:200]))
        else:
            rep = {'reproduced': True, 'mro': str(getattr(cls, '__mro__', None))[:300]}
            if name == 'UnmetDependency':
                from habutax import form

                class F(object):
                    def name(self):
                        return 'f'
                acc = form.FormAccessor(values.ValueStore(), F())
                try:
                    rep['FormAccessor.get_of_unvalued_line'] = repr(acc.get('x', 'DEFAULT'))
                except BaseException as ex:
                    rep['FormAccessor.get_of_unvalued_line'] = f'raised {type(ex).__name__}'
            obs.append(Ob(id=oid, status=oblig.REFUTED, backend='ground-eval', function=f'{mod.__name__.split(".")[-1]}.py:{name}', note='C01,C03,C04,C13',
                          clause=f'{name} is (a subclass of) an exception that dict-style access swallows: v.get(...) / `in` hide the dependency from the solver', witness={'mro': rep['mro']}, replay=rep))
    return obs
