"""C19 - the fill step transmits values faithfully and files exactly the right forms.

(a) PDFFiller._create_fdf on the real code: the line written for (k, v) is
    "<< /T (" esc(k) ") /V (" esc(v) ") >>" with esc the PDF literal-string escaping of ISO 32000-1 7.3.4.2
    (backslash, '(' and ')' escaped) - string obligation, cvc5 (str.replace_all);
(b) TextPDFField.value / ChoicePDFField.value / ButtonPDFField.value contracts (no truncation, raise instead);
(c) per form class: needs_filing is constant False for forms without a template (worksheets) and for InputForms,
    and total (never raises) on a solution that holds the lines it reads or not;
(d) PDFFiller.fill: exactly {f : needs_filing(f)} is handed to _fill_form, once each, sorted by (jurisdiction, sequence_no)
    - symbolic in the needs_filing answers, bounded in the number of forms (k <= 3, all orders);
(e) PDFFiller.fill, loading loop: every section of the solution except DEFAULT goes to _add_form once (generic section name, z3).
"""
import itertools
import os
import re
import subprocess
import tempfile
import time

import z3

from .. import base, corevc, extract, linevc, oblig, smt, sym
from ..corevc import AObj, Opaque, SV, fresh, OBJ
from ..oblig import Ob, Task
from ..sym import Raised, Unsupported

STR = z3.StringSort()


class FdfInterp(corevc.CoreInterp):
    def enter_context(self, ctx, item):
        return ctx

    def sym_method(self, obj, attr, args, kwargs, node):
        # Python str.replace(old, new) replaces ALL occurrences: keep it as a marked uninterpreted function and
        # rewrite it to str.replace_all in the SMT-LIB text handed to cvc5
        if isinstance(obj, SV) and obj.kind == 'str' and attr == 'replace' and len(args) == 2 and all(isinstance(a, str) for a in args):
            f = z3.Function('pyreplace__' + args[0].encode().hex() + '__' + args[1].encode().hex(), STR, STR)
            return SV('str', f(obj.t))
        return super().sym_method(obj, attr, args, kwargs, node)


class FdfSpec(corevc.Spec):
    def call_hook(self, it, f, args, kwargs, node):
        if f is open:
            return Opaque(fresh('file', OBJ), 'file')
        return NotImplemented

    def opaque_call(self, it, obj, attr, args, kwargs, node):
        if obj.kind == 'file' and attr == 'write':
            it.ghost.setdefault('written', []).append(args[0])
            return None
        raise Unsupported(f'opaque {obj.kind}.{attr}')


def smt2_string(s):
    out = ''
    for ch in s:
        if ch == '"':
            out += '""'
        elif ch == '\\':
            out += '\\u{5c}'
        elif 32 <= ord(ch) < 127:
            out += ch
        else:
            out += '\\u{%x}' % ord(ch)
    return '"' + out + '"'


def esc_spec(term_text):
    return (f'(str.replace_all (str.replace_all (str.replace_all {term_text} {smt2_string(chr(92))} {smt2_string(chr(92) * 2)}) '
            f'{smt2_string("(")} {smt2_string(chr(92) + "(")}) {smt2_string(")")} {smt2_string(chr(92) + ")")})')


def term_to_smt2(t):
    txt = t.sexpr()

    def rep(m):
        old = bytes.fromhex(m.group(1)).decode()
        new = bytes.fromhex(m.group(2)).decode()
        return f'(PYREPLACE {smt2_string(old)} {smt2_string(new)} '
    # (pyreplace__xx__yy ARG) -> (str.replace_all ARG "old" "new"): do it structurally with a small parser
    return rewrite_replace(txt)


def rewrite_replace(txt):
    pat = re.compile(r'\(pyreplace__([0-9a-f]*)__([0-9a-f]*) ')
    while True:
        m = pat.search(txt)
        if not m:
            return txt
        # find matching close paren of this application
        depth, i = 0, m.start()
        in_str = False
        while i < len(txt):
            ch = txt[i]
            if ch == '"':
                in_str = not in_str
            elif not in_str:
                if ch == '(':
                    depth += 1
                elif ch == ')':
                    depth -= 1
                    if depth == 0:
                        break
            i += 1
        arg = txt[m.end():i]
        old = bytes.fromhex(m.group(1)).decode()
        new = bytes.fromhex(m.group(2)).decode()
        txt = txt[:m.start()] + f'(str.replace_all {arg} {smt2_string(old)} {smt2_string(new)})' + txt[i + 1:]


def cvc5_query(decls, assertion, timeout_s=20, want_model=False):
    text = '(set-logic ALL)\n(set-option :strings-exp true)\n'
    if want_model:
        text += '(set-option :produce-models true)\n(set-option :strings-fmf true)\n'
    text += ''.join(f'(declare-const {d} String)\n' for d in decls)
    text += f'(assert {assertion})\n(check-sat)\n'
    if want_model:
        text += ''.join(f'(get-value ({d}))\n' for d in decls)
    with tempfile.NamedTemporaryFile('w', suffix='.smt2', delete=False, dir='/dev/shm') as f:
        f.write(text)
        path = f.name
    try:
        r = subprocess.run(['/usr/bin/cvc5', '--lang=smt2', f'--tlimit={timeout_s * 1000}', path], capture_output=True, text=True, timeout=timeout_s + 5)
        return r.stdout.strip(), text
    except subprocess.TimeoutExpired:
        return 'unknown', text
    finally:
        os.unlink(path)


def create_fdf():
    from habutax import pdf_filler
    fn = pdf_filler.PDFFiller._create_fdf
    fid = 'pdf_filler.py:PDFFiller._create_fdf'
    spec = FdfSpec()
    K, V = z3.String('K'), z3.String('V')
    ex = sym.Explorer(feas_skip_quant=True)

    def thunk(run):
        it = FdfInterp(run, spec)
        run.path.interp = it
        me = AObj(pdf_filler.PDFFiller, {}, name='filler')
        return it.call_function(fn, [me, {SV('str', K): SV('str', V)}, 'OUT.fdf'])
    # dict with a symbolic key: build it as a list of pairs through a tiny shim object
    class OneItem(corevc.Abstract):
        def sym_method(self, it, attr, args, kwargs, node):
            if attr == 'items':
                return [(SV('str', K), SV('str', V))]
            raise Unsupported(attr)

    def thunk(run):
        it = FdfInterp(run, spec)
        run.path.interp = it
        me = AObj(pdf_filler.PDFFiller, {}, name='filler')
        return it.call_function(fn, [me, OneItem(), 'OUT.fdf'])
    paths = ex.explore(thunk)
    obs = []
    t0 = time.time()
    if len(paths) != 1 or paths[0].outcome[0] != 'return':
        return [Ob(id='C19/_create_fdf/shape', status=oblig.UNDECIDED, function=fid, solver_output=str([p.outcome for p in paths])[:300])]
    written = paths[0].interp.ghost.get('written', [])
    body = [w for w in written if isinstance(w, SV)]
    if len(body) != 1:
        return [Ob(id='C19/_create_fdf/shape', status=oblig.UNDECIDED, function=fid, solver_output=f'expected one symbolic write, got {written}')]
    line = term_to_smt2(body[0].t)
    want = f'(str.++ {smt2_string("<< /T (")} {esc_spec("K")} {smt2_string(") /V (")} {esc_spec("V")} {smt2_string(") >>")})'
    res, text = cvc5_query(['K', 'V'], f'(not (= {line} {want}))')
    clause = 'the FDF entry written for (name, value) is "<< /T (" esc(name) ") /V (" esc(value) ") >>" with backslash and both parentheses escaped, so it decodes to exactly the mapped text'
    if res.startswith('unsat'):
        obs.append(Ob(id='C19/_create_fdf/entry-is-escaped-literal', backend='cvc5', function=fid, time_s=time.time() - t0, clause=clause, vc=f'(not (= {line[:200]} {want[:200]}))'))
    else:
        res2, _ = cvc5_query(['K', 'V'], f'(and (not (= {line} {want})) (<= (str.len K) 2) (<= (str.len V) 3))', want_model=True)
        vals = re.findall(r'\(\((\w) "((?:[^"]|"")*)"\)\)', res2)
        model = {k: v.replace('""', '"').replace('\\u{5c}', '\\') for k, v in vals}
        rep = native_fdf(model.get('K', 'name'), model.get('V', ')'))
        obs.append(Ob(id='C19/_create_fdf/entry-is-escaped-literal', status=oblig.REFUTED if res.startswith('sat') or res2.startswith('sat') else oblig.UNDECIDED, backend='cvc5',
                      function=fid, clause='NOT: ' + clause, solver_output=res + ' / ' + res2[:200], vc=f'(not (= {line[:300]} {want[:300]}))', witness=model, replay=rep,
                      replay_spec={'kind': 'fdf', 'K': model.get('K'), 'V': model.get('V')}))
    # header / footer are written around the entries
    heads = [w for w in written if isinstance(w, str)]
    ok = len(written) == 3 and written[0] == pdf_filler.fdf_header and written[2] == pdf_filler.fdf_footer
    obs.append(Ob(id='C19/_create_fdf/header-entries-footer', status=oblig.DISCHARGED if ok else oblig.REFUTED, backend='symexec', function=fid,
                  clause='the file is header, the joined entries, footer', vc=str([type(w).__name__ for w in written]), witness=None if ok else {'written': str(written)[:300]}, replay=None if ok else {'reproduced': False}))
    return obs


def decode_pdf_literal(tok):
    """ISO 32000-1 7.3.4.2 literal string decoder (returns None if the token is not one balanced literal)."""
    if not tok.startswith('('):
        return None
    out, depth, i = [], 0, 0
    while i < len(tok):
        ch = tok[i]
        if ch == '\\':
            i += 1
            if i >= len(tok):
                return None
            n = tok[i]
            out.append({'n': '\n', 'r': '\r', 't': '\t', 'b': '\b', 'f': '\f'}.get(n, n))
        elif ch == '(':
            depth += 1
            if depth > 1:
                out.append(ch)
        elif ch == ')':
            depth -= 1
            if depth == 0:
                return ''.join(out) if i == len(tok) - 1 else None
            out.append(ch)
        else:
            out.append(ch)
        i += 1
    return None


def native_fdf(k, v):
    from habutax import pdf_filler
    p = pdf_filler.PDFFiller.__new__(pdf_filler.PDFFiller)
    with tempfile.NamedTemporaryFile('r', suffix='.fdf', dir='/dev/shm') as f:
        p._create_fdf({k: v}, f.name)
        text = open(f.name).read()
    body = text[len(pdf_filler.fdf_header):len(text) - len(pdf_filler.fdf_footer)]
    m = re.match(r'^<< /T (\(.*\)) /V (\(.*\)) >>$', body, re.S)
    dec = decode_pdf_literal(m.group(2)) if m else None
    return {'reproduced': dec != v, 'name': k, 'value': v, 'entry': body, 'decoded_value': dec}


def bounded_fdf(tier):
    chars = ['(', ')', '\\', '"', "'", 'a', ' ', '\n']
    maxlen = 3 if tier == 'quick' else 5
    cases = 0
    for n in range(maxlen + 1):
        for tup in itertools.product(chars, repeat=n):
            v = ''.join(tup)
            cases += 1
            r = native_fdf('f[0].x', v)
            if r['reproduced']:
                return [Ob(id='C19/bounded/fdf-decode', status=oblig.REFUTED, backend='native', bounded=True, cases=cases, function='pdf_filler.py:PDFFiller._create_fdf',
                           clause=f'the entry written for value {v!r} decodes to {r["decoded_value"]!r}', witness={'value': v}, replay=r)]
    return [Ob(id='C19/bounded/fdf-decode', backend='native', bounded=True, cases=cases, function='pdf_filler.py:PDFFiller._create_fdf',
               note=f'every string up to length {maxlen} over {chars} written by the real _create_fdf and decoded with an ISO 32000-1 literal-string decoder')]


class FieldSpec(corevc.Spec):
    def opaque_call(self, it, obj, attr, args, kwargs, node):
        if obj.kind == 'fieldobj' and attr == 'to_string':
            t = z3.String('to_string_result')
            return SV('str', t)
        raise Unsupported(f'opaque {obj.kind}.{attr}')


def pdf_field_contracts():
    from habutax import pdf_fields as P
    obs = []
    S = z3.String('to_string_result')
    spec = FieldSpec()
    cases = [
        ('TextPDFField(max_length=5)', lambda: P.TextPDFField('pdf', 'line', max_length=5), 'text', 5),
        ('TextPDFField(no limit)', lambda: P.TextPDFField('pdf', 'line'), 'text', None),
        ('ChoicePDFField', lambda: P.ChoicePDFField('pdf', 'line', ['AL', 'NC']), 'choice', ['AL', 'NC']),
        ('ButtonPDFField', lambda: P.ButtonPDFField('pdf', 'line', '1'), 'button', '1'),
    ]
    for name, mk, kind, param in cases:
        o = mk()
        o._pyvc_symbolic = True
        fid = f'pdf_fields.py:{type(o).__name__}.value'
        ex = sym.Explorer()
        val = SV('bool', z3.Bool('line_value')) if kind == 'button' else SV('obj', fresh('line_value', OBJ))

        def thunk(run):
            it = corevc.CoreInterp(run, spec)
            return it.call_function(type(o).value, [o, val, Opaque(fresh('fieldobj', OBJ), 'fieldobj')])
        paths = ex.explore(thunk)
        bad = None
        for p in paths:
            hyp = p.conds + p.facts
            if p.outcome[0] == 'unsupported':
                bad = ('undecided', p.outcome[1])
                break
            if kind == 'text':
                if p.outcome[0] == 'return':
                    r = p.outcome[1]
                    ok = isinstance(r, SV) and r.t.sexpr() == S.sexpr() and (param is None or smt.prove(hyp, z3.Length(S) <= param)[0] == 'discharged')
                    if not ok:
                        bad = ('refuted', f'returns {r} (must be the untruncated text, only when it fits {param})')
                else:
                    ok = isinstance(p.outcome[1], P.PDFValueTooLong) and param is not None and smt.prove(hyp, z3.Length(S) > param)[0] == 'discharged'
                    if not ok:
                        bad = ('refuted', f'raises {p.outcome[1]!r}')
            elif kind == 'choice':
                inlist = z3.Or(*[S == z3.StringVal(c) for c in param])
                if p.outcome[0] == 'return':
                    r = p.outcome[1]
                    if not (isinstance(r, SV) and r.t.sexpr() == S.sexpr() and smt.prove(hyp, inlist)[0] == 'discharged'):
                        bad = ('refuted', f'returns {r} for a value outside the choice list')
                else:
                    if not (isinstance(p.outcome[1], P.PDFInvalidChoiceValue) and smt.prove(hyp, z3.Not(inlist))[0] == 'discharged'):
                        bad = ('refuted', f'raises {p.outcome[1]!r}')
            else:
                if p.outcome[0] != 'return' or p.outcome[1] not in ('1', 'Off'):
                    bad = ('refuted', f'button value {p.outcome}')
                else:
                    on = smt.prove(hyp, val.t)[0] == 'discharged'
                    off = smt.prove(hyp, z3.Not(val.t))[0] == 'discharged'
                    if not ((p.outcome[1] == '1' and on) or (p.outcome[1] == 'Off' and off)):
                        bad = ('refuted', 'export value does not follow the line value')
        outcomes = {p.outcome[0] for p in paths}
        if bad is None and kind in ('choice',) and outcomes != {'return', 'raise'}:
            bad = ('refuted', f'outcomes {outcomes}')
        if bad is None and kind == 'text' and param is not None and outcomes != {'return', 'raise'}:
            bad = ('refuted', f'a length limit that can never raise: outcomes {outcomes}')
        oid = f'C19/pdf_fields/{name}'
        clause = {'text': 'returns exactly the line text when it fits the box, raises PDFValueTooLong otherwise (never truncates)',
                  'choice': 'returns the text only if it is one of the choices, raises PDFInvalidChoiceValue otherwise',
                  'button': 'returns the export value iff the line value is true, else Off'}[kind]
        if bad is None:
            obs.append(Ob(id=oid, backend='symexec+z3', function=fid, clause=clause, vc=f'{len(paths)} path(s)'))
        else:
            rep = native_pdf_field(mk, kind, param)
            obs.append(Ob(id=oid, status=oblig.REFUTED if bad[0] == 'refuted' else oblig.UNDECIDED, backend='symexec+z3', function=fid, clause='NOT: ' + clause, solver_output=bad[1],
                          witness={'detail': bad[1]}, replay=rep))
    return obs


def native_pdf_field(mk, kind, param):
    class FO(object):
        def __init__(self, s):
            self.s = s

        def to_string(self, v):
            return self.s
    runs, bad = [], False
    for s in ('abc', 'abcdefghij', 'NC', 'ZZ', 'a    b    c', '  abcde  ', 'ab\ncd\nef', 'abcde\u00a0\u00a0'):
        o = mk()
        try:
            r = o.value(True, FO(s))
            runs.append({'text': s, 'returned': r})
            if kind == 'text' and param is not None and len(s) > param:
                bad = True
            if kind == 'choice' and s not in param:
                bad = True
        except BaseException as ex:
            runs.append({'text': s, 'raised': type(ex).__name__})
    return {'reproduced': bad, 'runs': runs}


def needs_filing_classes(year):
    """(c) needs_filing of every form, executed symbolically over a symbolic solution: forms without a template
    (worksheets) and input-only forms return False on every path; no path ends in an exception of its own."""
    from habutax import form as Fm
    cat = linevc.Cat.get(year)
    obs = []
    for fname, form in cat.forms.items():
        cls = type(form)
        fid = f'{cls.__module__.replace("habutax.", "").replace(".", "/")}.py:{cls.__name__}.needs_filing'
        oid = f'C19/{year}/needs_filing/{fname}'
        fn = cls.needs_filing
        ex = sym.Explorer()

        def thunk(run):
            it = linevc.LineInterp(run, cat, None, None)
            return it.call_function(fn, [form, NFValues('v', form)])
        paths = ex.explore(thunk)
        no_template = not form.pdf_file() or len(form.pdf_fields()) == 0 or isinstance(form, Fm.InputForm)
        problems = []
        reads = sorted({r[1] for p in paths for r in p.reads})
        for p in paths:
            if p.outcome[0] == 'unsupported':
                problems.append(('undecided', p.outcome[1]))
            elif p.outcome[0] == 'raise':
                problems.append(('refuted', f'a path raises {p.outcome[1]!r}'))
            elif no_template and p.outcome[1] is not False:
                problems.append(('refuted', 'a form without template/mappings (worksheet or input-only form) can ask to be filed'))
            elif not isinstance(p.outcome[1], (bool, sym.SV)):
                problems.append(('refuted', f'returns {p.outcome[1]!r}'))
        if not problems:
            obs.append(Ob(id=oid, backend='symexec', function=fid, clause='needs_filing returns a boolean on every path, False for worksheets and input-only forms', vc=f'{len(paths)} path(s); reads {reads}'))
        else:
            st, why = problems[0]
            obs.append(Ob(id=oid, status=oblig.REFUTED if st == 'refuted' else oblig.UNDECIDED, backend='symexec', function=fid, clause=why, witness={'form': fname, 'reads': reads},
                          solver_output=why, replay={'reproduced': False}))
    return obs


class NFValues(linevc.Acc):
    """The solution handed to needs_filing: reads as in a line; `name in values` is a symbolic presence test."""
    def sym_contains(self, it, x, node):
        if not isinstance(x, str):
            raise Unsupported('presence test with a symbolic name')
        it.run.path.reads.append(('v', x + ' (presence)', False))
        return SV('bool', z3.Bool(f'present|{x}'))


def fill_bounded():
    """(d) PDFFiller.fill on the real code with stub form classes reached through the solution sections: every subset of needing-filing answers and every order of k<=3 forms."""
    from habutax import pdf_filler, values
    import configparser
    from habutax.form import Jurisdiction
    cases = 0
    for k in (1, 2, 3):
        keys = [(Jurisdiction.US, 47), (Jurisdiction.US, 7), (Jurisdiction.NC, 1)][:k]      # 7 before 47 as numbers, after it as text
        for perm in itertools.permutations(range(k)):
            for needs in itertools.product([False, True], repeat=k):
                cases += 1
                filled = []

                names = ['fb:you', 'fb:spouse', 'fa'][:k]     # two copies of one form class and a plain form, named as the solver writes them

                def stub(base):
                    class StubForm(object):
                        form_name = base

                        def __init__(self, instance=None):
                            self._instance = instance
                            self.ix = names.index(self.name())
                            self.jurisdiction, self.sequence_no = keys[self.ix]

                        def fields(self):
                            return []

                        def needs_filing(self, v):
                            return needs[self.ix]

                        def name(self):
                            return base if self._instance is None else f'{base}:{self._instance}'

                        def instance(self):
                            return self._instance
                    return StubForm
                sol = configparser.ConfigParser()
                for ix in perm:
                    sol.add_section(names[ix])
                # the forms come from the sections of the solution through the real _add_form (incl. 'form:instance' names)
                p = pdf_filler.PDFFiller(sol, [stub(b) for b in sorted({n.split(':')[0] for n in names})], '/dev/null')
                files = []
                p._fill_form = lambda form, fn: (filled.append(form.ix), files.append(fn))
                import subprocess as sp
                orig = sp.run
                cats = []
                sp.run = lambda *a, **kw: cats.append(list(a[0]))
                try:
                    p.fill()
                finally:
                    sp.run = orig
                want = sorted([ix for ix in range(k) if needs[ix]], key=lambda ix: keys[ix])
                cat = cats[-1] if cats else []
                catted = cat[1:cat.index('cat')] if 'cat' in cat else None
                if filled == want and (len(set(files)) != len(files) or catted != files):
                    return [Ob(id='C19/bounded/fill-selects-and-orders', status=oblig.REFUTED, backend='native', bounded=True, cases=cases, function='pdf_filler.py:PDFFiller.fill',
                               clause=f'intermediate files {files} are not distinct or not concatenated once each in order: {catted}', witness={'order': list(perm), 'needs': list(needs)},
                               replay={'reproduced': True, 'files': files, 'concatenated': catted})]
                if filled != want:
                    return [Ob(id='C19/bounded/fill-selects-and-orders', status=oblig.REFUTED, backend='native', bounded=True, cases=cases, function='pdf_filler.py:PDFFiller.fill',
                               clause=f'forms {list(perm)} with needs_filing {needs}: filled {filled}, expected {want}', witness={'order': list(perm), 'needs': list(needs)},
                               replay={'reproduced': True, 'filled': filled, 'expected': want})]
    return [Ob(id='C19/bounded/fill-selects-and-orders', backend='native', bounded=True, cases=cases, function='pdf_filler.py:PDFFiller.fill',
               note='real fill() and _add_form with stub form classes and a solution whose sections are two copies of one form class and a plain form: every subset x every order of up to 3 forms: exactly the forms needing filing, once each, sorted by (jurisdiction, sequence_no)')]


class _AfterLoad(Exception):
    """Sentinel: the section loop of PDFFiller.fill has been executed for the generic section name."""


def fill_loads_unit():
    """(e) PDFFiller.fill, the loading loop, on the real code, for a generic section name n of the solution (any text, with or
    without ':'): n is handed to _add_form exactly once unless n is ConfigParser's 'DEFAULT' pseudo-section.  Unbounded in the
    number of sections (one symbolic iteration stands for each); _add_form itself is under C18/C14 contracts."""
    from habutax import pdf_filler
    fid = 'pdf_filler.py:PDFFiller.fill (loading loop)'
    N = z3.String('section_name')

    class Solution(corevc.Abstract):
        def sym_iter(self, it, st, frame):
            it.assign(st.target, SV('str', N), frame)
            try:
                it.exec_block(st.body, frame)
            except sym._Continue:
                pass
            raise Raised(_AfterLoad())

    class Spec(corevc.Spec):
        def callee_contract(self, selfobj, func):
            if func is pdf_filler.PDFFiller._add_form:
                def c(it, me, args, kwargs, node):
                    it.ghost.setdefault('added', []).append(args[0])
                    return None
                return c
            return None
    ex = sym.Explorer()

    def thunk(run):
        it = corevc.CoreInterp(run, Spec())
        run.path.interp = it
        me = AObj(pdf_filler.PDFFiller, {'_solution': Solution(), 'forms': []}, name='filler')
        return it.call_function(pdf_filler.PDFFiller.fill, [me])
    paths = ex.explore(thunk)
    bad, n = None, 0
    dflt = N == z3.StringVal('DEFAULT')
    for p in paths:
        hyp = p.conds + p.facts
        if p.outcome[0] == 'unsupported':
            bad = ('undecided', p.outcome[1])
            break
        if not (p.outcome[0] == 'raise' and isinstance(p.outcome[1], _AfterLoad)):
            bad = ('refuted', f'the loading loop ends with {p.outcome}')
            break
        added = p.interp.ghost.get('added', [])
        if not added:
            if smt.prove(hyp, dflt)[0] != 'discharged':
                bad = ('refuted', 'a section other than DEFAULT is not loaded')
                break
        elif not (len(added) == 1 and isinstance(added[0], SV) and smt.prove(hyp, z3.And(added[0].t == N, z3.Not(dflt)))[0] == 'discharged'):
            bad = ('refuted', f'_add_form receives {added} for section n')
            break
        n += 1
    oid = 'C19/fill/every-section-of-the-solution-is-loaded'
    clause = 'for every section name n of the solution: _add_form(n) is called exactly once iff n is not DEFAULT (instanced names form:instance included)'
    if bad is None and n >= 2:
        return [Ob(id=oid, backend='symexec+z3', function=fid, clause=clause, vc=f'{n} path(s) of the generic iteration')]
    rep = native_fill_loads() if bad and bad[0] == 'refuted' else {'reproduced': False}
    return [Ob(id=oid, status=oblig.REFUTED if bad and bad[0] == 'refuted' else oblig.UNDECIDED, backend='symexec+z3', function=fid, clause='NOT: ' + clause,
               solver_output=(bad or ('', f'vacuous: {n} path(s)'))[1], witness={'detail': (bad or ('', 'vacuous'))[1]}, replay=rep)]


def native_fill_loads():
    """Concretisation: the real fill() on a solution with sections 1040, 8889:you, w-2:0 and a recording _add_form."""
    from habutax import pdf_filler
    import configparser
    import subprocess as sp
    sol = configparser.ConfigParser()
    names = ['1040', '8889:you', 'w-2:0', 'a.b', 'x y']
    for nm in names:
        sol.add_section(nm)
    p = pdf_filler.PDFFiller(sol, [], os.devnull)
    got = []
    p._add_form = lambda nm: got.append(nm)
    orig = sp.run
    sp.run = lambda *a, **kw: None
    try:
        p.fill()
    except BaseException as ex:
        got.append(f'raised {type(ex).__name__}')
    finally:
        sp.run = orig
    return {'reproduced': got != names, 'kind': 'fill-loads', 'sections': names, 'loaded': got}


def reader_units():
    """Faithful fill rests on the filler seeing the solution as it was written: the fill_pdfs / _read_form_fields units of C14
    (parsed with the dialect it was written in, every entry re-typed by the definition of the same name) belong to C19 as well."""
    from . import c14, c18
    out = []
    for o in c14.fill_pdfs_unit() + c14.read_form_fields_unit():
        o.id = o.id.replace('C14/', 'C19/reader/')
        out.append(o)
    # ... and on each box receiving what its own pdf field produces (length limit included): the _fill_form unit of C18
    for o in c18.fill_form_unit():
        o.id = o.id.replace('C18/', 'C19/filler/')
        out.append(o)
    return out


def run(tier, seed, t0):
    tasks = [Task('fdf', create_fdf), Task('fields', pdf_field_contracts), Task('bfdf', bounded_fdf, tier), Task('fill', fill_bounded), Task('fill/loads', fill_loads_unit)]
    tasks += [Task(f'nf/{y}', needs_filing_classes, y) for y in extract.YEARS]
    tasks += [Task('reader/fill_pdfs', reader_units)]
    obs = oblig.run_tasks(tasks)
    return oblig.finish('C19', tier, seed, obs, t0,
                        functions=['pdf_filler.py:PDFFiller._create_fdf', 'pdf_fields.py:TextPDFField.value', 'pdf_fields.py:ChoicePDFField.value', 'pdf_fields.py:ButtonPDFField.value',
                                   'pdf_fields.py:PDFField.value', 'every Form.needs_filing (76 form instances)', 'pdf_filler.py:PDFFiller.fill (bounded)', '__init__.py:fill_pdfs', 'pdf_filler.py:PDFFiller._read_form_fields'],
                        trusted_base=base.TRUSTED + ['cvc5 1.0.3 --strings-exp for the str.replace_all obligation'],
                        assumptions=base.assumptions('A-PY', 'A-PDFTK') + ['Python str.replace is str.replace_all', 'subprocess/pdftk external (absent from the sandbox)',
                                                                            'PDFFiller.fill: list length bounded by 3 in the stand-in; _fill_form itself (mapping loop) is covered by C18'],
                        checker_cmd='./check C19', min_obligations=60)
