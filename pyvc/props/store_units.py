"""InputStore against a contract of configparser.ConfigParser that includes the [DEFAULT] section (A-CFG made explicit).

ConfigParser state (ghost): sec : Str -> Bool (sections other than DEFAULT), own : Str x Str -> Bool / val : Str x Str -> Str
(options of a section), dflt : Str -> Bool / dval : Str -> Str (options of [DEFAULT]).  Contract of the methods InputStore uses
(Python library reference, "configparser"; names are lower-case by C17 so optionxform is the identity; no '%' interpolation):

  has_option(s, k)      sec[s] and (own[s,k] or dflt[k])                    (False for an unknown section)
  get(s, k)             NoSectionError unless sec[s]; own value, else default value, else NoOptionError
  get(s, k, fallback=f) f where get would raise
  sections()            { s | sec[s] }
  add_section(s)        DuplicateSectionError if sec[s], else sec[s] := True  (defaults become visible in s)
  set(s, k, v)          NoSectionError unless sec[s]; own[s,k] := True, val[s,k] := v
  defaults()            mapping k -> dval[k] on dflt

What "the file supplies input k of section s" means (specification, independent of the code): the section has the option itself,
or [DEFAULT] has it:   supplied(s, k) := (sec[s] and own[s,k]) or dflt[k],   text(s, k) := own value if any, else the default.

Units (real code of habutax/inputs.py):
  InputStore.provides / __getitem__ : the four outcomes, with "supplied" as specified above;
  InputStore.__setitem__            : stores exactly the text for exactly that input, and changes whether / what any OTHER input
                                      is supplied not at all (frame) - this is what the solver's ghost set C relies on.
"""
import z3

from .. import corevc, oblig, smt, sym
from ..corevc import AObj, Opaque, SV, ZMap, fresh, OBJ
from ..oblig import Ob
from ..sym import Raised, Unsupported

STR = z3.StringSort()
section_of = z3.Function('section_of', OBJ, STR)
base_of = z3.Function('base_name_of', OBJ, STR)
valid_fn = z3.Function('valid', OBJ, STR, z3.BoolSort())
VALS = z3.DeclareSort('InVal')
value_fn = z3.Function('value', OBJ, STR, VALS)


class Cfg(object):
    """Ghost state of one ConfigParser."""
    def __init__(self, tag='cfg'):
        self.sec = fresh(tag + '.sec', z3.ArraySort(STR, z3.BoolSort()))
        self.own = fresh(tag + '.own', z3.ArraySort(STR, z3.ArraySort(STR, z3.BoolSort())))
        self.val = fresh(tag + '.val', z3.ArraySort(STR, z3.ArraySort(STR, STR)))
        self.dflt = fresh(tag + '.dflt', z3.ArraySort(STR, z3.BoolSort()))
        self.dval = fresh(tag + '.dval', z3.ArraySort(STR, STR))

    def snap(self):
        c = Cfg.__new__(Cfg)
        c.__dict__.update(self.__dict__)
        return c

    def has_option(self, s, k):
        return z3.And(self.sec[s], z3.Or(self.own[s][k], self.dflt[k]))

    def supplied(self, s, k):
        return z3.Or(z3.And(self.sec[s], self.own[s][k]), self.dflt[k])

    def text(self, s, k):
        return z3.If(z3.And(self.sec[s], self.own[s][k]), self.val[s][k], self.dval[k])


class SectionSet(corevc.Abstract):
    def __init__(self, cfg):
        self.cfg = cfg

    def sym_contains(self, it, x, node):
        return SV('bool', self.cfg.sec[sym.term(x)])


class DefaultsMap(corevc.Abstract):
    def __init__(self, cfg):
        self.cfg = cfg

    def sym_contains(self, it, x, node):
        return SV('bool', self.cfg.dflt[sym.term(x)])

    def sym_getitem(self, it, key, node):
        k = sym.term(key)
        if it.run.branch(z3.Not(self.cfg.dflt[k]), where=f'dget@{node.lineno}'):
            raise Raised(KeyError('no such default'), node)
        return SV('str', self.cfg.dval[k])

    def sym_method(self, it, attr, args, kwargs, node):
        if attr == 'get' and 1 <= len(args) <= 2:
            k = sym.term(args[0])
            if it.run.branch(self.cfg.dflt[k], where=f'dget@{node.lineno}'):
                return SV('str', self.cfg.dval[k])
            return args[1] if len(args) == 2 else None
        raise Unsupported(f'defaults().{attr}')


class StoreSpec(corevc.Spec):
    views = {('InputStore', 'input_specs'): corevc.View('map', STR, OBJ)}

    def sym_attr_call(self, it, obj, attr, args, node):
        if obj.t.sort() == OBJ:
            if attr == 'section' and not args:
                return SV('str', section_of(obj.t))
            if attr == 'base_name' and not args:
                return SV('str', base_of(obj.t))
            if attr == 'valid' and len(args) == 1:
                it.ghost.setdefault('calls', []).append(('valid', sym.term(args[0])))
                return SV('bool', valid_fn(obj.t, sym.term(args[0])))
            if attr == 'value' and len(args) == 1:
                it.ghost.setdefault('calls', []).append(('value', sym.term(args[0])))
                return SV('obj', value_fn(obj.t, sym.term(args[0])))
        return NotImplemented

    def opaque_call(self, it, obj, attr, args, kwargs, node):
        import configparser
        if obj.kind != 'config':
            raise Unsupported(f'opaque {obj.kind}.{attr}')
        c = it.ghost['cfg']
        if attr == 'has_option' and len(args) == 2 and not kwargs:
            return SV('bool', c.has_option(sym.term(args[0]), sym.term(args[1])))
        if attr == 'get' and len(args) == 2 and set(kwargs) <= {'fallback'}:
            s, k = sym.term(args[0]), sym.term(args[1])
            it.ghost.setdefault('calls', []).append(('get', None))
            if it.run.branch(z3.Not(c.sec[s]), where=f'cfgget-nosection@{node.lineno}'):
                if 'fallback' in kwargs:
                    return kwargs['fallback']
                raise Raised(configparser.NoSectionError('<section>'), node)
            if it.run.branch(z3.Not(z3.Or(c.own[s][k], c.dflt[k])), where=f'cfgget-nooption@{node.lineno}'):
                if 'fallback' in kwargs:
                    return kwargs['fallback']
                raise Raised(configparser.NoOptionError('<option>', '<section>'), node)
            return SV('str', z3.If(c.own[s][k], c.val[s][k], c.dval[k]))
        if attr == 'sections' and not args:
            return SectionSet(c.snap())
        if attr == 'defaults' and not args:
            return DefaultsMap(c.snap())
        if attr == 'has_section' and len(args) == 1:
            return SV('bool', c.sec[sym.term(args[0])])
        if attr == 'add_section' and len(args) == 1:
            s = sym.term(args[0])
            if it.run.branch(c.sec[s], where=f'addsection-dup@{node.lineno}'):
                raise Raised(configparser.DuplicateSectionError('<section>'), node)
            c2 = c.snap()
            c2.sec = z3.Store(c.sec, s, z3.BoolVal(True))
            # a new section starts with no options of its own
            c2.own = z3.Store(c.own, s, z3.K(STR, z3.BoolVal(False)))
            it.ghost['cfg'] = c2
            return None
        if attr == 'set' and len(args) == 3:
            s, k = sym.term(args[0]), sym.term(args[1])
            if it.run.branch(z3.Not(c.sec[s]), where=f'cfgset-nosection@{node.lineno}'):
                raise Raised(configparser.NoSectionError('<section>'), node)
            if not (isinstance(args[2], SV) and args[2].kind == 'str') and not isinstance(args[2], str):
                raise Raised(TypeError('option values must be strings'), node)
            c2 = c.snap()
            c2.own = z3.Store(c.own, s, z3.Store(c.own[s], k, z3.BoolVal(True)))
            c2.val = z3.Store(c.val, s, z3.Store(c.val[s], k, sym.term(args[2])))
            it.ghost['cfg'] = c2
            it.ghost.setdefault('sets', []).append((s, k, sym.term(args[2])))
            return None
        raise Unsupported(f'config.{attr}')


def _state(inputs, it, extra=()):
    specs = ZMap.havoc(STR, OBJ, 'input_specs')
    me = AObj(inputs.InputStore, {'input_specs': specs, 'config': Opaque(fresh('config', OBJ), 'config')}, name='store')
    it.ghost['cfg'] = Cfg()
    it.ghost['cfg0'] = it.ghost['cfg'].snap()
    it.ghost['specs'] = specs
    return me, specs


def collect(prefix, fid, notes, native):
    obs = []
    for label, (ok, n, detail, undec) in notes.items():
        oid = f'{prefix}/{label}'
        if ok:
            obs.append(Ob(id=oid, backend='symexec+z3', function=fid, clause=label.replace('-', ' '), vc=f'{n} path(s) of the real method'))
        else:
            obs.append(Ob(id=oid, status=oblig.UNDECIDED if undec else oblig.REFUTED, backend='symexec+z3', function=fid, clause='NOT: ' + label.replace('-', ' '),
                          solver_output=detail, witness={'detail': detail}, replay=native() if not undec else None))
    return obs


class Notes(dict):
    def note(self, label, status, detail=''):
        """status: True / False / None (undecided)"""
        cur = self.setdefault(label, [True, 0, '', False])
        cur[1] += 1
        if status is True:
            return
        if cur[0] or (cur[3] and status is False):
            cur[0], cur[2], cur[3] = False, detail, status is None

    def must(self, label, hyp, goal, detail=''):
        st, model, be, secs, txt = smt.prove(hyp, goal, strings=True)
        self.note(label, True if st == 'discharged' else False if st == 'refuted' else None, f'{detail} [{txt}] {str({k: v for k, v in list((model or {}).items())[:12]})[:600]}')


def store_getitem(prefix='C11'):
    """The four outcomes of InputStore.__getitem__ with "supplied" specified over the file contents incl. [DEFAULT]."""
    from habutax import inputs
    spec = StoreSpec()
    fid = 'inputs.py:InputStore.__getitem__'

    def make_state(it):
        me, specs = _state(inputs, it)
        key = fresh('key', STR)
        it.ghost['key'] = key
        return [me, SV('str', key)], {}
    paths = corevc.run_function(inputs.InputStore.__getitem__, make_state, spec)
    N = Notes()
    outcomes = set()
    for p in paths:
        if p.outcome[0] == 'unsupported':
            rep = native_store()
            if rep.get('reproduced'):
                return [Ob(id=f'{prefix}/InputStore.__getitem__/subset', status=oblig.REFUTED, backend='native', function=fid, clause='NOT: the four outcomes of InputStore.__getitem__ on concrete stores (declared / supplied / valid, [DEFAULT], sibling instance)',
                           solver_output=f'outside the subset ({p.outcome[1]}); refuted by the native concrete cases', witness={k: v for k, v in rep.items() if k != 'reproduced'}, replay=rep)]
            return [Ob(id=f'{prefix}/InputStore.__getitem__/subset', status=oblig.UNDECIDED, function=fid, clause='NOT: inside the verified subset', solver_output=p.outcome[1])]
        it = p.interp
        key, specs, c = it.ghost['key'], it.ghost['specs'], it.ghost['cfg0']
        i = specs.val[key]
        s, k = section_of(i), base_of(i)
        hyp = p.conds + p.facts
        known, supplied, text = specs.has[key], c.supplied(s, k), c.text(s, k)
        if p.outcome[0] == 'raise':
            e = p.outcome[1]
            outcomes.add(type(e).__name__)
            if isinstance(e, inputs.MissingInputSpecification):
                N.must('unknown-spec-is-reported-as-missing-specification-only-when-unknown', hyp, z3.Not(known))
                N.note('unknown-spec-is-reported-as-missing-specification-only-when-unknown', sym.term(e.input_name).sexpr() == key.sexpr(), 'names another key')
            elif isinstance(e, inputs.MissingInput):
                N.must('reported-missing-only-when-declared-and-not-supplied', hyp, z3.And(known, z3.Not(supplied)),
                       'MissingInput although the file supplies the input (its own section or [DEFAULT])')
            elif isinstance(e, inputs.InvalidInput):
                N.must('reported-invalid-only-when-supplied-and-rejected-by-the-validator', hyp, z3.And(known, supplied, z3.Not(valid_fn(i, text))))
                N.must('reported-invalid-only-when-supplied-and-rejected-by-the-validator', hyp, sym.term(e.value) == text, 'reports another text')
            else:
                N.note('no-other-exception', False, repr(e))
        else:
            outcomes.add('return')
            r = p.outcome[1]
            N.must('a-value-is-returned-only-when-declared-supplied-and-valid', hyp, z3.And(known, supplied, valid_fn(i, text)))
            if isinstance(r, SV) and r.t.sort() == VALS:
                N.must('the-value-is-the-conversion-of-exactly-the-supplied-text', hyp, r.t == value_fn(i, text))
            else:
                N.note('the-value-is-the-conversion-of-exactly-the-supplied-text', False, f'returns {r!r}')
            calls = [cname for cname, _ in it.ghost.get('calls', [])]
            N.note('validated-before-converted', 'valid' in calls and 'value' in calls and calls.index('valid') < calls.index('value'), str(calls))
    N.note('all-four-outcomes-reachable', outcomes == {'MissingInputSpecification', 'MissingInput', 'InvalidInput', 'return'}, str(sorted(outcomes)))
    return collect(f'{prefix}/InputStore.__getitem__', fid, N, native_store)


def store_setitem(prefix='C11'):
    """InputStore.__setitem__: exact storage and frame (no other input changes)."""
    from habutax import inputs
    spec = StoreSpec()
    fid = 'inputs.py:InputStore.__setitem__'
    key, val = z3.String('key'), z3.String('typed_text')

    def make_state(it):
        me, specs = _state(inputs, it)
        return [me, SV('str', key), SV('str', val)], {}
    paths = corevc.run_function(inputs.InputStore.__setitem__, make_state, spec)
    N = Notes()
    nret = 0
    for p in paths:
        if p.outcome[0] == 'unsupported':
            return [Ob(id=f'{prefix}/InputStore.__setitem__/subset', status=oblig.UNDECIDED, function=fid, clause='NOT: inside the verified subset', solver_output=p.outcome[1])]
        it = p.interp
        specs, c0, c1 = it.ghost['specs'], it.ghost['cfg0'], it.ghost['cfg']
        i = specs.val[key]
        s, k = section_of(i), base_of(i)
        hyp = p.conds + p.facts
        if p.outcome[0] == 'raise':
            e = p.outcome[1]
            ok = isinstance(e, inputs.MissingInputSpecification)
            N.note('raises-only-for-an-undeclared-input', ok, repr(e))
            if ok:
                N.must('raises-only-for-an-undeclared-input', hyp, z3.Not(specs.has[key]))
                N.must('a-refused-store-changes-nothing', hyp, z3.And(c1.sec == c0.sec, c1.own == c0.own, c1.val == c0.val))
            continue
        nret += 1
        N.must('stores-exactly-the-text', hyp, z3.And(c1.supplied(s, k), c1.text(s, k) == val), 'the answer is not what the store then holds for that input')
        # frame: for every OTHER (section, name) pair, whether it is supplied and with what text is unchanged
        s2, k2 = z3.String('_s2'), z3.String('_k2')
        other = z3.Or(s2 != s, k2 != k)
        N.must('storing-an-answer-changes-no-other-input', hyp, z3.ForAll([s2, k2], z3.Implies(other, z3.And(
            c1.supplied(s2, k2) == c0.supplied(s2, k2),
            z3.Implies(c0.supplied(s2, k2), c1.text(s2, k2) == c0.text(s2, k2))))),
            'storing an answer makes another input of that section appear / change (a [DEFAULT] option becomes visible when the section is created)')
        N.must('defaults-untouched', hyp, z3.And(c1.dflt == c0.dflt, c1.dval == c0.dval))
    N.note('some-store-succeeds', nret > 0, 'vacuous')
    return collect(f'{prefix}/InputStore.__setitem__', fid, N, native_default_section)


def store_provides(prefix='C11'):
    """InputStore.provides(input) is exactly "the file supplies it"."""
    from habutax import inputs
    spec = StoreSpec()
    fid = 'inputs.py:InputStore.provides'

    def make_state(it):
        me, specs = _state(inputs, it)
        io = Opaque(fresh('input', OBJ), 'inputobj')
        it.ghost['i'] = io
        return [me, SV('obj', io.ref)], {}
    paths = corevc.run_function(inputs.InputStore.provides, make_state, spec)
    N = Notes()
    for p in paths:
        if p.outcome[0] == 'unsupported':
            return [Ob(id=f'{prefix}/InputStore.provides/subset', status=oblig.UNDECIDED, function=fid, clause='NOT: inside the verified subset', solver_output=p.outcome[1])]
        it = p.interp
        c = it.ghost['cfg0']
        i = it.ghost['i'].ref
        hyp = p.conds + p.facts
        if p.outcome[0] == 'raise':
            N.note('never-raises', False, repr(p.outcome[1]))
            continue
        r = p.outcome[1]
        rt = sym.term(r) if isinstance(r, SV) else z3.BoolVal(bool(r))
        N.must('true-exactly-when-the-file-supplies-the-input', hyp, rt == c.supplied(section_of(i), base_of(i)),
               'provides() differs from "the section or [DEFAULT] has the option"')
    return collect(f'{prefix}/InputStore.provides', fid, N, native_default_section)


# ------------------------------------------------------------------------------------------- native replays
def _toy():
    from habutax.inputs import IntegerInput
    from habutax.fields import IntegerField
    from habutax.form import Form

    class Toy(Form):
        form_name = 'toy'
        tax_year = 1
        description = 'toy'
        long_description = 'toy'

        def __init__(self, **kw):
            ins = [IntegerInput('wages'), IntegerInput('withheld')]
            req = [IntegerField('a', lambda s, i, v: i['withheld']), IntegerField('b', lambda s, i, v: i['wages'] - i['withheld'])]
            Form.__init__(self, type(self), ins, req, [], **kw)
    return Toy


def native_default_section():
    """A file whose [DEFAULT] section supplies an input: the input must be supplied from the start (never asked for, never reported
    missing), and storing an answer for another input must not change it."""
    import configparser
    from habutax.inputs import InputStore
    from habutax.solver import Solver
    cfg = configparser.ConfigParser()
    cfg.read_string('[DEFAULT]\nwithheld = 7\n')
    st = InputStore(cfg)
    asked = []

    def prompt(m, nb):
        asked.append(m.name())
        if m.name() == 'toy.wages':
            return ('100', True)
        return (None, False)
    s = Solver(st, [_toy()], prompt=prompt)
    try:
        res = s.solve(['toy'])
        unmet = s.unmet_input_dependencies()
        vals = dict(s._v.values)
    except BaseException as ex:
        return {'reproduced': True, 'raised': f'{type(ex).__name__}: {ex}'}
    bad = 'toy.withheld' in asked or 'toy.withheld' in unmet or res is not True or vals != {'toy.a': 7, 'toy.b': 93}
    return {'reproduced': bad, 'input_file': '[DEFAULT]\\nwithheld = 7', 'answers': {'toy.wages': '100'}, 'asked': asked, 'result': res, 'values': vals,
            'reported_as_needed_but_not_supplied': sorted(unmet)}


def native_sibling():
    """An input of an instance that is not declared (yet) is reported as a missing specification, even when another instance of
    the same form declares an input of that name - it is never read from the other instance."""
    import configparser
    from habutax import inputs

    class F(object):
        def __init__(self, n):
            self.n = n

        def name(self):
            return self.n
    cfg = configparser.ConfigParser()
    cfg.read_string('[f:0]\nx = 5\n[f:1]\nx = 9\n')
    i0 = inputs.IntegerInput('x')
    i0.__form_init__(F('f:0'))
    st = inputs.InputStore(cfg, {'f:0.x': i0})
    try:
        got = {'returned': repr(st['f:1.x'])}
    except BaseException as ex:
        got = {'raised': type(ex).__name__}
    return {'reproduced': got != {'raised': 'MissingInputSpecification'}, 'read_of_undeclared_f:1.x': got}


def native_store():
    from . import c11
    r = c11.native_store()
    d = native_default_section()
    sb = native_sibling()
    return {'reproduced': bool(r.get('reproduced') or d.get('reproduced') or sb.get('reproduced')), 'runs': r.get('runs'), 'default_section': d, 'sibling_instance': sb}


if __name__ == '__main__':
    import warnings
    warnings.simplefilter('ignore')
    from .. import extract
    extract.setup_path()
    for f in (store_provides, store_getitem, store_setitem):
        for o in f():
            print(o.status, o.id, (o.solver_output or '')[:300])
    print(native_default_section())
