"""Property modules over the shared solver units: which obligations belong to which property."""
import re
import time

from .. import base, oblig
from ..oblig import Ob, Task
from . import solver_units as su
from . import main_unit

TRUST = base.TRUSTED + ['contracts/core/solver.py', 'contracts/core/tracker.py', 'contracts/core/main.py']
ASSUME = base.assumptions('A-PY', 'A-BAG', 'A-GEN', 'A-PURE', 'A-PROMPT') + [
    'the line oracle: field.value(i, v) ends in exactly one of Ok / UnmetDependency(d not valued) / MissingInput(k declared, not provided) / MissingInputSpecification(k not declared) / FieldNotImplemented(own name) / another exception (what the verified contracts of FormAccessor / ValueStore / InputStore give for a pure sequential reader)',
    'A-FORM/A-CAT: constructing the catalogued class for a form name yields a form whose inputs, lines and required lines are a fixed function of that name, named "<form>.<base>", unique (C17)',
    'solve() precondition: requested form names are distinct and not loaded yet; field_names is the default []',
    'a value may be rewritten only by a re-evaluation of the same line (equal by stability of the oracle, A-PURE)']

# every property proved through solve()/_attempt_field() uses the callee contract of _add_form: its unit belongs to each of them
ALWAYS = ('no-internal-error', 'propagated-exception', 'subset', '_add_form/', '_add_form[input_only]/')
SELECT = {
    'C01': lambda l: True,
    'C03': lambda l: any(k in l for k in ('evaluated-against', 'stored-value-is', 'only-grow', 'never-removed', 'justified', 'met-fields-have-values', 'met-inputs-are-provided', 'announced-as-met', 'untouched')),
    'C04': lambda l: l.startswith('_add_form') or any(k in l for k in ('exactly-one-place', 'values-belong', 'unimplemented-lines-are', 'schedules-only', 'queues-only', 'demanded-line-is-scheduled', 'required-lines-of-loaded', 'loaded-forms', 'registered-lines', 'scheduled-lines-are-known', 'no-lost-line', 'success-means-every')),
    'C06': lambda l: any(k in l for k in ('retried-only-once', 'work', 'idle-means', 'waits-on-inputs', 'not-yet-drained', 'exactly-one-place', 'accounted-for', 'at-most-once', 'once-per-input', 'over-for-good', 'registered-one', 'values-belong', 'unimplemented-lines-are', 'stays-loaded', 'per-line-counters', 'prompt@', 'not-refused', 'remaining-keys', 'one-evaluation-per-attempt', 'justified', 'tracker-lists', 'no-answered-input', 'refusal-flag')),
    'C13': lambda l: any(k in l for k in ('prompt@', 'wait-on-input', 'input-waiters', 'no-answered-input', 'remaining-keys', 'prompted-keys', 'inputs-only-grow', 'answers-given', 'every-answer-given', 'met-inputs', 'inputs-untouched', 'not-refused')),
    'C20': lambda l: any(k in l for k in ('every-answer-given', 'answers-given', 'on-exception', 'inputs-only-grow', 'inputs-untouched', 'escaping-exception', 'input-map-only-grows')),
}
UNITS = {
    'C01': ['solve', 'solve[no-prompt]', '_attempt_field', '_add_form', '_add_form[input_only]'],
    'C03': ['solve', '_attempt_field', '_add_form', '_add_form[input_only]'],
    'C04': ['solve', '_attempt_field', '_add_form', '_add_form[input_only]'],
    'C06': ['solve', '_attempt_field', '_add_form', '_add_form[input_only]'],
    'C13': ['solve', '_attempt_field', '_add_form', '_add_form[input_only]'],
    'C20': ['solve', '_attempt_field', '_add_form', '_add_form[input_only]'],
}
MAINTAG = {'C01': 'C01', 'C20': 'C20', 'C14': 'C14', 'C05': 'C05'}


# The line oracle's input outcomes (MissingInput iff declared and absent, InvalidInput iff supplied and rejected, a value only when
# supplied and valid) are the contract of InputStore.__getitem__: its unit is part of every property proved through the oracle.
ORACLE_USERS = ('C01', 'C03', 'C13', 'C20')


def oracle_store_unit(prop):
    from . import store_units
    out = []
    for o in store_units.store_getitem() + store_units.store_provides() + store_units.store_setitem():
        o.id = o.id.replace('C11/', f'{prop}/oracle/')
        out.append(o)
    return out


# A-PROMPT (the prompt callback returns an answer or raises, and leaves the list of waiting lines it is shown alone) is an
# assumption about arbitrary callbacks; for the callback habutax itself ships (habutax.prompt_input) it is proved: its unit is part of
# every property whose solver obligations rest on A-PROMPT.
PROMPT_USERS = ('C01', 'C06', 'C13', 'C20')


def prompt_callback_unit(prop):
    from . import c11
    out = []
    for o in c11.prompt_unit():
        o.id = o.id.replace('C11/', f'{prop}/callback/')
        out.append(o)
    return out


def unit_runner(name):
    if name == 'solve':
        return su.unit_solve(True)[0]
    if name == 'solve[no-prompt]':
        return su.unit_solve(False)[0]
    if name == '_attempt_field':
        return su.unit_attempt_field(True)[0]
    if name == '_add_form':
        return su.unit_add_form(False)[0]
    if name == '_add_form[input_only]':
        return su.unit_add_form(True)[0]
    if name == 'main':
        return main_unit.unit_main()
    raise KeyError(name)


def gather(prop, tier, seed, extra_tasks=()):
    units = list(UNITS[prop])
    tasks = [Task(f'unit/{u}', unit_runner, u, weight=10 if u.startswith('solve') else 1) for u in units]
    if prop in MAINTAG:
        tasks.append(Task('unit/main', unit_runner, 'main', weight=2))
    tasks += list(extra_tasks)
    if prop in ORACLE_USERS:
        tasks.append(Task('oracle/InputStore', oracle_store_unit, prop))
    if prop in PROMPT_USERS:
        tasks.append(Task('callback/prompt_input', prompt_callback_unit, prop))
    obs = oblig.run_tasks(tasks, jobs=4)
    sel = SELECT[prop]
    solver_obs = [o for o in obs if o.id.startswith('SOLVER/') and (sel(o.id.split('/', 1)[1]) or any(k in o.id for k in ALWAYS))]
    main_obs = []
    for o in obs:
        if o.id.startswith('MAIN/') and o.note == prop:
            o2 = Ob(**{**o.__dict__})
            o2.id = o.id.replace('MAIN/', f'{prop}/main/')
            if o2.status == oblig.REFUTED:
                o2.replay = {'reproduced': False, 'note': 'event log of the symbolic run of the real habutax.solve; see witness'}
            main_obs.append(o2)
    other = [o for o in obs if not o.id.startswith(('SOLVER/', 'MAIN/'))]
    small = []
    if prop in ('C01', 'C03', 'C04', 'C06', 'C13', 'C20'):
        from . import small_units
        for o in small_units.all_small():
            if prop in o.note.split(','):
                o.id = o.id.replace('SMALL/', f'{prop}/small/')
                small.append(o)
    for o in solver_obs:
        o.id = o.id.replace('SOLVER/', f'{prop}/solver/')
    solver_obs = oblig.apply_baseline(prop, solver_obs + small + main_obs + other)
    out = su.finish_with_refutation(prop, solver_obs, lambda o: True, seed, tier)
    return out
