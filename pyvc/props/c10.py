"""C10 - every name a form definition can refer to resolves (linevc, all paths)."""
import time

import z3

from .. import base, extract, linevc, oblig, replay, sym
from ..oblig import Ob, Task

BAD = ('UnresolvedReference', 'AttributeError', 'NameError', 'AssertionError', 'KeyError', 'IndexError',
       'RecursionError', 'UnboundLocalError')
OTHER = ('TypeError', 'ZeroDivisionError', 'ValueError')


def absent_forms():
    import importlib.util, os
    spec = importlib.util.spec_from_file_location('absent_forms', os.path.join(oblig.VERIF, 'contracts', 'absent_forms.py'))
    m = importlib.util.module_from_spec(spec)
    spec.loader.exec_module(m)
    return m.ABSENT


def site_of(exc):
    if isinstance(exc, linevc.UnresolvedReference):
        return f'unresolved-{exc.what.replace(" ", "-")}:{exc.refname}'
    msg = str(exc)
    import re
    m = re.search(r"no attribute '([^']+)'", msg)
    if m:
        return f'{type(exc).__name__}:{m.group(1)}'
    m = re.search(r'No threshold named', msg)
    if m:
        return f'{type(exc).__name__}:threshold-name'
    if 'symbolic index outside the container' in msg:
        return f'{type(exc).__name__}:index-outside-container'
    return f'{type(exc).__name__}:' + re.sub(r'[^A-Za-z0-9_.-]+', '_', msg[:40])


def check_form(year, form_name):
    cat = linevc.Cat.get(year)
    form = cat.forms[form_name]
    absent = absent_forms()
    obs = []
    for fld in form.fields():
        fn = extract.line_function(fld)
        t0 = time.time()
        lname = fld.name()
        fid = f'{fn.__code__.co_filename.split("habutax/")[-1]}:{fn.__code__.co_firstlineno}'
        try:
            paths = linevc.explore_line(year, fld)
        except Exception as e:
            import traceback
            obs.append(Ob(id=f'C10/{year}/{lname}/resolves', status=oblig.ERROR, function=fid,
                          solver_output=traceback.format_exc()[-2000:]))
            continue
        bad_sites = {}
        extra_cond = {}
        info = []
        unsupported = []
        for p in paths:
            kind = p.outcome[0]
            if kind == 'unsupported':
                unsupported.append(p.outcome[1])
                continue
            problems = []
            if kind == 'raise':
                exc = p.outcome[1]
                en = type(exc).__name__
                if isinstance(exc, linevc.FormNotSupported):
                    fname = str(exc).split()[1]
                    if fname not in absent:
                        problems.append((f'form-not-in-absent-list:{fname}', f'reference to form {fname!r} which is neither catalogued nor in the frozen deliberately-absent list'))
                elif en in BAD:
                    problems.append((site_of(exc), f'path ends in {en}: {str(exc)[:200]}'))
                elif en in OTHER:
                    info.append(f'{en}: {str(exc)[:100]}')
            for note in p.notes:
                if note[0] == 'cross-enum-compare':
                    problems.append((f'cross-enum:{note[2]}-vs-{note[3]}@{note[1]}'.replace(' ', '_'),
                                     f'comparison at line {note[1]} between members of different enumeration classes ({note[2]} vs {note[3]}) is constantly False'))
                if note[0] == 'form-call' and not note[3]:
                    problems.append((f'form-call:{note[2]}', f's.form({note[2]!r}) at line {note[1]} without an earlier read of a line of that form on the path: KeyError in solver.forms unless the form happens to be loaded'))
            for site, text in problems:
                bad_sites.setdefault(site, []).append((p, text))
        dt = time.time() - t0
        if unsupported:
            obs.append(Ob(id=f'C10/{year}/{lname}/resolves', status=oblig.UNDECIDED, function=fid, time_s=dt,
                          clause='every path of the line resolves all references',
                          solver_output='outside the subset: ' + '; '.join(sorted(set(unsupported)))[:300]))
            continue
        if not bad_sites:
            obs.append(Ob(id=f'C10/{year}/{lname}/resolves', status=oblig.DISCHARGED, backend='symexec+z3', function=fid, time_s=dt,
                          clause=f'on each of the {len(paths)} feasible paths every input, line, form, threshold, enum member, attribute and helper resolves '
                                 f'(or names a deliberately absent form); no path ends in {"/".join(BAD[:5])}',
                          vc=f'paths={len(paths)}; outcomes={sorted(set(p.outcome[0] if p.outcome[0] != "raise" else type(p.outcome[1]).__name__ for p in paths))}',
                          note='; '.join(sorted(set(info)))[:300]))
            continue
        # a recorded finding covers a class of failing inputs; failing paths of the same line and kind that are feasible outside that
        # class are a different violation and get their own obligation
        for site, plist in list(bad_sites.items()):
            cond = recorded_condition(year, lname, site)
            if cond is None:
                continue
            outside = []
            for p, text in plist:
                model, status = replay.solve_model(p, extra=[z3.Not(cond)])
                if model is not None:
                    outside.append((p, text + ' [outside the recorded input class]', model))
            if outside:
                bad_sites[site + '/outside-recorded-input-class'] = [(p, t) for p, t, _ in outside]
                extra_cond[site + '/outside-recorded-input-class'] = z3.Not(cond)
        for site, plist in bad_sites.items():
            # decide feasibility of one witness path with the back end and replay it
            st, wit, rep, out, vc = 'undecided', None, None, '', ''
            for p, text in plist:
                model, status = replay.solve_model(p, extra=[extra_cond[site]] if site in extra_cond else ())
                out = status
                vc = ' AND '.join(str(c)[:200] for c in p.conds[-6:])
                if model is not None:
                    inputs, values = replay.concretise(model, year)
                    rep = replay.replay_line(year, lname, inputs, values)
                    bad = rep.get('outcome') == 'raise' and rep.get('exc') not in ('FieldNotImplemented',)
                    rep['reproduced'] = bool(bad) or site.startswith('cross-enum') or site.startswith('form-call')
                    if site.startswith('cross-enum') or site.startswith('form-call'):
                        rep['note'] = 'static finding on a feasible path; the native run shows the path executes'
                    wit = {'inputs': {k: repr(v) for k, v in inputs.items()}, 'values': {k: repr(v) for k, v in values.items()}, 'path': p.sig()}
                    st = 'refuted'
                    break
                if status == 'unsat':
                    st = 'discharged'
            if st == 'discharged':
                continue
            obs.append(Ob(id=f'C10/{year}/{lname}/{site}', status=oblig.REFUTED if st == 'refuted' else oblig.UNDECIDED,
                          backend='symexec+z3', function=fid, time_s=dt, clause=plist[0][1], vc=vc, solver_output=out,
                          witness=wit, replay=rep,
                          replay_spec={'kind': 'line', 'year': year, 'line': lname, 'inputs': wit['inputs'] if wit else {}, 'values': wit['values'] if wit else {}}))
        if all(o.id.split('/')[2] != lname or o.status != oblig.REFUTED for o in obs):
            pass
    return obs


_FINDINGS = None


def recorded_condition(year, lname, site):
    """z3 condition of the known finding recorded for this obligation id, if it names an input class."""
    global _FINDINGS
    if _FINDINGS is None:
        _FINDINGS = oblig.load_findings().get('findings', [])
    oid = f'C10/{year}/{lname}/{site}'
    for f in _FINDINGS:
        if f.get('property') == 'C10' and f.get('obligation') == oid and f.get('condition'):
            c = f['condition']
            t = linevc.read_symbol(c.get('acc', 'i'), c['symbol'], c.get('kind', 'int'), None)
            v = c['value']
            return {'<': t < v, '<=': t <= v, '>': t > v, '>=': t >= v, '==': t == v, '!=': t != v}[c['op']]
    return None


SOLVER_LABELS = ('internal-assertion', 'abort-only', 'no-internal-error', 'propagated-exception', 'retried-only-once', 'subset')


def solver_side(tier, seed):
    """Mechanisms 2 and 3 of the property (solver.py): an unknown input name loads the named form's inputs and retries, an unknown
    line name adds the named form and asserts the line now exists.  Obligations of the real _attempt_field / _add_form:
    the assertion fires only for a line no form declares, the abort only for an absent form or undeclared input."""
    from . import solver_props as sp
    from . import solver_units as su
    obs = []
    for u in ('_attempt_field', '_add_form', '_add_form[input_only]'):
        for o in sp.unit_runner(u):
            label = o.id.split('/', 1)[1]
            if label.startswith('_add_form') or any(k in label for k in SOLVER_LABELS):
                obs.append(o)
    return su.finish_with_refutation('C10', obs, lambda o: True, seed, tier)


def run(tier, seed, t0):
    tasks = []
    functions = set()
    for year in extract.YEARS:
        cat = linevc.Cat.get(year)
        for e in cat.errors:
            pass
        for fname, form in cat.forms.items():
            tasks.append(Task(f'C10/{year}/{fname}', check_form, year, fname, weight=len(form.fields())))
            for fld in form.fields():
                fn = extract.line_function(fld)
                functions.add(f'{fn.__code__.co_filename.split("habutax/")[-1]}:{fn.__code__.co_firstlineno}')
    tasks.append(Task('C10/solver', solver_side, tier, seed, weight=30))
    obs = oblig.run_tasks(tasks)
    return oblig.finish('C10', tier, seed, obs, t0, functions=[f'{len(functions)} line functions (all lines of all forms, 2021-2023)', 'solver.py:Solver._attempt_field', 'solver.py:Solver._add_form', 'solver.py:Solver._add_input_spec'] + sorted(functions)[:40],
                        trusted_base=base.TRUSTED,
                        assumptions=base.assumptions('A-PY', 'A-READ', 'A-SIGMA', 'A-BUILTIN', 'A-ENUM') + [
                            'frozen deliberately-absent form list contracts/absent_forms.py',
                            'numbered input forms (w-2, 1098, 1099-*) accept every non-negative instance number',
                            'solver side: contracts/core/solver.py (line oracle, A-CAT catalogue predicates); unbounded recursion through the retry after loading an input declaration is excluded by the strictly growing input map only for a finite catalogue'],
                        checker_cmd='./check C10', min_obligations=1500)
