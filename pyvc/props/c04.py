"""C04 - solver-level obligations (see solver_props.SELECT and contracts/core/solver.py)."""
from .. import base, oblig
from . import solver_props as sp

FUNCS = ['solver.py:Solver.solve', 'solver.py:Solver._attempt_field', 'solver.py:Solver._attempt_input', 'solver.py:Solver._add_form', 'solver.py:Solver._add_input_spec',
         'solver.py:Solver._add_unattempted', 'solver.py:DependencyTracker.add_unmet/meet/has_met/has_unmet/unmet_dependencies/unmet_dependents (inlined)',
         'solver.py:DependencyTracker.met_dependents (by its verified contract)', 'values.py:ValueStore.__setitem__', 'values.py:ValueStore.to_config', '__init__.py:solve']


def solution_unit():
    """The solution handed back is ValueStore.to_config(field_map): exactly the stored lines, each as its own text - none dropped,
    none added (the unit of C14, which the statement about "the solution" rests on)."""
    from . import c14
    out = []
    for o in c14.to_config_unit():
        o.id = o.id.replace('C14/', 'C04/solution/')
        out.append(o)
    return out


def extra_tasks(tier, seed):
    from ..oblig import Task
    return [Task('solution', solution_unit)]


def run(tier, seed, t0):
    obs = sp.gather('C04', tier, seed, extra_tasks(tier, seed))
    return oblig.finish('C04', tier, seed, obs, t0, functions=FUNCS, trusted_base=sp.TRUST, assumptions=sp.ASSUME, checker_cmd='./check C04', min_obligations=15)
