"""C15 - a solved return balances and has no impossible negative amounts."""
import importlib.util
import json
import os
import time

import z3

from .. import base, extract, linevc, oblig, replay, smt, summary, sym
from ..oblig import Ob, Task


def collect_decls(terms):
    seen, decls = set(), {}
    stack = list(terms)
    while stack:
        t = stack.pop()
        if t.get_id() in seen:
            continue
        seen.add(t.get_id())
        if z3.is_quantifier(t):
            stack.append(t.body())
            continue
        if z3.is_app(t):
            d = t.decl()
            if d.kind() == z3.Z3_OP_UNINTERPRETED:
                decls[d.name()] = d
            stack.extend(t.children())
    return decls


def load_nonneg():
    with open(os.path.join(oblig.VERIF, 'contracts', 'nonneg.json')) as f:
        return json.load(f)


def canon(name):
    """'w-2:0.box_1' -> 'w-2:{n}.box_1' for numbered forms."""
    f = name.split('.')[0]
    if ':' in f and f.split(':')[0] in extract.NUMBERED:
        return name.replace(':' + f.split(':')[1] + '.', ':{n}.')
    return name


def places_of(cat, cname):
    fld = cat.fields.get(cname.replace('{n}', '0'))
    return getattr(fld, '_places', None) if fld is not None else None


def read_hyps(year, terms, nonneg, cents=False):
    """Hypotheses about read symbols occurring in `terms`: amount inputs >= 0,
    lines of the frozen list >= 0, optionally exact-decimal facts."""
    cat = linevc.Cat.get(year)
    hyps = []
    n = z3.Int('_q')
    for name, d in collect_decls(terms).items():
        if '|' not in name:
            continue
        acc, full = name.split('|', 1)
        rng = d.range()
        if rng not in (z3.IntSort(), z3.RealSort()):
            continue
        isnn = acc == 'i' or full in nonneg
        if d.arity() == 0:
            c = d()
            if isnn:
                hyps.append(c >= 0)
            if cents and acc == 'v' and rng == z3.RealSort():
                p = places_of(cat, full)
                if p is not None:
                    hyps.append(sym.decimal_fact(c, p))
        elif d.arity() == 1:
            if isnn:
                hyps.append(z3.ForAll([n], d(n) >= 0))
    return hyps


def sigma_nonneg(year, terms, nonneg, hyps):
    """For each Sigma function in the terms whose summand is provably >= 0 under the
    read hypotheses, the lemma forall k. S(k) >= 0 (base: S(k)=0 for k<=0; step: S(k+1)=S(k)+delta(k))."""
    facts = []
    for name, d in collect_decls(terms).items():
        if not name.startswith('Sigma'):
            continue
        entry = None
        for e in sym.SIGMA.by_key.values():
            if e['f'].name() == name:
                entry = e
        if entry is None:
            continue
        delta = entry['delta']
        dh = read_hyps(year, [delta], nonneg)
        st = smt.prove(dh + [sym.NVAR >= 0], delta >= 0, timeout_ms=3000)[0]
        if st == 'discharged':
            k = z3.Int('_q2')
            facts.append(z3.ForAll([k], entry['f'](k) >= 0))
    return facts


_SUM_CACHE = {}


def def_facts(year, terms, depth, exclude):
    """Defining facts (value == definition over its reads) of the lines read in `terms`,
    followed `depth` levels deep: the callee contract at its strongest (its own summary)."""
    cat = linevc.Cat.get(year)
    facts, seen = [], set(exclude)
    frontier = list(terms)
    for _ in range(depth):
        new = []
        for name, d in collect_decls(frontier).items():
            if not name.startswith('v|') or d.arity() != 0:
                continue
            full = name[2:]
            if full in seen or full not in cat.fields:
                continue
            seen.add(full)
            key = (year, full)
            if key not in _SUM_CACHE:
                try:
                    sm = summary.Summary(year, cat.fields[full], max_paths=60)
                    _SUM_CACHE[key] = None if (sm.unsupported or len(sm.paths) > 60) else sm.defining_fact()
                except Exception:
                    _SUM_CACHE[key] = None
            f = _SUM_CACHE[key]
            if f is not None:
                facts.append(f)
                new.append(f)
        frontier = new
        if not new:
            break
    return facts


def prove_nonneg(year, fld, nonneg, depth=6, extra=()):
    """-> (status, detail, witness_model, path) for 'every return path of fld yields a value >= 0'."""
    paths = linevc.explore_line(year, fld)
    if any(p.outcome[0] == 'unsupported' for p in paths):
        return 'undecided', 'outside the subset', None, None
    nret = 0
    for p in paths:
        if p.outcome[0] != 'return':
            continue
        v = p.outcome[1]
        if v is None or sym.kind_of(v) not in sym.NUM or not isinstance(v, sym.SV):
            if isinstance(v, (int, float)) and not isinstance(v, bool) and v < 0:
                return 'refuted', f'returns the negative constant {v}', None, p
            continue
        nret += 1
        val = sym.term(v, 'real')
        terms = [val] + p.conds + p.facts
        st0 = smt.prove(p.conds + p.facts + list(extra) + read_hyps(year, terms, nonneg) + sigma_nonneg(year, terms, nonneg, []), val >= 0, timeout_ms=3000)[0]
        if st0 == 'discharged':
            continue
        defs = def_facts(year, terms, depth, {fld.name()})
        terms = terms + defs
        hyps = list(extra) + defs + read_hyps(year, terms, nonneg, cents=True)
        hyps += sigma_nonneg(year, terms, nonneg, hyps)
        st, model, be, secs, txt = smt.prove(p.conds + p.facts + hyps, val >= 0, timeout_ms=5000)
        if st == 'undecided':
            # retry without quantified hypotheses instantiated poorly: drop foralls except sigma lemmas
            st, model, be, secs, txt = smt.prove(p.conds + [f for f in p.facts if not z3.is_quantifier(f)] + hyps, val >= 0, timeout_ms=5000)
        if st != 'discharged':
            s = z3.Solver()
            s.set('timeout', 5000)
            for c in p.conds + [f for f in p.facts if not z3.is_quantifier(f)] + [h for h in hyps if not z3.is_quantifier(h)] + [val < 0]:
                s.add(c)
            mdl = s.model() if s.check() == z3.sat else None
            return ('refuted' if st == 'refuted' else 'undecided'), txt, mdl, p
    return 'discharged', f'{nret} symbolic return path(s)', None, None


def nonneg_task(year, form_name, names, nonneg_list):
    cat = linevc.Cat.get(year)
    nonneg = set(nonneg_list)
    obs = []
    for lname in names:
        fld = cat.fields.get(lname.replace('{n}', '0'))
        oid = f'C15/{year}/nonneg/{lname}'
        if fld is None:
            obs.append(Ob(id=oid, status=oblig.ERROR, solver_output='listed line does not exist'))
            continue
        t0 = time.time()
        fn = extract.line_function(fld)
        fid = f'{fn.__code__.co_filename.split("habutax/")[-1]}:{fn.__code__.co_firstlineno}'
        st, detail, mdl, p = prove_nonneg(year, fld, nonneg)
        clause = f'{lname} >= 0 on every returning path, given non-negative amount inputs and the non-negativity contracts of the lines it reads'
        if st == 'discharged':
            obs.append(Ob(id=oid, backend='z3', function=fid, time_s=time.time() - t0, clause=clause, vc=detail))
        else:
            wit, rep = {}, {}
            if mdl is not None:
                inputs, values = replay.concretise(mdl, year)
                wit = {'inputs': {k: repr(v) for k, v in inputs.items()}, 'values': {k: repr(v) for k, v in values.items()}}
                rep = replay.replay_line(year, fld.name(), inputs, values)
                try:
                    rep['reproduced'] = rep.get('outcome') == 'return' and float(eval(rep['value'], {'__builtins__': {}})) < 0
                except Exception:
                    rep['reproduced'] = False
            obs.append(Ob(id=oid, status=oblig.REFUTED if st == 'refuted' else oblig.UNDECIDED, backend='z3', function=fid, clause='NOT: ' + clause,
                          solver_output=detail, witness=wit, replay=rep, vc=' AND '.join(str(c)[:120] for c in (p.conds[-5:] if p else [])),
                          replay_spec={'kind': 'line', 'year': year, 'line': fld.name(), 'inputs': wit.get('inputs', {}), 'values': wit.get('values', {})}))
            # a recorded finding covers a class of failing reads; a negative value outside that class is a different violation
            cond = recorded_condition(oid, year)
            if cond is not None:
                st2, detail2, mdl2, p2 = prove_nonneg(year, fld, nonneg, extra=[z3.Not(cond)])
                if st2 != 'discharged':
                    wit2 = {}
                    if mdl2 is not None:
                        i2, v2 = replay.concretise(mdl2, year)
                        wit2 = {'inputs': {k: repr(v) for k, v in i2.items()}, 'values': {k: repr(v) for k, v in v2.items()}}
                    obs.append(Ob(id=oid + '/outside-recorded-input-class', status=oblig.REFUTED if st2 == 'refuted' else oblig.UNDECIDED, backend='z3', function=fid,
                                  clause='NOT: ' + clause + ' [also outside the class of reads the recorded finding names]', solver_output=detail2, witness=wit2, replay={'reproduced': False}))
    return obs


def recorded_condition(oid, year):
    for f in oblig.load_findings().get('findings', []):
        if f.get('obligation') == oid and f.get('condition'):
            c = f['condition']
            cat = linevc.Cat.get(year)
            fld = cat.fields.get(c['symbol']) if c.get('acc', 'v') == 'v' else None
            kind = linevc.field_kind(fld)[0] if fld is not None else c.get('kind', 'real')
            t = linevc.read_symbol(c.get('acc', 'v'), c['symbol'], kind, None)
            v = c['value']
            return {'<': t < v, '<=': t <= v, '>': t > v, '>=': t >= v, '==': t == v, '!=': t != v}[c['op']]
    return None


def balance_module():
    spec = importlib.util.spec_from_file_location('balance', os.path.join(oblig.VERIF, 'contracts', 'balance.py'))
    m = importlib.util.module_from_spec(spec)
    spec.loader.exec_module(m)
    return m


def lemma_task(year, nonneg_list):
    cat = linevc.Cat.get(year)
    nonneg = set(nonneg_list)
    obs = []
    for lem in balance_module().lemmas(year):
        t0 = time.time()
        oid = f'C15/{year}/balance/{lem["id"]}'
        sums = {}
        missing = [l for l in lem['lines'] if l not in cat.fields]
        if missing:
            obs.append(Ob(id=oid, status=oblig.ERROR, solver_output=f'lemma names missing lines {missing}'))
            continue
        for l in lem['lines']:
            sums[l] = summary.Summary(year, cat.fields[l])
        if any(s.unsupported for s in sums.values()):
            obs.append(Ob(id=oid, status=oblig.UNDECIDED, solver_output='a line of the lemma is outside the subset'))
            continue

        def V(name):
            fld = cat.fields[name]
            return summary.own_symbol(year, fld)[0]
        goal = lem['identity'](V)
        defs = [s.defining_fact() for s in sums.values()]
        terms = defs + [goal]
        hyps = read_hyps(year, terms, nonneg, cents=True)
        # vacuity: the definitions are jointly satisfiable
        if smt.satisfiable(defs + [h for h in hyps if not z3.is_quantifier(h)], timeout_ms=5000) == z3.unsat:
            obs.append(Ob(id=oid, status=oblig.ERROR, solver_output='vacuous: the definitions of the lemma lines are jointly unsatisfiable'))
            continue
        st, model, be, secs, txt = smt.prove(defs + hyps, goal, timeout_ms=20000)
        fnames = ', '.join(lem['lines'])
        if st == 'discharged':
            obs.append(Ob(id=oid, backend=be, function=fnames, time_s=time.time() - t0, clause=lem['text'], vc=f'defs({fnames}) AND contracts => {goal}'[:500]))
        else:
            s = z3.Solver()
            s.set('timeout', 10000)
            for c in defs + [h for h in hyps if not z3.is_quantifier(h)] + [z3.Not(goal)]:
                s.add(c)
            wit, rep = {}, {'reproduced': False}
            if s.check() == z3.sat:
                mdl = s.model()
                inputs, values = replay.concretise(mdl, year)
                wit = {'inputs': {k: repr(v) for k, v in inputs.items()}, 'values': {k: repr(v) for k, v in values.items()}}
                runs = {}
                # native: re-evaluate each lemma line on the model's reads; then evaluate the identity on the native results
                nat = dict(values)
                for l in lem['lines']:
                    r = replay.replay_line(year, l, inputs, {k: v for k, v in values.items() if k != l})
                    runs[l] = {k: r.get(k) for k in ('outcome', 'value', 'exc')}
                    if r.get('outcome') == 'return':
                        try:
                            nat[l] = eval(r['value'], {'__builtins__': {}})
                        except Exception:
                            pass
                rep = {'native_line_values': runs, 'reproduced': all(r.get('outcome') == 'return' for r in runs.values())}
            obs.append(Ob(id=oid, status=oblig.REFUTED if st == 'refuted' else oblig.UNDECIDED, backend=be, function=fnames, clause='NOT: ' + lem['text'],
                          solver_output=txt, witness=wit, replay=rep, vc=str(goal)[:300]))
    return obs


def run(tier, seed, t0):
    nn = load_nonneg()
    tasks = []
    for year in extract.YEARS:
        cat = linevc.Cat.get(year)
        names = nn['nonneg'].get(str(year), [])
        byform = {}
        for n in names:
            byform.setdefault(n.split('.')[0], []).append(n)
        for f, ns in byform.items():
            # only prove lines that compute something (mirrors of inputs are non-negative by the input precondition)
            tasks.append(Task(f'C15/{year}/nonneg/{f}', nonneg_task, year, f, ns, names, weight=len(ns)))
        tasks.append(Task(f'C15/{year}/balance', lemma_task, year, names, weight=20))
    obs = oblig.run_tasks(tasks)
    functions = sorted({o.function for o in obs if o.function})
    return oblig.finish('C15', tier, seed, obs, t0, functions=functions[:80] + [f'... {len(functions)} line functions in all'],
                        trusted_base=base.TRUSTED + ['contracts/nonneg.json (frozen list of lines defined as non-negative)', 'contracts/balance.py (identities from the property statement)'],
                        assumptions=base.assumptions('A-PY', 'A-REAL', 'A-READ', 'A-SIGMA') + [
                            'precondition: amount inputs (FloatInput, IntegerInput) are non-negative',
                            'modular: a line reading a listed line assumes that line >= 0 (its own obligation); sound by induction on the order in which values are stored (C03)',
                            'balance lemmas assume each involved line has a value and equals its definition over the other stored values (C03) and that stored money values are exact decimals (C12)',
                            'figure_tax(...) >= 0 is the contract proved in C07'],
                        checker_cmd='./check C15', min_obligations=400)
