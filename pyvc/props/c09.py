"""C09 - declaring an unsupported situation never yields a solved return.

Gate table: contracts/gates.json (seeded once from the tree by tools/seed_gates.py,
reviewed against each input's description, then frozen).  For a gate g with
affirmative polarity: every path of every line that reads g with the affirmative
value ends in FieldNotImplemented, or a companion line K exists such that every
path of K compatible with g affirmative raises NI and K is demanded whenever the
reading line is (K is a required line of the same form, or listed in the frozen
companion table with the reason it is always demanded).  C01 then turns "a
demanded line is NI" into "not solved".
"""
import json
import os
import time

import z3

from .. import base, extract, linevc, oblig, replay, smt, sym
from ..oblig import Ob, Task


def load_gates():
    with open(os.path.join(oblig.VERIF, 'contracts', 'gates.json')) as f:
        return json.load(f)


def is_ni(p):
    return p.outcome[0] == 'raise' and type(p.outcome[1]).__name__ == 'FieldNotImplemented'


def scan_form(year, form_name, gates):
    """-> per gate: lines that are strong-NI, and leaks (line, path witness)."""
    cat = linevc.Cat.get(year)
    form = cat.forms[form_name]
    gset = {(g['input'], g['polarity']) for g in gates}
    only = {(g['input'], g['polarity']): set(g['readers']) for g in gates if g.get('readers')}     # gate only where these lines consult it
    conditional = {(g['input'], g['polarity']) for g in gates if g.get('conditional')}
    res = {'form': form_name, 'ni': {}, 'leaks': [], 'bool_inputs_read': set(), 'errors': []}
    required = {f.name() for f in form.required_fields()}
    for fld in form.fields():
        try:
            paths = linevc.explore_line(year, fld)
        except Exception as e:
            res['errors'].append((fld.name(), repr(e)))
            continue
        if any(p.outcome[0] == 'unsupported' for p in paths):
            res['errors'].append((fld.name(), 'outside the subset'))
            continue
        syms = {}
        rets = [p for p in paths if p.outcome[0] == 'return']
        must = None
        for p in rets:
            rs = {sh for acc, sh, _ in getattr(p, 'readlog', []) if acc == 'v'}
            must = rs if must is None else (must & rs)
        res.setdefault('mustread', {})[fld.name()] = sorted(must or [])
        res.setdefault('anyread', {})[fld.name()] = sorted({sh for p in paths for acc, sh, _ in getattr(p, 'readlog', []) if acc == 'v'})
        for p in paths:
            for acc, shown, t in getattr(p, 'readlog', []):
                if acc == 'i' and z3.is_bool(t) and z3.is_const(t):
                    syms[shown] = t
                    res['bool_inputs_read'].add(shown)
        for name, t in syms.items():
            for pol in (True, False):
                if (name, pol) not in gset:
                    continue
                if (name, pol) in only and fld.name() not in only[(name, pol)]:
                    continue
                lit = t if pol else z3.Not(t)
                if (name, pol) in conditional:
                    # conditional gate: only the paths that actually consult the input with that answer count
                    def consults(p):
                        hyp = p.conds + [f for f in p.facts if not z3.is_quantifier(f)]
                        return any(sh == name for acc, sh, _ in getattr(p, 'readlog', []) if acc == 'i') and \
                            smt.satisfiable(hyp + [lit]) == z3.sat and smt.satisfiable(hyp + [z3.Not(lit)]) != z3.sat
                    cons = [p for p in paths if consults(p)]
                    if cons and all(is_ni(p) for p in cons):
                        res.setdefault('cni', {}).setdefault(f'{name}={pol}', []).append((fld.name(), fld.name() in required))
                    for p in cons:
                        if not is_ni(p):
                            model, st = replay.solve_model(p, extra=[lit])
                            wit = None
                            if model is not None:
                                inputs, values = replay.concretise(model, year)
                                wit = {'inputs': {k: repr(v) for k, v in inputs.items()}, 'values': {k: repr(v) for k, v in values.items()}}
                            res['leaks'].append({'gate': f'{name}={pol}', 'line': fld.name(), 'required': fld.name() in required, 'outcome': str(p.outcome)[:100], 'witness': wit, 'path': p.sig()})
                            break
                    continue
                feas = [p for p in paths if smt.satisfiable(p.conds + [f for f in p.facts if not z3.is_quantifier(f)] + [lit]) == z3.sat]
                if feas and all(is_ni(p) for p in feas):
                    res['ni'].setdefault(f'{name}={pol}', []).append((fld.name(), fld.name() in required))
                    continue
                for p in feas:
                    reads_g = any(sh == name for acc, sh, _ in getattr(p, 'readlog', []) if acc == 'i')
                    if reads_g and not is_ni(p):
                        model, st = replay.solve_model(p, extra=[lit])
                        wit = None
                        if model is not None:
                            inputs, values = replay.concretise(model, year)
                            wit = {'inputs': {k: repr(v) for k, v in inputs.items()}, 'values': {k: repr(v) for k, v in values.items()}}
                        res['leaks'].append({'gate': f'{name}={pol}', 'line': fld.name(), 'required': fld.name() in required,
                                             'outcome': str(p.outcome)[:100], 'witness': wit, 'path': p.sig()})
                        break
    res['bool_inputs_read'] = sorted(res['bool_inputs_read'])
    return [res]


def amount_gates(year):
    import importlib.util
    from .c08 import find_symbol, rv
    from .c07 import official, status_enum
    spec = importlib.util.spec_from_file_location('amount_gates', os.path.join(oblig.VERIF, 'contracts', 'amount_gates.py'))
    m = importlib.util.module_from_spec(spec)
    spec.loader.exec_module(m)
    off = official()
    cat = linevc.Cat.get(year)
    obs = []
    for g in m.GATES:
        lname = g['line'][year] if isinstance(g['line'], dict) else g['line']
        fld = cat.fields.get(lname)
        oid = f'C09/{year}/amount/{g["id"]}'
        if fld is None:
            obs.append(Ob(id=oid, status=oblig.ERROR, solver_output=f'amount gate names line {lname} which does not exist'))
            continue
        t1 = time.time()
        paths = linevc.explore_line(year, fld)
        if any(p.outcome[0] == 'unsupported' for p in paths):
            obs.append(Ob(id=oid, status=oblig.UNDECIDED, function=lname, solver_output='line outside the subset'))
            continue
        enum = status_enum(year)

        def S(name):
            s, k = find_symbol(name, enum if name.endswith('filing_status') else None)
            if s is None:
                raise KeyError(name)
            return s
        bad = None
        nret = 0
        for p in paths:
            if p.outcome[0] != 'return':
                continue
            nret += 1
            hyp = p.conds + [f for f in p.facts if not z3.is_quantifier(f)]
            if g['kind'] == 'never-returns-when':
                try:
                    cond = g['cond'](S)
                except KeyError as e:
                    bad = ('site', f'symbol {e} is not read by {lname}', None, p)
                    break
                st, model, be, secs, txt = smt.prove(hyp, z3.Not(cond))
            else:
                val = p.outcome[1]
                if val is None or sym.kind_of(val) not in sym.NUM:
                    continue
                ssym = S('i|1040.filing_status')
                sort, consts, none, cls = sym.enum_sort(enum)
                lim = z3.RealVal(0)
                for mname, c in consts.items():
                    lim = z3.If(ssym == c, rv(getattr(off, g['official'])[year][mname]), lim)
                cond = sym.term(val, 'real') > lim
                st, model, be, secs, txt = smt.prove(hyp, z3.Not(cond))
            if st != 'discharged':
                mdl, _ = replay.solve_model(p, extra=[cond])
                bad = (st, txt, mdl, p)
                break
        clause = f'{lname}: {g["text"]} => no value is returned (not-implemented is reported)'
        if bad is None and nret:
            obs.append(Ob(id=oid, backend='z3', function=lname, time_s=time.time() - t1, clause=clause, vc=f'{nret} return path(s): pathcond AND cond unsat'))
        elif bad is None:
            obs.append(Ob(id=oid, status=oblig.ERROR, function=lname, solver_output='vacuous: the line has no return path'))
        elif bad[0] == 'site':
            obs.append(Ob(id=oid, status=oblig.REFUTED, function=lname, clause='NOT: ' + clause, solver_output=bad[1],
                          witness={'note': bad[1]}, replay={'reproduced': False}))
        else:
            st, txt, mdl, p = bad
            wit, rep = {}, {}
            if mdl is not None:
                inputs, values = replay.concretise(mdl, year)
                wit = {'inputs': {k: repr(v) for k, v in inputs.items()}, 'values': {k: repr(v) for k, v in values.items()}}
                rep = replay.replay_line(year, lname, inputs, values)
                rep['reproduced'] = rep.get('outcome') == 'return'
            obs.append(Ob(id=oid, status=oblig.REFUTED if st == 'refuted' else oblig.UNDECIDED, backend='z3', function=lname,
                          clause='NOT: ' + clause, solver_output=txt, witness=wit, replay=rep, vc=' AND '.join(str(c)[:120] for c in p.conds[-5:]),
                          replay_spec={'kind': 'line', 'year': year, 'line': lname, 'inputs': wit.get('inputs', {}), 'values': wit.get('values', {})}))
    return obs


def run(tier, seed, t0):
    table = load_gates()
    tasks = []
    for year in extract.YEARS:
        gates = table['gates'].get(str(year), [])
        cat = linevc.Cat.get(year)
        for fname, form in cat.forms.items():
            tasks.append(Task(f'C09/{year}/{fname}', scan_form, year, fname, gates, weight=len(form.fields())))
    # scan_form returns dicts, not Ob: run through the pool by wrapping
    raw = run_raw(tasks)
    obs = []
    functions = set()
    for year in extract.YEARS:
        ystr = str(year)
        gates = table['gates'].get(ystr, [])
        non_gates = set(table['non_gates'].get(ystr, []))
        companions = table.get('companions', {}).get(ystr, {})
        cat = linevc.Cat.get(year)
        results = [r for (y, r) in raw if y == year]
        for r in results:
            for line, msg in r.get('errors', []):
                obs.append(Ob(id=f'C09/{year}/{line}/explore', status=oblig.UNDECIDED, solver_output=msg))
        ni = {}
        for r in results:
            for g, lines in r['ni'].items():
                ni.setdefault(g, []).extend([(l, req, r['form']) for l, req in lines])
            for g, lines in r.get('cni', {}).items():
                ni.setdefault(g, []).extend([(l, req, r['form']) for l, req in lines])
        leaks = {}
        for r in results:
            for lk in r['leaks']:
                leaks.setdefault(lk['gate'], []).append(dict(lk, form=r['form']))
        # classification completeness
        known = {g['input'] for g in gates} | non_gates
        for name, inp in cat.inputs.items():
            from habutax import inputs as I
            if type(inp) is I.BooleanInput and name not in known:
                base_name = name
                obs.append(Ob(id=f'C09/{year}/unclassified/{base_name}', status=oblig.ERROR,
                              solver_output=f'boolean input {name} is in neither the gate nor the non-gate list of contracts/gates.json; classify it'))
        for g in gates:
            key = f'{g["input"]}={g["polarity"]}'
            oid = f'C09/{year}/{g["input"]}'
            t1 = time.time()
            nilines = ni.get(key, [])
            if not nilines:
                # the gate no longer makes any line NI: replay natively on a line that reads it
                rep = {'reproduced': True, 'note': 'no line of the year raises not-implemented on every path compatible with the affirmative answer'}
                lk = (leaks.get(key) or [None])[0]
                wit = None
                if lk and lk['witness']:
                    wit = lk['witness']
                    rep = replay.replay_line(year, lk['line'], eval_dict(wit['inputs'], year), eval_dict(wit['values'], year))
                    rep['reproduced'] = rep.get('exc') != 'FieldNotImplemented'
                obs.append(Ob(id=oid + '/gate-raises', status=oblig.REFUTED, backend='symexec+z3', function=g['input'],
                              clause=f'gate {key} ("{g.get("text", "")[:80]}"): some line must report not-implemented whenever the answer is affirmative; none does',
                              witness=wit or {'gate': key}, replay=rep,
                              replay_spec={'kind': 'line', 'year': year, 'line': lk['line'] if lk else None, 'inputs': (wit or {}).get('inputs', {}), 'values': (wit or {}).get('values', {})}))
                continue
            obs.append(Ob(id=oid + '/gate-raises', backend='symexec+z3', function=g['input'], time_s=time.time() - t1,
                          clause=(f'conditional gate {key}: every path of {[l for l, _, _ in nilines][:4]} that consults it with that answer ends in FieldNotImplemented' if g.get('conditional') else
                                  f'gate {key}: every path of {[l for l, _, _ in nilines][:4]} compatible with the affirmative answer ends in FieldNotImplemented'),
                          vc=f'{len(nilines)} line(s)'))
            for lk in leaks.get(key, []):
                loid = f'{oid}/reader={lk["line"]}'
                same_form = [] if g.get('conditional') else [l for l, req, frm in nilines if frm == lk['form'] and req]
                comp = companions.get(f'{g["input"]}@{lk["line"]}') or companions.get(g['input'])
                other = [l for l, req, frm in nilines if comp and l == comp['line']]
                if other and comp.get('chain'):
                    # verify the frozen reason: all readers of the leaking line are chain[0], and each link is a must-read
                    mustread, anyread = {}, {}
                    for r in results:
                        mustread.update(r.get('mustread', {}))
                        anyread.update(r.get('anyread', {}))
                    readers = sorted(l for l, rs in anyread.items() if lk['line'] in rs)
                    chain = comp['chain']
                    ok = readers == [chain[0]] and chain[-1] == comp['line'] and all(b in mustread.get(a, []) for a, b in zip(chain, chain[1:]))
                    if not ok:
                        other = []
                if same_form:
                    obs.append(Ob(id=loid, backend='symexec+z3', function=lk['line'], clause=f'{lk["line"]} reads {key} without raising, but the required line {same_form[0]} of the same form raises on every compatible path', vc='companion: required line of the same form'))
                elif other:
                    obs.append(Ob(id=loid, backend='symexec+z3', function=lk['line'], clause=f'{lk["line"]} reads {key} without raising; frozen companion {comp["line"]} raises on every compatible path ({comp["why"]})', vc='companion: contracts/gates.json'))
                else:
                    wit = lk['witness'] or {}
                    rep = replay.replay_line(year, lk['line'], eval_dict(wit.get('inputs', {}), year), eval_dict(wit.get('values', {}), year)) if wit else {}
                    rep['reproduced'] = rep.get('outcome') == 'return'
                    obs.append(Ob(id=loid, status=oblig.REFUTED, backend='symexec+z3', function=lk['line'],
                                  clause=f'{lk["line"]} consults gate {key} with the affirmative answer and returns a value; no line that is always demanded with it reports not-implemented',
                                  witness=wit, replay=rep, solver_output='sat',
                                  replay_spec={'kind': 'line', 'year': year, 'line': lk['line'], 'inputs': wit.get('inputs', {}), 'values': wit.get('values', {})}))
            functions.update(l for l, _, _ in nilines)
    obs.extend(oblig.run_tasks([Task(f'C09/{y}/amount', amount_gates, y) for y in extract.YEARS]))
    # the solver's half of "never solves": a line that reported not-implemented stays recorded (also across a further solve() on the same
    # solver), it is recorded by the attempt that saw it, and a solve that returns True has nothing recorded
    from . import solver_props as sp
    from . import solver_units as su
    solver_part = []
    for o in oblig.run_tasks([Task('unit/solve', sp.unit_runner, 'solve', weight=10), Task('unit/_attempt_field', sp.unit_runner, '_attempt_field', weight=2)]):
        if o.id.startswith('SOLVER/') and any(k in o.id for k in ('unimplemented-only-grows', 'unimplemented-lines-are', 'success-means-nothing-unimplemented', 'recorded-unimplemented-iff', 'done-flag-set', 'subset')):
            solver_part.append(o)
    obs.extend(su.finish_with_refutation('C09', solver_part, lambda o: True, seed, tier))
    functions.update(['solver.py:Solver.solve', 'solver.py:Solver._attempt_field'])
    return oblig.finish('C09', tier, seed, obs, t0, functions=sorted(functions),
                        trusted_base=base.TRUSTED + ['contracts/gates.json (frozen gate table and companion table)'],
                        assumptions=base.assumptions('A-PY', 'A-READ', 'A-SIGMA') + [
                            'the solver side (a recorded refusal is never forgotten; success means none recorded) is included as C09/solver/*; the rest of C01 is a separate property',
                            'amount gates are the ones listed in contracts/amount_gates.py (Schedule B rows, HSA over-contribution, Form 1116 limit)'],
                        checker_cmd='./check C09', min_obligations=150)


def eval_dict(d, year):
    """witness dicts hold repr() strings; turn them back into Python values for replay."""
    import habutax.enum as E
    out = {}
    for k, v in d.items():
        if isinstance(v, str) and v.startswith('<'):
            # enum member repr "<Cls.Name: 'value'>"
            name = v[1:].split(':')[0].split('.')[-1]
            val = None
            for cls in sym._ENUM_SORTS.values():
                if name in cls[3].__members__ and cls[3].__name__ in v:
                    val = cls[3][name]
            out[k] = val
        else:
            try:
                out[k] = eval(v, {'__builtins__': {}}, {})
            except Exception:
                out[k] = v
    return out


_RAW = []


def _raw_task(ix):
    t = _RAW[ix]
    try:
        return (t.args[0], t.fn(*t.args)[0])
    except Exception as e:
        import traceback
        return (t.args[0], {'form': t.args[1], 'ni': {}, 'leaks': [], 'bool_inputs_read': [], 'errors': [(t.args[1], traceback.format_exc()[-500:])]})


def run_raw(tasks):
    import multiprocessing
    global _RAW
    _RAW = tasks
    ctx = multiprocessing.get_context('fork')
    order = sorted(range(len(tasks)), key=lambda ix: -tasks[ix].weight)
    with ctx.Pool(int(os.environ.get('VERIF_JOBS', '16'))) as pool:
        return pool.map(_raw_task, order, chunksize=1)
