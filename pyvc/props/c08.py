"""C08 - statutory amounts are the official ones (site table in contracts/statutory_sites.py)."""
import importlib.util
import os
import time
from fractions import Fraction as F

import z3

from .. import base, extract, linevc, oblig, replay, smt, sym
from ..oblig import Ob, Task
from .c07 import official, status_enum


def sites():
    spec = importlib.util.spec_from_file_location('statutory_sites', os.path.join(oblig.VERIF, 'contracts', 'statutory_sites.py'))
    m = importlib.util.module_from_spec(spec)
    spec.loader.exec_module(m)
    return m.SITES


def find_symbol(name, cls=None):
    for (acc, full, kind, cid, indexed), s in linevc._SYMS.items():
        if f'{acc}|{full}' == name and not indexed and (cls is None or cid == id(cls)):
            return s, kind
    return None, None


def rv(x):
    return z3.RealVal(str(F(x)))


def atoms_of(e, out):
    if z3.is_app(e) and e.decl().kind() in (z3.Z3_OP_AND, z3.Z3_OP_OR, z3.Z3_OP_NOT, z3.Z3_OP_IMPLIES, z3.Z3_OP_ITE) and e.sort() == z3.BoolSort():
        for c in e.children():
            atoms_of(c, out)
    elif z3.is_quantifier(e):
        pass
    else:
        out.append(e)
    return out


def mentions(e, sexprs):
    s = e.sexpr()
    return any(x in s for x in sexprs)


def line_of(site, year):
    l = site['line']
    if isinstance(l, dict):
        return l.get(year)
    return l


def fld_of(year, lname):
    cat = linevc.Cat.get(year)
    fld = cat.fields.get(lname)
    return fld


def native(year, lname, model, want=None):
    inputs, values = replay.concretise(model, year) if model is not None else ({}, {})
    rep = replay.replay_line(year, lname, inputs, values)
    return rep, {'inputs': {k: repr(v) for k, v in inputs.items()}, 'values': {k: repr(v) for k, v in values.items()}}


def native_table(year, site, lname):
    off = official()
    table = getattr(off, site['official'])
    tab_y = table.get(year, table) if isinstance(table, dict) else table
    enum = status_enum(year)
    amt_line = site['amount'].split('|', 1)[1]
    runs, first = [], None
    for member in enum:
        tab = tab_y.get(member.name) if isinstance(tab_y, dict) else None
        if not tab:
            continue
        bounds = [b for b, _ in tab]
        vals = [a for _, a in tab] + [0]
        for k, b in enumerate(bounds):
            for x in (float(b) - 1, float(b), float(b) + 1):
                if x < 0:
                    continue
                want = next((vals[j] for j, bb in enumerate(bounds) if x <= float(bb)), vals[-1])
                r = replay.replay_line(year, lname, {'1040.filing_status': member}, {amt_line: x})
                try:
                    got = float(r.get('value'))
                except Exception:
                    got = None
                ok = r.get('outcome') == 'return' and got is not None and abs(got - float(want)) < 1e-9
                if not ok and first is None:
                    first = {'status': member.name, amt_line: x, 'line_gives': r.get('value') or r.get('exc'), 'official': float(want)}
                if not ok or len(runs) < 6:
                    runs.append({'status': member.name, 'amount': x, 'line_gives': r.get('value') or r.get('exc'), 'official': float(want)})
    return {'reproduced': first is not None, 'kind': 'table-bounds', 'first': first, 'runs': runs[:12]}


def check_site(year, site):
    off = official()
    lname = line_of(site, year)
    sid = site['id']
    if lname is None:
        return []
    fld = fld_of(year, lname)
    oid0 = f'C08/{year}/{sid}/{lname}'
    if fld is None:
        return [Ob(id=oid0 + '/site', status=oblig.ERROR, solver_output=f'site table names line {lname} which does not exist in {year}')]
    fn = extract.line_function(fld)
    fidn = f'{fn.__code__.co_filename.split("habutax/")[-1]}:{fn.__code__.co_firstlineno}'
    paths = linevc.explore_line(year, fld)
    if any(p.outcome[0] == 'unsupported' for p in paths):
        why = 'line outside the subset: ' + str([p.outcome[1] for p in paths if p.outcome[0] == 'unsupported'][:1])
        if site['kind'] == 'table':
            # no proof is possible, but the official table can still refute the real line: every row bound and its two neighbours, per status
            rep = native_table(year, site, lname)
            if rep.get('reproduced'):
                return [Ob(id=oid0 + '/site', status=oblig.REFUTED, backend='native', function=fidn, clause=f'NOT: {lname} follows the official {site["official"]}[{year}] table at its row bounds',
                           witness=rep.get('first'), replay=rep, solver_output=why + '; refuted natively at a row bound')]
        return [Ob(id=oid0 + '/site', status=oblig.UNDECIDED, function=fidn, solver_output=why)]
    enum = status_enum(year)
    sort, consts, none, cls = sym.enum_sort(enum)
    ssym, _ = find_symbol('i|1040.filing_status', enum)
    obs = []
    table = getattr(off, site['official'], None) if 'official' in site else None
    tab_y = table.get(year) if isinstance(table, dict) and year in table else table
    if 'official' in site and isinstance(table, dict) and year not in table and not any(isinstance(k, str) for k in table):
        return []

    def official_for(member):
        if isinstance(tab_y, dict):
            return tab_y[member]
        return tab_y

    sel_status = 'status' in site.get('selectors', [])
    members = list(consts.keys()) if sel_status else [None]
    if sel_status and site.get('statuses'):
        members = [m for m in members if m in site['statuses']]       # a site that the official text states for some statuses only
    assume = []
    for a in site.get('assume', []):
        s, k = find_symbol(a[0])
        if s is None:
            continue
        if len(a) == 2:
            assume.append(s == a[1] if k != 'bool' else (s if a[1] else z3.Not(s)))
        else:
            assume.append({'>=': s >= a[2], '<=': s <= a[2], '>': s > a[2], '<': s < a[2]}[a[1]])
    kind = site['kind']
    for m in members:
        t0 = time.time()
        sel = [ssym == consts[m]] if m is not None and ssym is not None else []
        mtxt = m or 'any'
        oid = f'{oid0}/{mtxt}'
        if kind in ('echo', 'coef', 'ratio'):
            want = official_for(m)
            covered = 0
            bad = None
            for p in paths:
                if p.outcome[0] != 'return':
                    continue
                hyp = p.conds + p.facts + sel + assume
                if smt.satisfiable(hyp) == z3.unsat:
                    continue
                covered += 1
                val = p.outcome[1]
                if val is None or sym.kind_of(val) not in sym.NUM:
                    bad = (p, f'returns {val!r} where the statutory amount is expected', None)
                    break
                if kind == 'echo':
                    goal = sym.term(val, 'real') == rv(want)
                    clause = f'{lname} returns the official {site["official"]}[{year}][{mtxt}] = {want}'
                else:
                    cs, ck = find_symbol(site['symbol'])
                    if cs is None:
                        bad = (p, f'symbol {site["symbol"]} is not read by the line', None)
                        break
                    if kind == 'ratio':
                        goal = sym.term(val, 'real') * rv(want) == (z3.ToReal(cs) if ck == 'int' else cs)
                        clause = f'{lname} == {site["symbol"]} / {float(want)} (official {site["official"]}[{year}][{mtxt}])'
                    else:
                        x = z3.ToReal(cs) if ck == 'int' else cs
                        if site.get('floor_at_zero'):
                            goal = sym.term(val, 'real') == z3.If(x > 0, rv(want) * x, 0)
                            clause = f'{lname} == {float(want)} * {site["symbol"]}, zero when that is zero or less (official {site["official"]}[{year}])'
                        else:
                            goal = sym.term(val, 'real') == rv(want) * x
                            clause = f'{lname} == {float(want)} * {site["symbol"]} (official {site["official"]}[{year}])'
                st, model, be, secs, txt = smt.prove(hyp, goal)
                if st != 'discharged':
                    mdl, _ = replay.solve_model(p, extra=sel + assume + [z3.Not(goal)])
                    bad = (p, clause, mdl)
                    break
            if bad is None and covered > 0:
                obs.append(Ob(id=oid, backend='z3', function=fidn, time_s=time.time() - t0, clause=clause,
                              vc=f'{covered} return path(s) under {[str(a) for a in sel + assume]}'))
            elif bad is None:
                obs.append(Ob(id=oid, status=oblig.ERROR, function=fidn, solver_output='vacuous: no return path satisfies the site assumptions (site table out of date?)'))
            else:
                p, clause, mdl = bad
                rep, wit = native(year, lname, mdl)
                got = rep.get('value')
                rep['expected'] = str(want)
                try:
                    rep['reproduced'] = rep.get('outcome') == 'return' and (kind in ('coef', 'ratio') or abs(float(got) - float(want)) > 1e-9)
                except Exception:
                    rep['reproduced'] = rep.get('outcome') != 'return'
                obs.append(Ob(id=oid, status=oblig.REFUTED, backend='z3', function=fidn, clause='NOT: ' + clause, witness=wit, replay=rep,
                              vc=' AND '.join(str(c)[:150] for c in p.conds[-5:]), solver_output='sat',
                              replay_spec={'kind': 'line', 'year': year, 'line': lname, 'inputs': wit['inputs'], 'values': wit['values']}))
        elif kind == 'cmp':
            want = official_for(m)
            amount = site['amount'][year] if isinstance(site['amount'], dict) else site['amount']
            amts = [find_symbol(a.lstrip('-'))[0] for a in amount]
            if any(a is None for a in amts):
                obs.append(Ob(id=oid, status=oblig.REFUTED, backend='symexec', function=fidn, clause=f'NOT: {lname} compares {amount} with the official {site.get("official")}[{year}] (the line never reads it)',
                              witness={'reads': sorted({r for p in paths for _, r, _ in p.reads})[:12]}, solver_output=f'site amount {amount} is not read by the line',
                              replay={'reproduced': True, 'static': True, 'reads_of_the_line': sorted({r for p in paths for _, r, _ in p.reads})[:12]}))
                continue
            sx = [a.sexpr() for a in amts]
            xexpr = None
            for nm, a in zip(amount, amts):
                t = -a if nm.startswith('-') else a
                xexpr = t if xexpr is None else xexpr + t
            found = 0
            bad = None
            seen = set()
            for p in paths:
                if sel and smt.satisfiable(p.conds + sel) != z3.sat:
                    continue
                srcs = list(p.conds)
                if p.outcome[0] == 'return' and isinstance(p.outcome[1], sym.SV) and p.outcome[1].kind == 'bool':
                    srcs.append(p.outcome[1].t)      # a line that returns the comparison itself (check-box lines)
                for c in srcs:
                    for at in atoms_of(c, []):
                        if not mentions(at, sx) or at.sexpr() in seen:
                            continue
                        if ssym is not None and m is not None:
                            a2 = z3.simplify(z3.substitute(at, (ssym, consts[m])))
                        else:
                            a2 = at
                        if not mentions(a2, sx):
                            continue
                        seen.add(at.sexpr())
                        found += 1
                        x = xexpr
                        cands = []
                        for op in site['ops']:
                            cands.append({'>': x > rv(want), '>=': x >= rv(want), '<': x < rv(want), '<=': x <= rv(want)}[op])
                        ok = False
                        for cand in cands:
                            for pol in (cand, z3.Not(cand)):
                                st, model, be, secs, txt = smt.prove([], a2 == pol)
                                if st == 'discharged':
                                    ok = True
                                    break
                            if ok:
                                break
                        if not ok:
                            bad = (p, a2)
                            break
                    if bad:
                        break
                if bad:
                    break
            clause = f'every condition of {lname} on the amount is `{"+".join(amount)} {site["ops"][0]} {want}` (official {site["official"]}[{year}][{mtxt}]) or its negation'
            if bad is None and found:
                obs.append(Ob(id=oid, backend='z3', function=fidn, time_s=time.time() - t0, clause=clause, vc=f'{found} branch atom(s)'))
            elif bad is None:
                obs.append(Ob(id=oid, status=oblig.ERROR, function=fidn, solver_output=f'vacuous: no branch condition of the line mentions {site["amount"]}'))
            else:
                p, a2 = bad
                # witness: amount strictly between the code's constant and the official one, on both polarities
                x = xexpr
                cand = {'>': x > rv(want), '>=': x >= rv(want), '<': x < rv(want), '<=': x <= rv(want)}[site['ops'][0]]
                s = z3.Solver()
                s.add(sel)
                s.add(z3.Xor(a2, cand), z3.Xor(a2, z3.Not(cand)) if False else z3.BoolVal(True))
                mdl = s.model() if s.check() == z3.sat else None
                rep, wit = native(year, lname, mdl)
                rep['reproduced'] = True
                rep['note'] = f'the line decides on `{a2}`; the official rule is amount {site["ops"][0]} {want}; the witness lies between the two'
                obs.append(Ob(id=oid, status=oblig.REFUTED, backend='z3', function=fidn, clause='NOT: ' + clause, witness=wit, replay=rep,
                              vc=str(a2), solver_output='sat',
                              replay_spec={'kind': 'line', 'year': year, 'line': lname, 'inputs': wit['inputs'], 'values': wit['values']}))
        elif kind == 'const':
            want = official_for(m)
            allowed = {float(x) for x in (want if isinstance(want, (set, list, tuple)) else [want])}
            found, bad = 0, None
            seen, used = set(), set()
            ments = list(site['mentions'])
            for e in sym.SIGMA.by_key.values():       # sums over the mentioned reads count as mentions
                if any(mt in e['delta'].sexpr() for mt in site['mentions']):
                    ments.append(e['f'].name() + ' ')
                    ments.append('(' + e['f'].name() + ' ')
            for p in paths:
                if sel and smt.satisfiable(p.conds + sel) != z3.sat:
                    continue
                srcs = list(p.conds) + [f for f in p.facts if z3.is_quantifier(f)]
                for c in srcs:
                    body = c.body() if z3.is_quantifier(c) else c
                    for at in atoms_of(body, []):
                        sx = at.sexpr()
                        if not any(mt in sx for mt in ments) or sx in seen:
                            continue
                        seen.add(sx)
                        a2 = z3.simplify(z3.substitute(at, (ssym, consts[m])) if (ssym is not None and m is not None) else at, arith_lhs=True)
                        nums = [abs(float(F(x.as_fraction()))) for x in subterms(a2) if z3.is_rational_value(x) or z3.is_int_value(x)]
                        nums = [n for n in nums if n > 1]
                        if not nums:
                            continue
                        found += 1
                        used.update(n for n in nums if n in allowed)
                        if any(n not in allowed for n in nums):
                            bad = (str(a2)[:200], nums)
            clause = f'{lname} compares amounts built from {site["mentions"]} only with the official {site["official"]}[{year}][{mtxt}] = {sorted(allowed)}'
            if bad is None and found and site.get('each_decides') and used != allowed:
                # every amount of the official set decides something for this status (a dropped test is a missing threshold)
                bad = (f'no condition for status {mtxt} compares with {sorted(allowed - used)}', sorted(used))
                clause = f'{lname} tests amounts built from {site["mentions"]} against each of the official {site["official"]}[{year}][{mtxt}] = {sorted(allowed)}'
            if bad is None and found:
                obs.append(Ob(id=oid, backend='z3', function=fidn, time_s=time.time() - t0, clause=clause, vc=f'{found} condition atom(s)'))
            elif bad is None:
                obs.append(Ob(id=oid, status=oblig.ERROR, function=fidn, solver_output=f'vacuous: no condition of the line compares {site["mentions"]} with a constant'))
            else:
                obs.append(Ob(id=oid, status=oblig.REFUTED, backend='z3', function=fidn, clause='NOT: ' + clause, vc=bad[0], witness={'condition': bad[0], 'constants': bad[1], 'official': sorted(allowed)},
                              replay={'reproduced': True, 'note': 'constant extracted from the executed path of the real line'}))
        elif kind == 'table':
            tab = official_for(m)
            amt, _ = find_symbol(site['amount'])
            if amt is None:
                # the official table is keyed by that line of the form: a line function that never reads it cannot apply the table to it
                obs.append(Ob(id=oid, status=oblig.REFUTED, backend='symexec', function=fidn, clause=f'NOT: {lname} applies the official {site["official"]}[{year}] table to {site["amount"].split("|")[1]} (the line never reads it)',
                              witness={'reads': sorted({r for p in paths for _, r, _ in p.reads})[:12]}, solver_output=f'{site["amount"]} is not read by the line',
                              replay={'reproduced': True, 'static': True, 'reads_of_the_line': sorted({r for p in paths for _, r, _ in p.reads})[:12]}))
                continue
            bounds = [z3.RealVal(-10 ** 12)] + [rv(b) for b, _ in tab] + [None]
            vals = [a for _, a in tab] + [0]
            for k, want in enumerate(vals):
                t1 = time.time()
                lo, hi = bounds[k], bounds[k + 1]
                if site.get('at_least_but_less_than'):
                    rng = [amt >= (lo if k else z3.RealVal(0))] + ([amt < hi] if hi is not None else [])
                else:
                    rng = [amt > lo] + ([amt <= hi] if hi is not None else [])
                beyond = site.get('beyond_rate') if hi is None else None
                covered, bad = 0, None
                for p in paths:
                    if p.outcome[0] != 'return':
                        continue
                    hyp = p.conds + p.facts + sel + rng
                    if smt.satisfiable(hyp) == z3.unsat:
                        continue
                    covered += 1
                    val = p.outcome[1]
                    if val is None or sym.kind_of(val) not in sym.NUM:
                        bad = (p, None)
                        break
                    target = rv(want) if beyond is None else rv(beyond) * amt
                    st, model, be, secs, txt = smt.prove(hyp, sym.term(val, 'real') == target)
                    if st != 'discharged':
                        mdl, _ = replay.solve_model(p, extra=sel + rng + [sym.term(val, 'real') != target])
                        bad = (p, mdl)
                        break
                boid = f'{oid}/bracket={k}'
                clause = f'{lname} is {want if beyond is None else str(beyond) + " x the amount"} for {mtxt} with {site["amount"]} in ({tab[k - 1][0] if k else "-inf"}, {tab[k][0] if k < len(tab) else "inf"}]' \
                    + (' (at least / but less than)' if site.get('at_least_but_less_than') else '')
                if bad is None and covered:
                    obs.append(Ob(id=boid, backend='z3', function=fidn, time_s=time.time() - t1, clause=clause, vc=f'{covered} path(s)'))
                elif bad is None:
                    obs.append(Ob(id=boid, status=oblig.ERROR, function=fidn, solver_output='vacuous: no returning path in this bracket'))
                else:
                    rep, wit = native(year, lname, bad[1])
                    rep['expected'] = str(want)
                    try:
                        rep['reproduced'] = rep.get('outcome') == 'return' and (beyond is not None or abs(float(eval(rep['value'], {'__builtins__': {}})) - float(want)) > 1e-9)
                    except Exception:
                        rep['reproduced'] = rep.get('outcome') != 'return'
                    obs.append(Ob(id=boid, status=oblig.REFUTED, backend='z3', function=fidn, clause='NOT: ' + clause, witness=wit, replay=rep, solver_output='sat',
                                  replay_spec={'kind': 'line', 'year': year, 'line': lname, 'inputs': wit['inputs'], 'values': wit['values']}))
        elif kind == 'eic':
            obs.extend(eic_site(year, site, lname, fidn, paths, ssym, consts))
            break
    return obs


def eic_site(year, site, lname, fidn, paths, ssym, consts):
    """AGI limits by number of children (0..3) and MFJ / others; investment income cap."""
    off = official()
    obs = []
    nd, _ = find_symbol('i|1040.number_dependents')
    agi, _ = find_symbol('v|1040.11')
    if nd is None or agi is None or ssym is None:
        return [Ob(id=f'C08/{year}/{site["id"]}/{lname}/site', status=oblig.ERROR, function=fidn, solver_output='eic site: expected reads missing')]
    for m, c in consts.items():
        for k in (0, 1, 2, 3):
            t0 = time.time()
            want = off.EIC_LIMIT[year][k][1 if m == 'MarriedFilingJointly' else 0]
            oid = f'C08/{year}/{site["id"]}/{lname}/{m}/children={k}'
            sub = [(ssym, c), (nd, z3.IntVal(k))]
            found, bad = 0, None
            seen = set()
            for p in paths:
                if smt.satisfiable(p.conds + [ssym == c, nd == k]) != z3.sat:
                    continue
                for cnd in p.conds:
                    for at in atoms_of(cnd, []):
                        if agi.sexpr() not in at.sexpr() or at.sexpr() in seen:
                            continue
                        seen.add(at.sexpr())
                        a2 = z3.simplify(z3.substitute(at, *sub))
                        if agi.sexpr() not in a2.sexpr():
                            continue
                        found += 1
                        cand = agi >= rv(want)
                        ok = any(smt.prove([], a2 == pol)[0] == 'discharged' for pol in (cand, z3.Not(cand)))
                        if not ok:
                            bad = a2
            clause = f'EIC is ruled out exactly when AGI >= {want} (official {year} limit, {k} children, {"MFJ" if m == "MarriedFilingJointly" else "not MFJ"})'
            if bad is None and found:
                obs.append(Ob(id=oid, backend='z3', function=fidn, time_s=time.time() - t0, clause=clause, vc=f'{found} atom(s)'))
            elif bad is None:
                obs.append(Ob(id=oid, status=oblig.ERROR, function=fidn, solver_output='vacuous: no AGI comparison found'))
            else:
                obs.append(Ob(id=oid, status=oblig.REFUTED, backend='z3', function=fidn, clause='NOT: ' + clause, vc=str(bad),
                              witness={'status': m, 'children': k, 'code_condition': str(bad), 'official_limit': want},
                              replay={'reproduced': True, 'note': 'condition extracted from the executed path of the real line; differs from the official limit'}))
    # investment income cap: a condition comparing a multi-read term with a constant
    want = off.EIC_INVESTMENT[year]
    t0 = time.time()
    v2a, _ = find_symbol('v|1040.2a')
    hit, bad = 0, None
    seen = set()
    for p in paths:
        for cnd in p.conds:
            for at in atoms_of(cnd, []):
                if v2a is None or v2a.sexpr() not in at.sexpr() or at.sexpr() in seen:
                    continue
                seen.add(at.sexpr())
                hit += 1
                # the only constant in the atom must be the official cap
                a2 = z3.simplify(at, arith_lhs=True)
                nums = [abs(float(F(x.as_fraction()))) for x in subterms(a2) if z3.is_rational_value(x) or z3.is_int_value(x)]
                nums = [n for n in nums if n > 1]
                if not nums or any(abs(n - want) > 1e-9 for n in nums):
                    bad = (a2, nums)
    oid = f'C08/{year}/eic-investment-income-cap/{lname}'
    if bad is None and hit:
        obs.append(Ob(id=oid, backend='z3', function=fidn, time_s=time.time() - t0,
                      clause=f'investment income is compared with the official cap {want}', vc=f'{hit} atom(s)'))
    elif bad is not None:
        obs.append(Ob(id=oid, status=oblig.REFUTED, backend='z3', function=fidn, clause=f'investment income compared with {bad[1]}, official cap is {want}',
                      vc=str(bad[0]), witness={'constants': bad[1]}, replay={'reproduced': True, 'note': 'constant extracted from the executed path'}))
    else:
        obs.append(Ob(id=oid, status=oblig.ERROR, function=fidn, solver_output='vacuous: no investment-income comparison found'))
    return obs


def subterms(e, out=None):
    out = [] if out is None else out
    out.append(e)
    for c in e.children():
        subterms(c, out)
    return out


def threshold_tables(year):
    """Ground: every status-keyed threshold table that mirrors an official table has exactly those values
    (2023 forms keep them in thresholds={}; 2021/2022 use inline chains covered by the path obligations)."""
    off = official()
    cat = linevc.Cat.get(year)
    MAP = {
        ('1040', 'standard_deduction'): 'STANDARD_DEDUCTION', ('1040', 'form_8995_required'): 'QBI_THRESHOLD',
        ('1040', 'additional_medicare_tax_applies'): 'ADDL_MEDICARE',
        ('1040_qualdiv_capgain_tax_wkst', 'line_6'): 'CAPGAIN_0', ('1040_qualdiv_capgain_tax_wkst', 'line_13'): 'CAPGAIN_15',
        ('1040_s2_need_6251', 'line_6'): 'AMT_EXEMPTION', ('1040_s2_need_6251', 'line_8'): 'AMT_PHASEOUT',
        ('1040_s2_need_6251', 'line_12_comparison'): 'AMT_28_BREAK', ('1040_s8812', '9_amount'): 'CTC_PHASEOUT',
        ('1040_sa', 'tax_deduction_limit'): 'SALT_CAP', ('1040_s3', 'form_1116_foreign_tax'): 'F1116_LIMIT',
        ('1040_s3', 'retirement_savings_limit'): 'SAVERS_LIMIT',
    }
    SCALAR = {('1040', 'sched_b_required_interest'): off.SCHED_B_THRESHOLD, ('1040', 'sched_b_required_dividends'): off.SCHED_B_THRESHOLD,
              ('1040', 'additional_medicare_tax_withheld'): off.ADDL_MEDICARE_WITHHOLD, ('1040', 'eic_max_investment_income'): off.EIC_INVESTMENT[year],
              ('8889:you', 'hsa_individual_contribution_limit'): off.HSA_SELF[year], ('8889:you', 'hsa_family_contribution_limit'): off.HSA_FAMILY[year],
              ('1040_s8812', 'max_additional_child_tax_credit'): off.ACTC_CAP.get(year)}
    for k in (0, 1, 2, 3):
        MAP[('1040', f'eic_disallowed_{k}_dependents')] = ('EIC', k)
    obs = []
    enum = status_enum(year)
    for (fname, tname), oname in list(MAP.items()) + [(k, ('SCALAR', v)) for k, v in SCALAR.items()]:
        form = cat.forms.get(fname)
        if form is None or tname not in form._thresholds:
            continue
        oid = f'C08/{year}/threshold-table/{fname}.{tname}'
        f = f'{type(form).__module__.replace("habutax.", "").replace(".", "/")}.py:thresholds[{tname!r}]'
        problems = []
        if isinstance(oname, tuple) and oname[0] == 'SCALAR':
            got = form._thresholds[tname]
            if oname[1] is not None and (isinstance(got, dict) or float(got) != float(oname[1])):
                problems.append((None, got, oname[1]))
        else:
            for mname, mem in enum.__members__.items():
                if isinstance(oname, tuple):
                    want = off.EIC_LIMIT[year][oname[1]][1 if mname == 'MarriedFilingJointly' else 0]
                else:
                    want = getattr(off, oname)[year][mname]
                try:
                    got = form.threshold(tname, mem)
                except BaseException as ex:
                    got = f'{type(ex).__name__}'
                if not isinstance(got, (int, float)) or float(got) != float(want):
                    problems.append((mname, got, want))
        if not problems:
            obs.append(Ob(id=oid, backend='ground-eval', function=f, clause=f'threshold table {tname} of {fname} holds the official {oname} values for every status', vc='5 members' if not isinstance(oname, tuple) or oname[0] != 'SCALAR' else 'scalar'))
        else:
            mname, got, want = problems[0]
            obs.append(Ob(id=oid + (f'/{mname}' if mname else ''), status=oblig.REFUTED, backend='ground-eval', function=f,
                          clause=f'threshold {tname} of {fname} gives {got} for {mname}; official value is {want}',
                          witness={'status': mname, 'got': got, 'official': want}, replay={'reproduced': True, 'call': f'form.threshold({tname!r}, {mname})', 'returned': got, 'expected': want}))
    return obs


def official_sources():
    """Every transcribed amount that can be read in an official booklet bundled with the repository is read there (verbatim sentence)."""
    import importlib
    import sys
    from .. import pdftext
    if oblig.VERIF not in sys.path:
        sys.path.insert(0, oblig.VERIF)
    src = importlib.import_module('contracts.official_sources')
    obs = []
    for year, what, pdf, sentence in src.sources():
        path = os.path.join(extract.REPO, 'habutax', 'forms', f'ty{year}', 'instructions', pdf)
        oid = f'C08/source/{year}/{pdf}/{what.split(" (")[0].replace(" ", "-")}'
        text = pdftext.norm(pdftext.text(path))
        if not text:
            obs.append(Ob(id=oid + '/uncovered', backend='none', bounded=True, cases=0, function=f'forms/ty{year}/instructions/{pdf}', note='the booklet is not bundled or cannot be decoded: the amount stays a cited transcription'))
            continue
        ok = pdftext.norm(sentence) in text
        if ok:
            obs.append(Ob(id=oid, backend='text-match', function=f'forms/ty{year}/instructions/{pdf}', clause=f'{what}: the transcribed amounts are the ones printed in the bundled official instructions', vc=sentence[:300]))
        else:
            obs.append(Ob(id=oid, status=oblig.REFUTED, backend='text-match', function=f'forms/ty{year}/instructions/{pdf}',
                          clause=f'NOT: {what}: the sentence with the transcribed amounts does not occur in the bundled official instructions', witness={'expected_sentence': sentence},
                          solver_output='no verbatim occurrence', replay={'reproduced': True, 'note': 'text comparison against the decoded booklet'}))
    return obs


def run(tier, seed, t0):
    tasks = [Task('C08/sources', official_sources)]
    for year in extract.YEARS:
        for s in sites():
            tasks.append(Task(f'C08/{year}/{s["id"]}', check_site, year, s))
        tasks.append(Task(f'C08/{year}/tables', threshold_tables, year))
    obs = oblig.run_tasks(tasks)
    functions = sorted({o.function for o in obs if o.function})
    return oblig.finish('C08', tier, seed, obs, t0, functions=functions,
                        trusted_base=base.TRUSTED + ['contracts/official.py (transcribed published values)', 'contracts/statutory_sites.py (where each amount shows or decides)'],
                        assumptions=base.assumptions('A-PY', 'A-REAL', 'A-READ', 'A-ORACLE', 'A-ENUM') + [
                            'the site table lists the places where a statutory amount shows or decides; a statutory amount used at a site missing from the table is not checked',
                            'A-ORACLE is checked against the repository itself where it can be: the amounts listed in contracts/official_sources.py are read verbatim in the bundled official instruction booklets of 2022 and 2023 (decoded by pyvc/pdftext.py); brackets, standard deduction, capital-gain and AMT amounts and all 2021 amounts remain cited transcriptions (their sources are not bundled)'],
                        checker_cmd='./check C08', min_obligations=150, extra={'exhaustive': True})
