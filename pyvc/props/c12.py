"""C12 - stored line values have the declared type, rounding and blank convention.

(A) contracts of TypedField.value / FloatField.value, discharged by symbolic
    execution of the real methods with the line function by contract (returning
    a symbolic value of each Python kind);
(B) InputForm.__init__: every mirror line has the class matching its input and
    reads exactly that input (all shipped input forms), unknown input class raises;
(C) information: shipped lines with a path whose Python type differs from the
    declared one (correctly rejected by (A), not a violation).
"""
import time

import z3

from .. import base, extract, linevc, oblig, smt, sym
from ..oblig import Ob, Task
from ..sym import SV


def STUB(self, inputs, values):  # stands for an arbitrary line definition
    raise RuntimeError('by contract only')


class FakeForm(object):
    def name(self):
        return 'formx'


class FieldInterp(sym.Interp):
    def __init__(self, run, ret=None):
        super().__init__(run)
        self.ret = ret

    def call_hook(self, f, args, kwargs, node):
        if getattr(f, '__func__', None) is STUB:
            return self.ret
        return NotImplemented

    def repo_function(self, f):
        return super().repo_function(f)

    def sym_method(self, obj, attr, args, kwargs, node):
        return super().sym_method(obj, attr, args, kwargs, node)


def make_cases(other_enum, enum):
    s = z3.String('ret_s')
    return {
        'None': (None, []),
        'str': (SV('str', s), []),
        'bool': (SV('bool', z3.Bool('ret_b')), []),
        'int': (SV('int', z3.Int('ret_i')), []),
        'float': (SV('real', z3.Real('ret_f')), []),
        'enum-member': (SV('enum', z3.Const('ret_e', sym.enum_sort(enum)[0]), enum), [z3.Const('ret_e', sym.enum_sort(enum)[0]) != sym.enum_sort(enum)[2]]),
        'other-enum-member': (SV('enum', z3.Const('ret_o', sym.enum_sort(other_enum)[0]), other_enum), [z3.Const('ret_o', sym.enum_sort(other_enum)[0]) != sym.enum_sort(other_enum)[2]]),
        'list': ([1.0], []),
    }


def field_contracts():
    from habutax import fields as F
    import habutax.enum as E
    obs = []
    enum, other = E.taxpayer_or_spouse, E.us_states
    specs = [
        ('StringField', lambda: F.StringField('x', STUB), 'str', ''),
        ('BooleanField', lambda: F.BooleanField('x', STUB), 'bool', False),
        ('IntegerField', lambda: F.IntegerField('x', STUB), 'int', 0),
        ('FloatField(places=default)', lambda: F.FloatField('x', STUB), 'float', 0.0),
        ('FloatField(places=0)', lambda: F.FloatField('x', STUB, places=0), 'float', 0.0),
        ('FloatField(places=2)', lambda: F.FloatField('x', STUB, places=2), 'float', 0.0),
        ('FloatField(places=5)', lambda: F.FloatField('x', STUB, places=5), 'float', 0.0),
        ('EnumField', lambda: F.EnumField('x', enum, STUB), 'enum-member', None),
    ]
    ex = sym.Explorer()
    strip = z3.Function('str_strip', z3.StringSort(), z3.StringSort())
    for cname, mk, okkind, empty in specs:
        fld = mk()
        fld.__form_init__(FakeForm())
        fld._pyvc_symbolic = True   # methods of this object are interpreted, never called natively
        places = {'FloatField(places=default)': 2, 'FloatField(places=0)': 0, 'FloatField(places=2)': 2, 'FloatField(places=5)': 5}.get(cname)
        fname = f'fields.py:{type(fld).__name__}.value'
        for kname, (ret, pre) in make_cases(other, enum).items():
            t0 = time.time()
            oid = f'C12/fields/{cname}/returns-{kname}'

            def thunk(run, ret=ret):
                it = FieldInterp(run, ret)
                return it.call_function(type(fld).value, [fld, 'INPUTS', 'VALUES'])
            paths = ex.explore(thunk, base_conds=pre)
            problems = []
            clause = ''
            for p in paths:
                out = p.outcome
                hyp = p.conds + p.facts
                if out[0] == 'unsupported':
                    problems.append(('undecided', out[1], None))
                    continue
                # expected outcome by the property statement
                if kname == 'None':
                    exp = ('empty',)
                elif kname == 'str':
                    blank = strip(ret.t) == z3.StringVal('')
                    isblank = smt.satisfiable(hyp + [z3.Not(blank)]) == z3.unsat
                    nonblank = smt.satisfiable(hyp + [blank]) == z3.unsat
                    if isblank:
                        exp = ('empty',)
                    elif nonblank:
                        exp = ('same',) if okkind == 'str' else ('typeerror',)
                    else:
                        problems.append(('refuted', 'path does not distinguish blank from non-blank text', None))
                        continue
                elif kname == okkind:
                    exp = ('rounded',) if okkind == 'float' else ('same',)
                else:
                    exp = ('typeerror',)
                clause = f'{cname}: a definition returning {kname} -> {exp[0]}'
                if exp[0] == 'empty':
                    ok = out[0] == 'return' and type(out[1]) is type(empty) and out[1] == empty and not isinstance(out[1], SV)
                    if okkind == 'float' and out[0] == 'return' and isinstance(out[1], SV):
                        # round(0.0, p) symbolic: must equal 0
                        st = smt.prove(hyp, sym.term(out[1], 'real') == 0)[0]
                        ok = st == 'discharged'
                    if not ok:
                        problems.append(('refuted', f'expected the empty value {empty!r}, got {out}', p))
                elif exp[0] == 'same':
                    ok = out[0] == 'return' and isinstance(out[1], SV) and out[1].kind == ret.kind and smt.prove(hyp, out[1].t == ret.t)[0] == 'discharged'
                    if not ok:
                        problems.append(('refuted', f'expected the value unchanged, got {out}', p))
                elif exp[0] == 'rounded':
                    ok = out[0] == 'return' and isinstance(out[1], SV) and out[1].kind == 'real'
                    if ok:
                        # the result must be round(v, places): `round` is the A-REAL model (a nearest `places`-decimal) applied to exactly the definition's result
                        want = z3.Function(f'round_{places}', z3.RealSort(), z3.RealSort())(ret.t)
                        ok = out[1].t.sexpr() == want.sexpr()
                    if not ok:
                        problems.append(('refuted', f'expected the value rounded to {places} places, got {out}', p))
                else:
                    ok = out[0] == 'raise' and isinstance(out[1], TypeError) and fld.name() in str(out[1])
                    if not ok:
                        problems.append(('refuted', f'expected TypeError naming {fld.name()}, got {out}', p))
            if not problems:
                obs.append(Ob(id=oid, backend='symexec+z3', function=fname, time_s=time.time() - t0, clause=clause or f'{cname} on {kname}',
                              vc=f'{len(paths)} path(s) of the real method'))
            else:
                st, text, p = problems[0]
                rep = native_field(mk, kname, enum, other)
                obs.append(Ob(id=oid, status=oblig.REFUTED if st == 'refuted' else oblig.UNDECIDED, backend='symexec+z3', function=fname,
                              clause=text, solver_output=text, witness={'field': cname, 'definition_returns': kname}, replay=rep,
                              replay_spec={'kind': 'field', 'field': cname, 'returns': kname}))
    return obs


def native_field(mk, kname, enum, other):
    """Replay: run the real value() on concrete representatives of the kind."""
    from habutax import fields as F
    reps = {'None': [None], 'str': [' ', '\t', 'a', ''], 'bool': [True], 'int': [3], 'float': [1.005, 2.675, 0.125], 'enum-member': [list(enum)[0]],
            'other-enum-member': [list(other)[0]], 'list': [[1.0]]}[kname]
    out = []
    for r in reps:
        if 'Enum' in mk.__code__.co_consts or True:
            pass
        fld = mk()
        fld.__form_init__(FakeForm())
        import types
        fld._value = types.MethodType(lambda self, i, v, r=r: r, fld)
        try:
            got = fld.value(None, None)
            out.append({'definition_returns': repr(r), 'stored': repr(got)})
        except BaseException as ex:
            out.append({'definition_returns': repr(r), 'raised': f'{type(ex).__name__}: {str(ex)[:120]}'})
    return {'reproduced': True, 'runs': out}


def input_forms(year):
    from habutax import form as Fm, inputs as I, fields as F
    cat = linevc.Cat.get(year)
    obs = []
    want = {I.StringInput: F.StringField, I.SSNInput: F.StringField, I.BooleanInput: F.BooleanField, I.IntegerInput: F.IntegerField,
            I.FloatInput: F.FloatField, I.EnumInput: F.EnumField}
    for fname, form in cat.forms.items():
        if not isinstance(form, Fm.InputForm):
            continue
        ins, fls = form.inputs(), form.fields()
        t0 = time.time()
        oid = f'C12/{year}/InputForm/{fname}'
        problems = []
        if len(ins) != len(fls):
            problems.append(f'{len(ins)} inputs but {len(fls)} lines')
        for k, (i, fl) in enumerate(zip(ins, fls)):
            if want.get(type(i)) is not type(fl):
                problems.append(f'line {k} ({fl.base_name()}) is {type(fl).__name__} for a {type(i).__name__}')
                continue
            if i.base_name() != fl.base_name():
                problems.append(f'line {k} named {fl.base_name()} mirrors input {i.base_name()}')
                continue
            if type(i) is I.EnumInput and fl.enum() is not i.enum:
                problems.append(f'line {fl.base_name()} has another enumeration than its input')
                continue
            paths = linevc.explore_line(year, fl)
            ok = len(paths) == 1 and paths[0].outcome[0] == 'return' and isinstance(paths[0].outcome[1], SV) \
                and [r[:2] for r in paths[0].reads] == [('i', i.name().replace(':0.', ':0.'))]
            if ok:
                t = linevc.read_symbol('i', i.name() if ':0.' not in i.name() else i.name().replace(':0.', ':{n}.'), *linevc.input_kind(i)[:2],
                                       index=(z3.IntVal(0) if ':0.' in i.name() else None))
                ok = paths[0].outcome[1].t.sexpr() == t.sexpr()
            if not ok:
                problems.append(f'line {fl.base_name()} does not return exactly input {i.name()}: {[(p.outcome, p.reads) for p in paths][:1]}')
        if not problems:
            obs.append(Ob(id=oid, backend='symexec+ground', function='form.py:InputForm.__init__', time_s=time.time() - t0,
                          clause=f'each of the {len(fls)} lines mirrors the input of the same position: matching field class, same name, returns exactly that input', vc=f'{len(fls)} lines'))
        else:
            obs.append(Ob(id=oid, status=oblig.REFUTED, backend='symexec+ground', function='form.py:InputForm.__init__', clause='; '.join(problems)[:400],
                          witness={'form': fname, 'problems': problems[:5]}, replay={'reproduced': True, 'observed_on': 'the real instantiated form'}))
    # unknown input class
    class Weird(I.Input):
        pass
    class Dummy(Fm.InputForm):
        form_name = 'dummy'
        tax_year = year
    try:
        Fm.InputForm(Dummy, [Weird('w')])
        obs.append(Ob(id=f'C12/{year}/InputForm/unknown-input-class', status=oblig.REFUTED, backend='ground-eval', function='form.py:InputForm.__init__',
                      clause='an input of an unknown class is silently accepted', witness={'input_class': 'subclass of Input'}, replay={'reproduced': True}))
    except TypeError:
        obs.append(Ob(id=f'C12/{year}/InputForm/unknown-input-class', backend='ground-eval', function='form.py:InputForm.__init__',
                      clause='an input of an unknown class raises TypeError', vc='native call'))
    return obs


def line_types(year):
    """(C) information only."""
    from habutax import fields as F
    cat = linevc.Cat.get(year)
    wrong = []
    for form, fld in extract.all_lines(year):
        try:
            paths = linevc.explore_line(year, fld)
        except Exception:
            continue
        decl = linevc.field_kind(fld)[0]
        decl = {'real': 'float'}.get(decl, decl)
        for p in paths:
            if p.outcome[0] != 'return':
                continue
            v = p.outcome[1]
            t = sym.pytype_name(v)
            if v is None or (t == 'str' and not isinstance(v, SV) and isinstance(v, str) and v.strip() == ''):
                continue
            if t != decl and not (decl == 'enum' and t == 'enum'):
                wrong.append(f'{year} {fld.name()}: declared {decl}, a path returns {t}')
                break
    return [Ob(id=f'C12/{year}/info/line-types', backend='symexec', bounded=True, cases=len(wrong), function='forms/*',
               note='lines with a path returning another Python type than declared (rejected with TypeError by TypedField.value, i.e. correct per C12): ' + '; '.join(wrong)[:1500])]


def run(tier, seed, t0):
    tasks = [Task('C12/fields', field_contracts, weight=5)]
    for y in extract.YEARS:
        tasks.append(Task(f'C12/{y}/inputforms', input_forms, y))
        tasks.append(Task(f'C12/{y}/linetypes', line_types, y, weight=3))
    # what is stored for a line is exactly what its field type's value() returns: the storing statement of Solver._attempt_field
    from . import solver_props as sp
    from . import solver_units as su
    tasks.append(Task('unit/_attempt_field', sp.unit_runner, '_attempt_field', weight=4))
    obs = oblig.run_tasks(tasks)
    keep, solver_part = [], []
    for o in obs:
        if o.id.startswith('SOLVER/'):
            if any(k in o.id for k in ('stored-value-is-the-evaluation-result', 'evaluated-against', 'values-only-grow', 'subset')):
                o.id = o.id.replace('SOLVER/', 'C12/solver/')
                solver_part.append(o)
        else:
            keep.append(o)
    obs = keep + su.finish_with_refutation('C12', solver_part, lambda o: True, seed, tier)
    return oblig.finish('C12', tier, seed, obs, t0,
                        functions=['fields.py:TypedField.value', 'fields.py:FloatField.value', 'fields.py:StringField.__init__', 'fields.py:BooleanField.__init__',
                                   'fields.py:IntegerField.__init__', 'fields.py:FloatField.__init__', 'fields.py:EnumField.__init__', 'form.py:InputForm.__init__', 'solver.py:Solver._attempt_field (storing statement)'],
                        trusted_base=base.TRUSTED,
                        assumptions=base.assumptions('A-PY', 'A-REAL', 'A-BUILTIN') + [
                            'str.strip is an uninterpreted function; "blank" means strip(s) == ""',
                            'storage happens only through Solver._attempt_field (self._v[name] = field.value(...)): its unit is included (C12/solver/*)',
                            'Python value kinds considered for a definition result: None, str, bool, int, float, member of the declared enum, member of another enum, list'],
                        checker_cmd='./check C12', min_obligations=70)
