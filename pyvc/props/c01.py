"""C01 - no silent success.  Invariant "no lost line" of Solver.solve / _attempt_field and the exit
postconditions (contracts/core/solver.py), the Field.not_implemented contract, and the banner of habutax.solve."""
import time

import z3

from .. import base, corevc, extract, oblig, smt, sym
from ..oblig import Ob, Task
from . import solver_units as su

FUNCS = ['solver.py:Solver.solve', 'solver.py:Solver._attempt_field', 'solver.py:Solver._attempt_input', 'solver.py:Solver._add_unattempted',
         'solver.py:Solver._add_input_spec', 'solver.py:DependencyTracker.*', 'values.py:ValueStore.__setitem__', 'fields.py:Field.not_implemented']
ASSUME = base.assumptions('A-PY', 'A-BAG', 'A-GEN', 'A-PURE', 'A-PROMPT') + [
    'Solver._add_form is used by its contract (contracts/core/solver.py: add_form_contract); its body is verified in C04',
    'the line oracle: field.value(i, v) ends in exactly one of Ok / UnmetDependency(d not valued) / MissingInput(k declared, not provided) / MissingInputSpecification(k not declared) / FieldNotImplemented(own name) / another exception',
    'A-FORM: a form instance names its lines and inputs "<form name>.<base>", names are unique (C17)']


def select(o):
    return True


def not_implemented_contract():
    """Field.not_implemented() raises FieldNotImplemented carrying the line's own name, on every path."""
    from habutax import fields
    fld = fields.Field('x')

    class FakeForm(object):
        def name(self):
            return 'formx'
    fld.__form_init__(FakeForm())
    fld._pyvc_symbolic = True
    ex = sym.Explorer()

    def thunk(run):
        it = sym.Interp(run)
        return it.call_function(fields.Field.not_implemented, [fld])
    paths = ex.explore(thunk)
    ok = len(paths) == 1 and paths[0].outcome[0] == 'raise' and isinstance(paths[0].outcome[1], fields.FieldNotImplemented) \
        and paths[0].outcome[1].field_name == 'formx.x'
    if ok:
        return [Ob(id='C01/fields/Field.not_implemented/raises', backend='symexec', function='fields.py:Field.not_implemented',
                   clause='not_implemented() never returns: its only path raises FieldNotImplemented(self.name())', vc='1 path')]
    return [Ob(id='C01/fields/Field.not_implemented/raises', status=oblig.REFUTED, backend='symexec', function='fields.py:Field.not_implemented',
               clause='not_implemented() has a path that does not raise FieldNotImplemented with the line name', witness={'paths': [str(p.outcome) for p in paths]},
               replay={'reproduced': True})]


def run(tier, seed, t0):
    from . import solver_props as sp
    obs = sp.gather('C01', tier, seed, [Task('ni', not_implemented_contract)])
    return oblig.finish('C01', tier, seed, obs, t0, functions=FUNCS + ['__init__.py:solve'], trusted_base=sp.TRUST,
                        assumptions=sp.ASSUME, checker_cmd='./check C01', min_obligations=100)
