"""C06 - solving terminates with bounded work and loses no waiter.

Part 1 (fully deductive): contracts of every DependencyTracker method on the real
code, including the drained generator met_dependents() with a pointwise loop
invariant and a lexicographic variant.
Part 2: solver-level work bounds and termination (see contracts/core/solver.py).
"""
import importlib.util
import os
import time

import z3

from .. import base, corevc, extract, oblig, smt, sym
from ..oblig import Ob, Task


def load(name):
    import sys
    if oblig.VERIF not in sys.path:
        sys.path.insert(0, oblig.VERIF)
    return importlib.import_module(f'contracts.core.{name}')


def tracker_method(method):
    tr = load('tracker')
    cls = tr.cls()
    fn = cls.__dict__[method]
    spec = tr.TrackerSpec(method)
    fid = f'solver.py:DependencyTracker.{method}'
    t0 = time.time()
    gen = method == 'met_dependents'
    paths = corevc.run_function(fn, lambda it: spec.make_state(it), spec, generator=gen, esort=corevc.OBJ)
    obs = []
    labels = {}
    unsupported = [p.outcome[1] for p in paths if p.outcome[0] == 'unsupported']
    if unsupported:
        return [Ob(id=f'C06/tracker/{method}/subset', status=oblig.UNDECIDED, function=fid, solver_output='outside the subset: ' + unsupported[0])]
    for p in paths:
        obligs = list(getattr(p, 'obligations', []))
        if not getattr(p, 'iteration_only', False):
            it = p.interp
            for label, goal in spec.post(it, p.pre['self'], p.post_self, p.outcome, p.pre['info']):
                obligs.append((f'post/{label}', list(p.conds) + list(p.facts), goal))
        if p.outcome[0] == 'raise' and isinstance(p.outcome[1], AttributeError):
            # an attribute the contract's abstract view does not know: outside the contract, decided only by the native search
            obligs = [(f'post/attribute-outside-the-contract-view', [], z3.BoolVal(False))]
            outside = True
        else:
            outside = False
        for label, st, model, be, secs, txt, goal in corevc.discharge(obligs):
            if outside:
                st, txt = 'undecided', f'the method touches an attribute that is not part of the contract view: {p.outcome[1]}'
            cur = labels.setdefault(label, {'st': 'discharged', 'n': 0, 'secs': 0.0, 'be': be, 'txt': '', 'goal': str(goal)[:300], 'model': None})
            cur['n'] += 1
            cur['secs'] += secs
            if st != 'discharged' and cur['st'] == 'discharged' or st == 'refuted':
                cur.update(st=st, txt=txt, model=model, be=be)
    if not labels:
        return [Ob(id=f'C06/tracker/{method}/vacuous', status=oblig.ERROR, function=fid, solver_output='no obligation generated')]
    native = None
    for label, c in labels.items():
        oid = f'C06/tracker/{method}/{label}'
        if c['st'] == 'discharged':
            obs.append(Ob(id=oid, backend=c['be'], function=fid, time_s=c['secs'], clause=f'{method}: {label}', vc=c['goal'] + f'  [{c["n"]} path instance(s)]'))
        else:
            if native is None:
                native = tr.native_check(method) or {}
            rep = {'reproduced': bool(native), 'native_counterexample': native or None,
                   'note': 'concretisation search over small real tracker states (<=2 keys, lists <=2)'}
            # proof mode did not discharge it: refutation mode = concretisation search on the real class
            obs.append(Ob(id=oid, status=oblig.REFUTED if (c['st'] == 'refuted' or native) else oblig.UNDECIDED, backend=c['be'], function=fid,
                          clause=f'NOT: {method}: {label}', vc=c['goal'], solver_output=c['txt'], witness={'model': c['model']}, replay=rep,
                          replay_spec={'kind': 'tracker', 'method': method}))
    return obs


def run(tier, seed, t0):
    tr = load('tracker')
    tasks = [Task(f'C06/tracker/{m}', tracker_method, m, weight=10 if m == 'met_dependents' else 1) for m in tr.METHODS]
    obs = oblig.run_tasks(tasks)
    try:
        from . import c06_solver
        obs += c06_solver.obligations(tier, seed)
    except ImportError:
        pass
    return oblig.finish('C06', tier, seed, obs, t0,
                        functions=[f'solver.py:DependencyTracker.{m}' for m in tr.METHODS],
                        trusted_base=base.TRUSTED + ['contracts/core/tracker.py'],
                        assumptions=base.assumptions('A-PY', 'A-BAG', 'A-GEN'),
                        checker_cmd='./check C06', min_obligations=30)
