"""C06 - solving terminates with bounded work and loses no waiter.

Part 1 (fully deductive): contracts of every DependencyTracker method on the real
code, including the drained generator met_dependents() with a pointwise loop
invariant and a lexicographic variant.
Part 2: solver-level work bounds and termination (see contracts/core/solver.py).
"""
import importlib.util
import os
import time

import z3

from .. import base, corevc, extract, oblig, smt, sym
from ..oblig import Ob, Task


def load(name):
    import sys
    if oblig.VERIF not in sys.path:
        sys.path.insert(0, oblig.VERIF)
    return importlib.import_module(f'contracts.core.{name}')


def tracker_method(method):
    tr = load('tracker')
    cls = tr.cls()
    fn = cls.__dict__[method]
    spec = tr.TrackerSpec(method)
    fid = f'solver.py:DependencyTracker.{method}'
    t0 = time.time()
    gen = method == 'met_dependents'
    paths = corevc.run_function(fn, lambda it: spec.make_state(it), spec, generator=gen, esort=corevc.OBJ)
    obs = []
    labels = {}
    unsupported = [p.outcome[1] for p in paths if p.outcome[0] == 'unsupported']
    if unsupported:
        return [Ob(id=f'C06/tracker/{method}/subset', status=oblig.UNDECIDED, function=fid, solver_output='outside the subset: ' + unsupported[0])]
    for p in paths:
        obligs = list(getattr(p, 'obligations', []))
        if not getattr(p, 'iteration_only', False):
            it = p.interp
            for label, goal in spec.post(it, p.pre['self'], p.post_self, p.outcome, p.pre['info']):
                obligs.append((f'post/{label}', list(p.conds) + list(p.facts), goal))
        if p.outcome[0] == 'raise' and isinstance(p.outcome[1], AttributeError):
            # an attribute the contract's abstract view does not know: outside the contract, decided only by the native search
            obligs = [(f'post/attribute-outside-the-contract-view', [], z3.BoolVal(False))]
            outside = True
        else:
            outside = False
        for label, st, model, be, secs, txt, goal in corevc.discharge(obligs):
            if outside:
                st, txt = 'undecided', f'the method touches an attribute that is not part of the contract view: {p.outcome[1]}'
            cur = labels.setdefault(label, {'st': 'discharged', 'n': 0, 'secs': 0.0, 'be': be, 'txt': '', 'goal': str(goal)[:300], 'model': None})
            cur['n'] += 1
            cur['secs'] += secs
            if st != 'discharged' and cur['st'] == 'discharged' or st == 'refuted':
                cur.update(st=st, txt=txt, model=model, be=be)
    if not labels:
        return [Ob(id=f'C06/tracker/{method}/vacuous', status=oblig.ERROR, function=fid, solver_output='no obligation generated')]
    native = None
    for label, c in labels.items():
        oid = f'C06/tracker/{method}/{label}'
        if c['st'] == 'discharged':
            obs.append(Ob(id=oid, backend=c['be'], function=fid, time_s=c['secs'], clause=f'{method}: {label}', vc=c['goal'] + f'  [{c["n"]} path instance(s)]'))
        else:
            if native is None:
                native = tr.native_check(method) or {}
            rep = {'reproduced': bool(native), 'native_counterexample': native or None,
                   'note': 'concretisation search over small real tracker states (<=2 keys, lists <=2)'}
            # proof mode did not discharge it: refutation mode = concretisation search on the real class
            obs.append(Ob(id=oid, status=oblig.REFUTED if (c['st'] == 'refuted' or native) else oblig.UNDECIDED, backend=c['be'], function=fid,
                          clause=f'NOT: {method}: {label}', vc=c['goal'], solver_output=c['txt'], witness={'model': c['model']}, replay=rep,
                          replay_spec={'kind': 'tracker', 'method': method}))
    return obs


def run(tier, seed, t0):
    tr = load('tracker')
    tasks = [Task(f'C06/tracker/{m}', tracker_method, m, weight=10 if m == 'met_dependents' else 1) for m in tr.METHODS]
    from . import solver_props as sp
    tasks.append(Task('C06/bounded-work', bounded_work, tier, seed, weight=3))
    obs = sp.gather('C06', tier, seed, tasks)
    return oblig.finish('C06', tier, seed, obs, t0,
                        functions=[f'solver.py:DependencyTracker.{m}' for m in tr.METHODS] + ['solver.py:Solver.solve', 'solver.py:Solver._attempt_field', 'solver.py:Solver._attempt_input'],
                        trusted_base=sp.TRUST,
                        assumptions=sp.ASSUME + ['termination of solve(): discharged are (1) every iteration of the main loop does a unit of work, (2) evaluations of a line = waits it registered + declarations loaded for it + 1 if it is done, each wait / declaration distinct, (3) an input is asked only while not supplied and not refused, (4) the drain generator terminates (variant); what is NOT discharged is the step from these to termination, which needs the catalogue of lines and inputs to be finite (A-FIN: a year lists finitely many forms; numbered copies are bounded by the number_<form> answers) - the bounded stand-in checks termination natively',
                                                 '"each missing input is asked at most once" follows from the discharged prompt-site obligations (asked only while not refused and not yet supplied; an answer makes it supplied, a refusal sets the refusal flag, neither is ever undone)'],
                        checker_cmd='./check C06', min_obligations=60)


def bounded_work(tier, seed):
    """Bounded stand-in (never counted as proved): toy form programs on the real solver;
    termination within budget, evaluations <= 1 + distinct last reads + distinct foreign-form inputs among them, each input asked at most once."""
    from .. import toyforms
    n = 300 if tier == 'quick' else 5000
    found = toyforms.search('C06', seed, n)
    cases = sum(1 for _ in toyforms.scenarios(seed, n))
    if found:
        return [Ob(id='C06/bounded/work-and-termination', status=oblig.REFUTED, backend='native', bounded=True, cases=cases, function='solver.py:Solver.solve',
                   clause=found['violated'], witness={k: found[k] for k in ('program', 'requested', 'provided', 'answers', 'refuse_after')},
                   replay={'reproduced': True, 'native_counterexample': found}, replay_spec={'kind': 'toy', 'prop': 'C06', 'scenario': {k: found[k] for k in ('program', 'requested', 'provided', 'answers', 'refuse_after')}})]
    return [Ob(id='C06/bounded/work-and-termination', backend='native', bounded=True, cases=cases, function='solver.py:Solver.solve',
               note=f'{cases} toy scenarios (fixed programs incl. cycles, cross-form double references, unknown form + {n} seeded random programs x 5 input/prompt/refusal patterns): all terminate, evaluations <= 1 + distinct last reads (+1 per foreign-form input among them), no input asked twice')]
