"""C03 - solver-level obligations (see solver_props.SELECT and contracts/core/solver.py)."""
from .. import base, oblig
from . import solver_props as sp

FUNCS = ['solver.py:Solver.solve', 'solver.py:Solver._attempt_field', 'solver.py:Solver._attempt_input', 'solver.py:Solver._add_form', 'solver.py:Solver._add_input_spec',
         'solver.py:Solver._add_unattempted', 'solver.py:DependencyTracker.add_unmet/meet/has_met/has_unmet/unmet_dependencies/unmet_dependents (inlined)',
         'solver.py:DependencyTracker.met_dependents (by its verified contract)', 'values.py:ValueStore.__setitem__', '__init__.py:solve']


def helper_frames():
    """A stored value stays what its line computes only if the helpers a line may call keep no state between calls: the
    helper-purity frames of C05 belong to the fixed-point claim as well."""
    from . import c05
    out = []
    for o in c05.helper_purity():
        o.id = o.id.replace('C05/', 'C03/')
        out.append(o)
    return out


def extra_tasks(tier, seed):
    from ..oblig import Task
    return [Task('helpers', helper_frames)]


def run(tier, seed, t0):
    obs = sp.gather('C03', tier, seed, extra_tasks(tier, seed))
    return oblig.finish('C03', tier, seed, obs, t0, functions=FUNCS, trusted_base=sp.TRUST, assumptions=sp.ASSUME, checker_cmd='./check C03', min_obligations=15)
