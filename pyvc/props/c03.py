"""C03 - solver-level obligations (see solver_props.SELECT and contracts/core/solver.py)."""
from .. import base, oblig
from . import solver_props as sp

FUNCS = ['solver.py:Solver.solve', 'solver.py:Solver._attempt_field', 'solver.py:Solver._attempt_input', 'solver.py:Solver._add_form', 'solver.py:Solver._add_input_spec',
         'solver.py:Solver._add_unattempted', 'solver.py:DependencyTracker.add_unmet/meet/has_met/has_unmet/unmet_dependencies/unmet_dependents (inlined)',
         'solver.py:DependencyTracker.met_dependents (by its verified contract)', 'values.py:ValueStore.__setitem__', '__init__.py:solve', 'fields.py:TypedField.value', 'fields.py:FloatField.value']


def helper_frames():
    """A stored value stays what its line computes only if the helpers a line may call keep no state between calls: the
    helper-purity frames of C05 belong to the fixed-point claim as well."""
    from . import c05
    out = []
    for o in c05.helper_purity():
        o.id = o.id.replace('C05/', 'C03/')
        out.append(o)
    return out


def field_value_units():
    """The value the solver stores for a line is FieldType.value(definition(...)); the solution that is returned and written
    shows that stored value through to_string.  "Equals what the definition yields against the other values of the same
    solution" therefore rests on the value() contracts of C12 (a float line is stored rounded to exactly the places it is
    shown with, so no line is computed from hidden cents the solution does not show)."""
    from . import c12
    out = []
    for o in c12.field_contracts():
        o.id = o.id.replace('C12/', 'C03/')
        out.append(o)
    return out


def line_frames(year):
    """... and only if the lines themselves are pure readers that see the stores by key only (a missing key aborts and parks the line;
    iterating over an accessor would compute from whatever is loaded at that moment): the per-line frames of C05, one obligation per
    line that fails them, one summary obligation per year otherwise."""
    from . import c05
    obs = c05.purity(year)
    bad = [o for o in obs if o.status != oblig.DISCHARGED]
    for o in bad:
        o.id = o.id.replace('C05/', 'C03/')
    if bad:
        return bad
    return [oblig.Ob(id=f'C03/{year}/pure/all-lines', backend='ast-scan', function=f'every line definition of {year}',
                     clause='every line and the helpers it calls only read i / v by key, store nothing outside locals and iterate over no hash-ordered set', vc=f'{len(obs)} line(s)')]


def extra_tasks(tier, seed):
    from ..oblig import Task
    from .. import extract
    return [Task('helpers', helper_frames), Task('fieldvalue', field_value_units, weight=5)] + [Task(f'lineframes/{y}', line_frames, y, weight=3) for y in extract.YEARS]


def run(tier, seed, t0):
    obs = sp.gather('C03', tier, seed, extra_tasks(tier, seed))
    return oblig.finish('C03', tier, seed, obs, t0, functions=FUNCS, trusted_base=sp.TRUST, assumptions=sp.ASSUME, checker_cmd='./check C03', min_obligations=15)
