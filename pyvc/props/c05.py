"""C05 - the result depends only on year, requested forms and input values.

Layer 1  every solver guarantee (C01/C03/C04 invariants and exit postconditions) is proved over multiset views,
         i.e. for every attempt / drain / prompt order (A-BAG) - the obligations are re-discharged here;
Layer 2  uniqueness lemma, mechanised in core Lean 4 (lemmas/StableState.lean): two states satisfying the exit
         postconditions for the same program, requested lines and inputs are equal; each hypothesis of the lemma
         is tied to discharged solver obligations;
Layer 3  frames: every shipped line is a pure reader (whitelisted calls, no stores outside locals); the solver uses
         sort_keys only as a sort key; InputStore touches the configuration only through keyed access and stores
         an answer as exactly the text given (so file and prompt are indistinguishable to lines); accessor contracts.
"""
import ast
import os
import subprocess
import time

import z3

from .. import base, corevc, extract, linevc, oblig, smt, sym
from ..corevc import AObj, Opaque, SV, ZMap, fresh, OBJ
from ..oblig import Ob, Task
from . import solver_props as sp
from . import small_units

# hypothesis of the Lean lemma -> solver obligations (normalised label fragments) it abstracts
LEMMA_HYPS = {
    'valOk': ['stored-value-is-the-evaluation-result', 'evaluated-against-the-current-input-and-value-stores', 'values-only-grow', 'inputs-only-grow'],
    'valTs': ['wait-on-field-is-justified', 'met-fields-have-values', 'a-computed-line-is-announced-as-met'],
    'valDom': ['no-lost-line', 'success-means-every-scheduled-line-has-a-value', 'success-means-no-waiting-line', 'success-means-nothing-unimplemented'],
    'valIn': ['queue-holds-scheduled-lines', 'field-waiters-are-scheduled-lines', 'input-waiters-are-scheduled-lines', 'released-are-scheduled-lines'],
    'closed': ['the-demanded-line-is-scheduled', 'scheduled-lines-are-known'],
    'roots': ['schedules-exactly-the-required-lines', 'required-lines-of-loaded-forms-are-scheduled'],
    'minimal': ['schedules-only-the-demanded-line-and-required-lines-of-its-new-form', 'queues-only-scheduled-lines', 'input-only/schedules-nothing'],
}

# the reported diagnostics (unimplemented lines, what each unsolved line waits on) record the outcome of the line's own evaluation,
# whatever was attempted before it: postconditions of _attempt_field
DIAGNOSTIC_POSTS = ('recorded-unimplemented-iff-its-own-evaluation-reports-not-implemented', 'a-line-lacking-line-d-is-parked-on-d', 'a-line-lacking-an-input-is-parked-on-it')


def lean_lemma():
    path = os.path.join(oblig.VERIF, 'lemmas', 'StableState.lean')
    t0 = time.time()
    src = open(path).read()
    code = '\n'.join(l for l in src.split('\n') if not l.strip().startswith('--'))
    bad_words = [w for w in ('sorry', 'admit', 'axiom ', 'unsafe ', 'native_decide') if w in code.split('/-')[0] or w in ''.join(code.split('-/')[1:])]
    try:
        r = subprocess.run(['lean', path], capture_output=True, text=True, timeout=600)
        out = (r.stdout + r.stderr).strip()
        rc = r.returncode
    except Exception as ex:
        out, rc = f'{type(ex).__name__}: {ex}', 99
    axioms_ok = "'unique' depends on axioms" not in out or all(a.strip() in ('propext', 'Classical.choice', 'Quot.sound') for a in out.split('[')[-1].split(']')[0].split(','))
    ok = rc == 0 and not bad_words and 'error' not in out and axioms_ok
    obs = []
    for thm, text in (('run_agree', 'walk agreement'), ('reads_in', 'reads of an agreeing walk are scheduled in the other state'), ('values_agree', 'values agree on commonly scheduled lines (induction on store time)'),
                      ('reach_both', 'reachable lines are scheduled in both states'), ('unique', 'two stable states for the same program, requested lines and inputs are equal')):
        present = f'theorem {thm}' in src
        if ok and present:
            obs.append(Ob(id=f'C05/lemma/StableState.{thm}', backend='lean', function='lemmas/StableState.lean', time_s=(time.time() - t0) / 5, clause=text, vc=f'lean 4 core, no sorry; {out[:120]}'))
        else:
            obs.append(Ob(id=f'C05/lemma/StableState.{thm}', status=oblig.ERROR if rc == 99 else oblig.UNDECIDED, backend='lean', function='lemmas/StableState.lean', solver_output=(out or str(bad_words))[:600]))
    return obs


PURE_CALLS = {'range', 'sum', 'min', 'max', 'float', 'int', 'str', 'round', 'ceil', 'len', 'list', 'abs', 'bool', 'sorted', 'isinstance', 'tuple', 'set', 'enumerate', 'zip', 'any', 'all',
              'figure_tax', 'figure_tax_table', 'figure_tax_worksheet'}
PURE_METHODS = {'not_implemented', 'upper', 'lower', 'strip', 'join', 'threshold', 'form', 'instance', 'append', 'replace', 'split', 'format', 'get', 'name', 'base_name', 'startswith', 'endswith',
                'enum', 'keys', 'values', 'items', 'extend'}


def purity(year):
    obs = []
    cat = linevc.Cat.get(year)
    seen = {}
    for form, fld in extract.all_lines(year):
        fn = extract.line_function(fld)
        key = (fn.__code__.co_filename, fn.__code__.co_firstlineno, fn.__code__.co_name)
        name = fld.name()
        problems, hashsets = [], []
        stack, done = [fn], set()
        while stack:
            f = stack.pop()
            if id(f) in done:
                continue
            done.add(id(f))
            try:
                node = extract.func_ast(f)
            except Exception as ex:
                problems.append(f'no source for {f}')
                continue
            params = {a.arg for a in node.args.args}
            problems.extend(accessor_misuse(node, f is fn))
            for n in ast.walk(node):
                if isinstance(n, (ast.For, ast.comprehension)) or (isinstance(n, ast.Call) and isinstance(n.func, ast.Name) and n.func.id in ORDER_CONSUMERS
                                                                    or isinstance(n, ast.Call) and isinstance(n.func, ast.Attribute) and n.func.attr == 'join'):
                    # the order in which a line reads v[...] decides which missing line it is parked on (a reported diagnostic) and
                    # which optional lines get scheduled: it must not follow the interpreter's per-process string hash seed
                    its = [n.iter] if isinstance(n, (ast.For, ast.comprehension)) else list(n.args[:1])
                    for itx in its:
                        if hash_ordered(f, itx):
                            hashsets.append(ast.unparse(itx))
                            problems.append(f'iteration over a set at line {itx.lineno}: the order of its reads follows the interpreter hash seed')
                if isinstance(n, (ast.Global, ast.Nonlocal)):
                    problems.append(f'{type(n).__name__.lower()} statement at line {n.lineno}')
                elif isinstance(n, (ast.Assign, ast.AugAssign, ast.AnnAssign)):
                    tg = n.targets if isinstance(n, ast.Assign) else [n.target]
                    for t in tg:
                        for e in ast.walk(t):
                            if isinstance(e, ast.Attribute):
                                problems.append(f'attribute store .{e.attr} at line {n.lineno}')
                            if isinstance(e, ast.Subscript) and isinstance(e.value, ast.Name) and e.value.id in ('i', 'v', 's', 'self'):
                                problems.append(f'store into {e.value.id}[...] at line {n.lineno}')
                elif isinstance(n, (ast.Import, ast.ImportFrom, ast.With, ast.Try, ast.While, ast.Yield, ast.YieldFrom, ast.Await, ast.Delete)):
                    problems.append(f'{type(n).__name__} at line {n.lineno}')
                elif isinstance(n, ast.Call):
                    fu = n.func
                    if isinstance(fu, ast.Name):
                        ok, obj = extract.resolve_name(f, fu.id)
                        import types
                        if ok and isinstance(obj, types.FunctionType) and obj.__code__.co_filename.startswith(extract.REPO):
                            stack.append(obj)
                        elif fu.id not in PURE_CALLS and fu.id not in params:
                            problems.append(f'call of {fu.id}() at line {n.lineno} (not in the pure whitelist)')
                    elif isinstance(fu, ast.Attribute):
                        if fu.attr not in PURE_METHODS:
                            problems.append(f'call of .{fu.attr}() at line {n.lineno} (not in the pure whitelist)')
                    else:
                        problems.append(f'computed call at line {n.lineno}')
        fid = f'{fn.__code__.co_filename.split("habutax/")[-1]}:{fn.__code__.co_firstlineno}'
        oid = f'C05/{year}/pure/{name}'
        if not problems:
            obs.append(Ob(id=oid, backend='ast-scan', function=fid, clause='the line and the helpers it calls only read i / v / closure constants: no store outside locals, no global/nonlocal, only whitelisted pure calls',
                          vc=f'{len(done)} function(s) scanned'))
        else:
            obs.append(Ob(id=oid, status=oblig.REFUTED, backend='ast-scan', function=fid, clause=f'{name} is not a pure reader: ' + '; '.join(sorted(set(problems))[:3]),
                          witness={'problems': sorted(set(problems))[:6]}, replay=native_hash_order(hashsets) if hashsets else {'reproduced': True, 'static': True}))
    return obs


ORDER_CONSUMERS = ('sum', 'list', 'tuple', 'enumerate', 'zip', 'map', 'filter', 'iter', 'next', 'reversed')


def accessor_misuse(node, is_line):
    """A line sees its inputs and the other lines only through keyed reads i[...] / v[...]: a missing key aborts the attempt and parks
    the line.  Iterating over an accessor, asking its length, membership or .get()/.items()/.keys()/.values() shows whatever happens
    to be loaded at that moment - a partial view that depends on the order of attempts and never raises."""
    args = [a.arg for a in node.args.args]
    if isinstance(node, ast.Lambda) or is_line:
        acc = set(args[1:3]) if len(args) >= 3 else set()
    else:
        acc = {a for a in args if a in ('i', 'v', 'inputs', 'values')}
    out = []
    if not acc:
        return out
    for n in ast.walk(node):
        if isinstance(n, ast.Call) and isinstance(n.func, ast.Attribute) and isinstance(n.func.value, ast.Name) and n.func.value.id in acc \
                and n.func.attr in ('items', 'keys', 'values', 'get', '__iter__', '__len__', '__contains__'):
            out.append(f'{n.func.value.id}.{n.func.attr}() at line {n.lineno}: the accessor is read other than by key')
        if isinstance(n, (ast.For, ast.comprehension)) and isinstance(n.iter, ast.Name) and n.iter.id in acc:
            out.append(f'iteration over the accessor {n.iter.id} at line {n.iter.lineno}')
        if isinstance(n, ast.Call) and isinstance(n.func, ast.Name) and n.func.id in ('len', 'list', 'dict', 'sorted', 'set', 'tuple', 'iter') and n.args \
                and isinstance(n.args[0], ast.Name) and n.args[0].id in acc:
            out.append(f'{n.func.id}({n.args[0].id}) at line {n.lineno}: the accessor is read other than by key')
        if isinstance(n, ast.Compare) and any(isinstance(o, (ast.In, ast.NotIn)) for o in n.ops) and any(isinstance(c, ast.Name) and c.id in acc for c in n.comparators):
            out.append(f'membership test on an accessor at line {n.lineno}')
    return out


def hash_ordered(f, e):
    """e evaluates to a set whose iteration order is not fixed by the program text (elements other than numbers)."""
    if isinstance(e, ast.Set):
        return len(e.elts) > 1 and not all(isinstance(x, ast.Constant) and isinstance(x.value, (int, float, bool)) for x in e.elts)
    if isinstance(e, ast.SetComp):
        return True
    if isinstance(e, ast.Call) and isinstance(e.func, ast.Name) and e.func.id in ('set', 'frozenset') and e.args:
        return True
    if isinstance(e, ast.BinOp) and isinstance(e.op, (ast.BitOr, ast.BitAnd, ast.Sub, ast.BitXor)):
        return hash_ordered(f, e.left) or hash_ordered(f, e.right)
    if isinstance(e, ast.Name):
        ok, obj = extract.resolve_name(f, e.id)
        return bool(ok and isinstance(obj, (set, frozenset)) and len(obj) > 1 and not all(isinstance(x, (int, float, bool)) for x in obj))
    return False


def native_hash_order(exprs):
    """Concretisation: the iteration order of the set expression in fresh interpreters with different hash seeds."""
    import sys
    runs = {}
    for src in exprs[:2]:
        orders = set()
        for seed in range(8):
            try:
                r = subprocess.run([sys.executable, '-c', f'print(list({src}))'], capture_output=True, text=True, timeout=20, env=dict(os.environ, PYTHONHASHSEED=str(seed)))
            except Exception:
                continue
            if r.returncode == 0:
                orders.add(r.stdout.strip())
        runs[src] = sorted(orders)[:4]
    return {'reproduced': any(len(v) > 1 for v in runs.values()), 'kind': 'hash-order', 'orders_seen_under_8_hash_seeds': runs}


def helper_purity():
    """The repository methods that line definitions may call (whitelisted by name in PURE_METHODS) are themselves pure readers:
    no store to an attribute, to a class / module level container or to their arguments, no global / nonlocal.  (A memo in
    Form.threshold shared by all forms of the process would make a line's value depend on what was solved before.)"""
    from habutax import form as Fm, fields as Fl
    obs = []
    targets = [(Fm.Form, 'threshold'), (Fl.Field, 'form'), (Fm.Form, 'instance'), (Fm.Form, 'name'), (Fl.Field, 'not_implemented'), (Fl.Field, 'name'), (Fl.Field, 'base_name')]
    for cls, meth in targets:
        fn = cls.__dict__.get(meth)
        oid = f'C05/frames/helper/{cls.__name__}.{meth}'
        if fn is None:
            continue
        try:
            node = extract.func_ast(fn)
        except Exception as ex:
            obs.append(Ob(id=oid, status=oblig.UNDECIDED, backend='ast-scan', function=f'{cls.__module__.split(".")[-1]}.py:{cls.__name__}.{meth}', solver_output=f'no source: {ex}'))
            continue
        problems = []
        local = {a.arg for a in node.args.args} - {'self', 'cls'}
        assigned = {t.id for n in ast.walk(node) if isinstance(n, (ast.Assign, ast.AugAssign, ast.AnnAssign, ast.For))
                    for t in ast.walk(n.targets[0] if isinstance(n, ast.Assign) else n.target) if isinstance(t, ast.Name)}
        for n in ast.walk(node):
            if isinstance(n, (ast.Global, ast.Nonlocal)):
                problems.append(f'{type(n).__name__.lower()} statement at line {n.lineno}')
            elif isinstance(n, (ast.Assign, ast.AugAssign, ast.AnnAssign)):
                tg = n.targets if isinstance(n, ast.Assign) else [n.target]
                for t in tg:
                    for e in ast.walk(t):
                        if isinstance(e, ast.Attribute):
                            problems.append(f'store through attribute .{e.attr} at line {n.lineno}')
                        if isinstance(e, ast.Subscript) and isinstance(e.value, ast.Name) and e.value.id not in assigned:
                            problems.append(f'store into {e.value.id}[...] (not a local) at line {n.lineno}')
            elif isinstance(n, ast.Call) and isinstance(n.func, ast.Attribute) and n.func.attr in ('append', 'extend', 'update', 'setdefault', 'add', 'pop', 'clear', 'insert', 'remove', '__setitem__', '__setattr__') \
                    and not (isinstance(n.func.value, ast.Name) and n.func.value.id in assigned):
                problems.append(f'mutating call .{n.func.attr}() on a non-local at line {n.lineno}')
            elif isinstance(n, ast.Call) and isinstance(n.func, ast.Name) and n.func.id in ('setattr', 'delattr'):
                problems.append(f'{n.func.id}() at line {n.lineno}')
        fid = f'{cls.__module__.split(".")[-1]}.py:{cls.__name__}.{meth}'
        if not problems:
            obs.append(Ob(id=oid, backend='ast-scan', function=fid, clause=f'{cls.__name__}.{meth}() (callable from line definitions) writes nothing that outlives the call', vc='AST of the method'))
        else:
            obs.append(Ob(id=oid, status=oblig.REFUTED, backend='ast-scan', function=fid, clause=f'{cls.__name__}.{meth}() is not a pure reader: ' + '; '.join(sorted(set(problems))[:3]),
                          witness={'problems': sorted(set(problems))[:6]}, replay={'reproduced': True, 'static': True}))
    return obs


def store_units_c05():
    """File and prompt are indistinguishable to lines only if InputStore answers "supplied?" and "which text?" as a function of the
    parsed file alone (own section or [DEFAULT]) and a stored answer changes no other input: the InputStore units."""
    from . import store_units
    out = []
    for o in store_units.store_provides() + store_units.store_getitem() + store_units.store_setitem():
        o.id = o.id.replace('C11/', 'C05/store/')
        out.append(o)
    return out


def hash_order_frames():
    """No function of the solver-side modules iterates over a hash-ordered set: their effects (attempt order aside, which the
    invariants abstract) must not follow the interpreter's per-process string hash seed.  Sets used for membership only are fine."""
    import habutax
    from habutax import solver, values, inputs, form, fields, enum
    obs = []
    for mod in (solver, values, inputs, form, fields, enum, habutax):
        tree = ast.parse(open(mod.__file__).read())
        problems, exprs = [], []
        for fn in [n for n in ast.walk(tree) if isinstance(n, (ast.FunctionDef, ast.Lambda))]:
            setnames = set()
            for n in ast.walk(fn):
                if isinstance(n, ast.Assign) and len(n.targets) == 1 and isinstance(n.targets[0], ast.Name) and _set_expr(n.value, setnames, mod):
                    setnames.add(n.targets[0].id)
            for n in ast.walk(fn):
                its = []
                if isinstance(n, (ast.For, ast.comprehension)):
                    its = [n.iter]
                elif isinstance(n, ast.Call) and ((isinstance(n.func, ast.Name) and n.func.id in ORDER_CONSUMERS) or (isinstance(n.func, ast.Attribute) and n.func.attr in ('join', 'extend'))):
                    its = list(n.args[:1])
                for itx in its:
                    if _set_expr(itx, setnames, mod):
                        problems.append(f'{getattr(fn, "name", "lambda")}: iteration over the set {ast.unparse(itx)} at line {itx.lineno}')
                        exprs.append(ast.unparse(itx))
        name = os.path.basename(mod.__file__) if mod is not habutax else '__init__.py'
        oid = f'C05/frames/no-hash-ordered-iteration/{name}'
        clause = 'no loop, comprehension or sequence constructor runs over a set (iteration order of a set of texts follows the interpreter hash seed, not the inputs)'
        if not problems:
            obs.append(Ob(id=oid, backend='ast-scan', function=name, clause=clause, vc='every function of the module'))
        else:
            obs.append(Ob(id=oid, status=oblig.REFUTED, backend='ast-scan', function=name, clause='NOT: ' + clause + ': ' + '; '.join(problems[:3]), witness={'problems': problems[:6]},
                          replay={'reproduced': True, 'static': True}))
    return obs


def _set_expr(e, setnames, mod):
    if isinstance(e, (ast.Set, ast.SetComp)):
        return not (isinstance(e, ast.Set) and (len(e.elts) < 2 or all(isinstance(x, ast.Constant) and isinstance(x.value, (int, float, bool)) for x in e.elts)))
    if isinstance(e, ast.Call) and isinstance(e.func, ast.Name) and e.func.id in ('set', 'frozenset'):
        return True
    if isinstance(e, ast.BinOp) and isinstance(e.op, (ast.BitOr, ast.BitAnd, ast.Sub, ast.BitXor)):
        return _set_expr(e.left, setnames, mod) or _set_expr(e.right, setnames, mod)
    if isinstance(e, ast.Call) and isinstance(e.func, ast.Attribute) and e.func.attr in ('union', 'intersection', 'difference', 'symmetric_difference') and _set_expr(e.func.value, setnames, mod):
        return True
    if isinstance(e, ast.Name):
        if e.id in setnames:
            return True
        obj = getattr(mod, e.id, None)
        return isinstance(obj, (set, frozenset)) and len(obj) > 1
    return False


def solver_order_frames():
    """sort_keys is used only as a sort key; InputStore reaches its config only through keyed access."""
    from habutax import solver, inputs
    obs = []
    src = open(solver.__file__).read()
    tree = ast.parse(src)
    bad = []
    for n in ast.walk(tree):
        if isinstance(n, ast.Name) and n.id == 'sort_keys' and isinstance(n.ctx, ast.Load):
            bad.append(n)
    uses = []
    for n in ast.walk(tree):
        if isinstance(n, ast.keyword) and n.arg == 'key' and isinstance(n.value, ast.Name) and n.value.id == 'sort_keys':
            uses.append(n.value)
    other = [b for b in bad if not any(b is u for u in uses)]
    ok = len(other) == 0 and len(uses) >= 3
    obs.append(Ob(id='C05/frames/sort_keys-only-as-sort-key', status=oblig.DISCHARGED if ok else oblig.REFUTED, backend='ast-scan', function='solver.py',
                  clause='the natural-order function is referenced only as key= of sort()/sorted(), so it can influence nothing but the order of attempts (which the invariants abstract)',
                  vc=f'{len(uses)} uses', witness=None if ok else {'other_uses_at_lines': [b.lineno for b in other]}, replay=None if ok else {'reproduced': True, 'static': True}))
    isrc = open(inputs.__file__).read()
    itree = ast.parse(isrc)
    allowed = {'has_option', 'get', 'set', 'add_section', 'sections', 'write', 'read_file', 'remove_option', 'remove_section', 'defaults'}
    problems = []
    for cls in [n for n in itree.body if isinstance(n, ast.ClassDef) and n.name == 'InputStore']:
        for fn in [n for n in cls.body if isinstance(n, ast.FunctionDef)]:
            parent = {}
            for n in ast.walk(fn):
                for c in ast.iter_child_nodes(n):
                    parent[c] = n
            for n in ast.walk(fn):
                # self.config.defaults() is a mapping: only keyed uses (k in defaults(), defaults().get(k)) are order-independent
                if isinstance(n, ast.Call) and isinstance(n.func, ast.Attribute) and n.func.attr == 'defaults' and isinstance(n.func.value, ast.Attribute) and n.func.value.attr == 'config':
                    up = parent.get(n)
                    keyed = (isinstance(up, ast.Compare) and n in up.comparators and all(isinstance(o, (ast.In, ast.NotIn)) for o in up.ops)) or \
                            (isinstance(up, ast.Attribute) and up.attr == 'get' and isinstance(parent.get(up), ast.Call))
                    if not keyed:
                        problems.append(f'{fn.name}: self.config.defaults() used other than by key')
                if isinstance(n, ast.Attribute) and isinstance(n.value, ast.Attribute) and n.value.attr == 'config' and isinstance(n.value.value, ast.Name) and n.value.value.id == 'self':
                    if n.attr not in allowed:
                        problems.append(f'{fn.name}: self.config.{n.attr}')
                if isinstance(n, (ast.For, ast.comprehension)) and fn.name not in ('__iter__', '__len__', '__delitem__'):
                    it = n.iter
                    if any(isinstance(e, ast.Attribute) and e.attr == 'config' for e in ast.walk(it)):
                        problems.append(f'{fn.name}: iterates over the configuration')
                if isinstance(n, ast.Subscript) and fn.name not in ('__delitem__', '__iter__', '__len__') and any(isinstance(e, ast.Attribute) and e.attr == 'config' for e in ast.walk(n.value)):
                    problems.append(f'{fn.name}: subscripts the configuration')
    ok = not problems
    obs.append(Ob(id='C05/frames/InputStore-keyed-access-only', status=oblig.DISCHARGED if ok else oblig.REFUTED, backend='ast-scan', function='inputs.py:InputStore',
                  clause='the methods the solver uses reach the configuration only through has_option/get/set/add_section/sections/write/read_file and keyed lookups in defaults() - never iterate it - so by A-CFG results are a function of the parsed map (invariant under reordering sections and keys in the file)',
                  vc='AST of class InputStore', witness=None if ok else {'problems': problems[:5]}, replay=None if ok else {'reproduced': True, 'static': True}))
    return obs


class SetSpec(corevc.Spec):
    views = {('InputStore', 'input_specs'): corevc.View('map', z3.StringSort(), OBJ)}

    def sym_attr_call(self, it, obj, attr, args, node):
        STR = z3.StringSort()
        if obj.t.sort() == OBJ:
            if attr == 'section' and not args:
                return SV('str', z3.Function('section_of', OBJ, STR)(obj.t))
            if attr == 'base_name' and not args:
                return SV('str', z3.Function('base_name_of', OBJ, STR)(obj.t))
            if attr in ('value', 'valid'):
                it.ghost.setdefault('other', []).append(attr)
                return SV('obj', fresh('converted', OBJ))
        return NotImplemented

    def opaque_call(self, it, obj, attr, args, kwargs, node):
        log = it.ghost.setdefault('log', [])
        if obj.kind == 'config':
            if attr == 'sections':
                return SectionList()
            if attr == 'add_section':
                log.append(('add_section', args[0]))
                return None
            if attr == 'set':
                log.append(('set', args[0], args[1], args[2]))
                return None
        raise sym.Unsupported(f'{obj.kind}.{attr}')


class SectionList(corevc.Abstract):
    def sym_contains(self, it, x, node):
        return SV('bool', fresh('section_exists', z3.BoolSort()))


def store_setitem():
    from habutax import inputs
    STR = z3.StringSort()
    spec = SetSpec()
    key, val = z3.String('key'), z3.String('typed_text')

    def make_state(it):
        specs = ZMap.havoc(STR, OBJ, 'input_specs')
        it.ghost['specs'] = specs
        me = AObj(inputs.InputStore, {'input_specs': specs, 'config': Opaque(fresh('config', OBJ), 'config')}, name='store')
        return [me, SV('str', key), SV('str', val)], {}
    paths = corevc.run_function(inputs.InputStore.__setitem__, make_state, spec)
    bad, n = None, 0
    for p in paths:
        it = p.interp
        if p.outcome[0] == 'unsupported':
            bad = ('undecided', p.outcome[1])
            break
        specs = it.ghost['specs']
        if p.outcome[0] == 'raise':
            if not (isinstance(p.outcome[1], inputs.MissingInputSpecification) and smt.prove(p.conds + p.facts, z3.Not(specs.has[key]))[0] == 'discharged'):
                bad = ('refuted', f'raises {p.outcome[1]!r}')
            continue
        sets = [e for e in it.ghost.get('log', []) if e[0] == 'set']
        i = specs.val[key]
        ok = len(sets) == 1 and sym.term(sets[0][1]).sexpr() == z3.Function('section_of', OBJ, STR)(i).sexpr() \
            and sym.term(sets[0][2]).sexpr() == z3.Function('base_name_of', OBJ, STR)(i).sexpr() \
            and isinstance(sets[0][3], SV) and sets[0][3].t.sexpr() == val.sexpr()
        if not ok:
            bad = ('refuted', f'stores {[(str(e[1]), str(e[2]), str(e[3])) for e in sets]} instead of exactly the text given under (section, name) of the input')
            break
        n += 1
    clause = 'an answer is stored as exactly the text given, under the section and name of the declared input (what a file holding that text would parse to, A-CFG); undeclared name raises'
    if bad is None and n:
        return [Ob(id='C05/frames/InputStore.__setitem__/stores-exactly-the-text', backend='symexec+z3', function='inputs.py:InputStore.__setitem__', clause=clause, vc=f'{n} path(s)')]
    rep = native_setitem()
    return [Ob(id='C05/frames/InputStore.__setitem__/stores-exactly-the-text', status=oblig.REFUTED if bad and bad[0] == 'refuted' else oblig.UNDECIDED, backend='symexec+z3',
               function='inputs.py:InputStore.__setitem__', clause='NOT: ' + clause, solver_output=(bad or ('', 'vacuous'))[1], witness={'detail': (bad or ('', ''))[1]}, replay=rep)]


def native_setitem():
    import configparser
    from habutax import inputs
    import habutax.enum as E

    class F(object):
        def name(self):
            return 'f'
    runs, bad = [], False
    for inp, text in ((inputs.EnumInput('e', E.taxpayer_or_spouse, allow_empty=True), ''), (inputs.BooleanInput('b'), 'y'), (inputs.FloatInput('x'), '1e2'), (inputs.StringInput('s'), ' a ')):
        inp.__form_init__(F())
        cfg = configparser.ConfigParser()
        st = inputs.InputStore(cfg, {inp.name(): inp})
        try:
            st[inp.name()] = text
            got = cfg.get('f', inp.base_name())
            via_prompt = st[inp.name()]
            cfg2 = configparser.ConfigParser()
            cfg2.add_section('f')
            cfg2.set('f', inp.base_name(), text)
            via_file = inputs.InputStore(cfg2, {inp.name(): inp})[inp.name()]
            ok = got == text and via_prompt == via_file
        except BaseException as ex:
            got, ok = f'raised {type(ex).__name__}', False
        runs.append({'typed': text, 'stored': got})
        bad = bad or not ok
    return {'reproduced': bad, 'runs': runs}


def native_request_order():
    """Concretisation: the real habutax.solve on two toy forms (one solvable, one lacking an input), requested in both orders."""
    from .. import session
    prog = {'a': {'inputs': ['x'], 'lines': {'l': [('in', 'x')]}, 'required': ['l']},
            'b': {'inputs': ['y'], 'lines': {'m': [('in', 'y')]}, 'required': ['m']}}
    runs = {}
    try:
        for order in (['a', 'b'], ['b', 'a']):
            o = session.run_session(prog, order, {'a.x': '1'}, {}, None, None)
            runs[' '.join(order)] = {'solved': o['first']['solved'], 'ended': o['first']['ended']}
    except BaseException as ex:
        return {'reproduced': False, 'error': f'{type(ex).__name__}: {str(ex)[:100]}'}
    vals = list(runs.values())
    return {'reproduced': vals[0] != vals[1], 'kind': 'request-order', 'verdict_by_order_of_requested_forms': runs}


def solver_layer(tier, seed):
    """Layer 1 + the hypotheses of the lemma: the solver obligations, for every order (multiset views)."""
    obs = []
    for u in ('solve', '_attempt_field', '_add_form', '_add_form[input_only]'):
        obs += sp.unit_runner(u)
    wanted = {frag for frs in LEMMA_HYPS.values() for frag in frs}
    keep = []
    # habutax.solve(args): one solve over all requested forms (the CLI layer must not re-introduce an order of requests)
    from . import main_unit
    for o in main_unit.unit_main():
        if o.note == 'C05' or (o.status != oblig.DISCHARGED and o.id.endswith('/subset')):
            o.id = o.id.replace('MAIN/', 'C05/main/')
            if o.status != oblig.DISCHARGED:
                o.replay = native_request_order()
                if o.replay.get('reproduced'):
                    o.status = oblig.REFUTED
            keep.append(o)
    for o in obs:
        if any(f in o.id for f in wanted) or any(f in o.id for f in DIAGNOSTIC_POSTS) or o.status != oblig.DISCHARGED:
            o.id = o.id.replace('SOLVER/', 'C05/solver/')
            keep.append(o)
    found = {f for f in wanted if any(f in o.id and o.status == oblig.DISCHARGED for o in keep)}
    for hyp, frs in LEMMA_HYPS.items():
        missing = [f for f in frs if f not in found]
        if missing:
            keep.append(Ob(id=f'C05/lemma-hypothesis/{hyp}', status=oblig.UNDECIDED, backend='none', function='lemmas/StableState.lean',
                           clause=f'hypothesis {hyp} of the uniqueness lemma rests on solver obligations that are not discharged on this tree', solver_output=f'missing or not discharged: {missing}'))
        else:
            keep.append(Ob(id=f'C05/lemma-hypothesis/{hyp}', backend='z3', function='lemmas/StableState.lean', clause=f'hypothesis {hyp} of the uniqueness lemma: every solver obligation it abstracts is discharged', vc=str(frs)))
    return keep


def run(tier, seed, t0):
    tasks = [Task('lean', lean_lemma), Task('frames', solver_order_frames), Task('hashorder', hash_order_frames), Task('helpers', helper_purity), Task('setitem', store_setitem), Task('store', store_units_c05), Task('small', small_units.all_small), Task('solver', solver_layer, tier, seed, weight=20)]
    tasks += [Task(f'pure/{y}', purity, y, weight=3) for y in extract.YEARS]
    obs = oblig.run_tasks(tasks, jobs=8)
    for o in obs:
        if o.id.startswith('SMALL/'):
            o.id = o.id.replace('SMALL/', 'C05/small/')
    obs = oblig.apply_baseline('C05', obs)
    from . import solver_units as su
    obs = su.finish_with_refutation('C05', obs, lambda o: True, seed, tier)
    return oblig.finish('C05', tier, seed, obs, t0,
                        functions=['lemmas/StableState.lean (unique)', 'solver.py:Solver.solve/_attempt_field/_add_form', 'inputs.py:InputStore.__setitem__', 'inputs.py:InputStore (config access)',
                                   'form.py:FormAccessor.__getitem__', 'values.py:ValueStore.__getitem__/__setitem__', 'every line function (purity scan)'],
                        trusted_base=base.TRUSTED + ['Lean 4.33.0 core (kernel)', 'contracts/core/solver.py'],
                        assumptions=sp.ASSUME + base.assumptions('A-CFG') + [
                            'the link between the Lean hypotheses and the solver obligations (table LEMMA_HYPS) is an informal abstraction step: reader trees stand for pure line definitions (A-PURE, purity scan), ts for the order in which values were stored',
                            'the order of the lists returned by the diagnostic getters and part-way refusals are outside the statement (DESIGN section 5)'],
                        checker_cmd='./check C05', min_obligations=1500)
