"""Role symmetry of the lines that treat the two spouses of a joint return alike (contracts/per_person_lines.json).

For such a line the official instruction describes one computation per person and adds the results (Form 1040 lines 4a / 4b:
"IRA distributions", 5a / 5b: "Pensions and annuities" - each distribution, each person's Form 8606).  The contract: the outcome
of the real line function (returns at all / not implemented / value) is invariant under the role swap

    sigma:  i|F.x_you <-> i|F.x_spouse,   v|G:you.y <-> v|G:spouse.y,   taxpayer_or_spouse.taxpayer <-> .spouse

applied to everything the line reads.  The sums over copies of a numbered form are canonical Sigma functions of the executor;
Sigma_a is paired with Sigma_b when the summand of b is the sigma-image of the summand of a (checked by z3), and
sigma(Sigma_a(t)) = Sigma_b(sigma(t)).  The obligation is discharged by z3 over the line summary; a refutation is concretised
by evaluating the real line on random role-asymmetric environments and their swapped images.
"""
import json
import os
import random
import re
import time

import z3

from .. import extract, linevc, oblig, replay, smt, summary, sym
from ..oblig import Ob


UNPREFIXED = ('first_name', 'last_name')


def per_person_lines():
    with open(os.path.join(oblig.VERIF, 'contracts', 'per_person_lines.json')) as f:
        return json.load(f)


def swap_name(n):
    """'i|1040.ira_exception2_you' <-> '..._spouse', 'v|8606:you.x' <-> 'v|8606:spouse.x' (None when the name has no role)."""
    m = n
    m = re.sub(r':you\.', ':\0.', m)
    m = re.sub(r':spouse\.', ':you.', m)
    m = m.replace(':\0.', ':spouse.')
    m = re.sub(r'_you(?![a-z])', '_\0', m)
    m = re.sub(r'_spouse(?![a-z])', '_you', m)
    m = m.replace('_\0', '_spouse')
    if m == n:
        # Form 1040 names the taxpayer's identity lines you_ssn / first_name / last_name and the spouse's spouse_*
        head, _, b = n.rpartition('.')
        if b.startswith('you_'):
            m = f'{head}.spouse_{b[4:]}'
        elif b.startswith('spouse_') and b[7:] in UNPREFIXED:
            m = f'{head}.{b[7:]}'
        elif b.startswith('spouse_'):
            m = f'{head}.you_{b[7:]}'
        elif b in UNPREFIXED:
            m = f'{head}.spouse_{b}'
    return m if m != n else None


def walk(e, consts, apps, seen):
    if e.get_id() in seen:
        return
    seen.add(e.get_id())
    if z3.is_quantifier(e):
        walk(e.body(), consts, apps, seen)
        return
    if z3.is_app(e):
        d = e.decl()
        if d.kind() == z3.Z3_OP_UNINTERPRETED:
            if e.num_args() == 0:
                consts[d.name()] = e
            else:
                apps.setdefault(d.name(), []).append(e)
        elif d.kind() == z3.Z3_OP_DT_CONSTRUCTOR and e.num_args() == 0:
            consts['#' + d.name().split('.')[-1]] = e
        for c in e.children():
            walk(c, consts, apps, seen)


def sigma_pairs(formulas, facts):
    """-> (list of substitution pairs for constants, dict Sigma name -> partner decl or None, notes)."""
    consts, apps, seen = {}, {}, set()
    for f in list(formulas) + list(facts):
        walk(f, consts, apps, seen)
    pairs = []
    roles = []
    for name, c in consts.items():
        if name.startswith('#'):
            continue
        other = swap_name(name)
        if other is None:
            continue
        partner = consts.get(other)
        if partner is None:
            partner = z3.Const(other, c.sort())      # the line never reads the other person's counterpart: a fresh, unconstrained symbol
        if partner.sort() == c.sort():
            pairs.append((c, partner))
            roles.append(name)
    # the enumeration taxpayer / spouse
    for name, c in consts.items():
        if name.startswith('#') and name[1:] in ('taxpayer', 'spouse'):
            other = consts.get('#spouse' if name[1:] == 'taxpayer' else '#taxpayer')
            if other is None:
                srt = c.sort()
                for k in range(srt.num_constructors()):
                    if srt.constructor(k).name().split('.')[-1] == ('spouse' if name[1:] == 'taxpayer' else 'taxpayer'):
                        other = srt.constructor(k)()
            if other is not None:
                pairs.append((c, other))
    return pairs, roles, apps


def sigma_summands(facts):
    """Sigma decl name -> (decl, index term N, summand term at N-1) from the step facts  N >= 1 => S(N) == S(N-1) + summand."""
    out = {}
    for f in facts:
        if z3.is_quantifier(f) or not z3.is_implies(f):
            continue
        body = f.arg(1)
        if not z3.is_eq(body):
            continue
        lhs, rhs = body.arg(0), body.arg(1)
        if z3.is_app(lhs) and lhs.decl().kind() == z3.Z3_OP_UNINTERPRETED and lhs.decl().name().startswith('Sigma') and lhs.num_args() == 1 \
                and z3.is_add(rhs) and rhs.num_args() == 2:
            out.setdefault(lhs.decl().name(), (lhs.decl(), lhs.arg(0), rhs.arg(1)))
    return out


def apply_sigma(t, pairs, apps, partner_of):
    """Simultaneous substitution; applications of paired Sigma functions are mapped to the partner function of the swapped argument."""
    sub = list(pairs)
    for name, es in apps.items():
        p = partner_of.get(name)
        if p is None:
            continue
        for e in es:
            sub.append((e, p(*[z3.substitute(a, *pairs) for a in e.children()])))
    return z3.substitute(t, *sub)


def role_symmetry(year):
    obs = []
    cat = linevc.Cat.get(year)
    for entry in per_person_lines().get(str(year), []):
        line = entry['line'] if isinstance(entry, dict) else entry
        joint_only = isinstance(entry, dict) and entry.get('on_a_joint_return')
        fld = cat.fields.get(line)
        oid = f'C02/{year}/{line}/treats-both-spouses-alike'
        clause = f'{line} is unchanged when everything it reads about the taxpayer and about the spouse is swapped' + (' (joint return)' if joint_only else '')
        if fld is None:
            obs.append(Ob(id=oid, status=oblig.ERROR, solver_output=f'contracts/per_person_lines.json names {line}, which {year} does not define'))
            continue
        fn = extract.line_function(fld)
        fid = f'{fn.__code__.co_filename.split("habutax/")[-1]}:{fn.__code__.co_firstlineno}'
        t0 = time.time()
        sm = summary.Summary(year, fld, max_paths=3000)
        if sm.unsupported or sm.value() is None:
            rep = native_roles(year, line, joint=bool(joint_only))
            obs.append(Ob(id=oid, status=oblig.REFUTED if rep.get('reproduced') else oblig.UNDECIDED, backend='native' if rep.get('reproduced') else 'none', function=fid,
                          clause='NOT: ' + clause, solver_output='line outside the subset: ' + str((sm.unsupported or ['no summary'])[0]), witness=rep, replay=rep))
            continue
        facts = []
        seenf = set()
        for p in sm.paths:
            for f in p.facts:
                if not z3.is_quantifier(f) and f.get_id() not in seenf:
                    seenf.add(f.get_id())
                    facts.append(f)
        F, R = sm.value(), sm.returns()
        N = z3.Or(*sm.ni) if sm.ni else z3.BoolVal(False)
        pairs, roles, apps = sigma_pairs([F, R, N], facts)
        both = []
        for a, b in pairs:
            both += [(a, b), (b, a)]
        # de-duplicate (a pair found from both ends)
        uniq, seenp = [], set()
        for a, b in both:
            if a.get_id() not in seenp:
                seenp.add(a.get_id())
                uniq.append((a, b))
        summ = sigma_summands(facts)
        partner_of = {}
        for na, (da, ia, sa) in summ.items():
            img = z3.substitute(sa, *uniq)
            for nb, (db, ib, sb) in summ.items():
                if da.range() != db.range():
                    continue
                sb_at = z3.substitute(sb, (ib, ia)) if ib.get_id() != ia.get_id() else sb
                if smt.prove([], img == sb_at, 4000)[0] == 'discharged':
                    partner_of[na] = db
                    break
        if not roles:
            obs.append(Ob(id=oid, status=oblig.ERROR, function=fid, solver_output='the line reads nothing that names a role (list out of date?)'))
            continue
        unpaired = [n for n in summ if n not in partner_of]
        sig = lambda t: apply_sigma(t, uniq, apps, partner_of)
        hyp = facts + [sig(f) for f in facts]
        if joint_only:
            from . import c08
            enum = c08.status_enum(year)
            sort, econsts, none, cls = sym.enum_sort(enum)
            hyp.append(linevc.read_symbol('i', '1040.filing_status', 'enum', enum) == econsts['MarriedFilingJointly'])
        goal = z3.And(R == sig(R), N == sig(N), z3.Implies(R, F == sig(F)))
        st, model, be, secs, txt = smt.prove(hyp, goal, 20000)
        if st == 'discharged' and not unpaired:
            obs.append(Ob(id=oid, backend='z3', function=fid, time_s=time.time() - t0, clause=clause,
                          vc=f'{len(sm.paths)} path(s); {len(roles)} role symbol(s); sums paired: {sorted((a, d.name()) for a, d in partner_of.items())}'))
            continue
        reads = set()
        for p in sm.paths:
            for acc, shown, indexed in p.reads:
                reads.add(f'{acc}|{shown.split(" ")[0]}')
        rep = native_roles(year, line, reads=reads, joint=bool(joint_only))
        refuted = st == 'refuted' or rep.get('reproduced')
        o = Ob(id=oid, status=oblig.REFUTED if refuted else oblig.UNDECIDED, backend='z3', function=fid, clause='NOT: ' + clause,
               solver_output=(str(txt)[:200] + (f' | sums without a counterpart for the other person: {unpaired}' if unpaired else '')),
               witness={'model': {k: v for k, v in list((model or {}).items())[:24]}}, replay=rep)
        if rep.get('reproduced'):
            o.replay_spec = {'kind': 'roles', 'year': year, 'line': line, 'inputs': rep['inputs'], 'values': rep['values']}
        obs.append(o)
    return obs


def native_roles(year, line, samples=300, reads=None, joint=False):
    """Concretisation: the real line on random environments that differ between the two people, and on their role-swapped images."""
    from habutax import enum as E
    cat = linevc.Cat.get(year)
    fld = cat.fields[line]
    fname = line.split('.')[0]
    rnd = random.Random(7)
    # candidate reads: every input of the form and every line of per-person / numbered forms named in the line's source
    src = extract.source_of(extract.line_function(fld)) if hasattr(extract, 'source_of') else ''
    n_copies = 2
    first = None
    pats = None
    if reads:
        # only what the line (or its swapped image) can read: names of the symbolic run, numbered copies 0 and 1
        pats = set()
        for r in reads:
            for k in ('0', '1'):
                nm = r.replace('{n}', k)
                pats.add(nm)
                pats.add(swap_name(nm) or nm)

    def wanted(acc, nm):
        return pats is None or f'{acc}|{nm}' in pats
    for _ in range(samples):
        inputs, values = {}, {}
        for nm, inp in cat.inputs.items():
            if not nm.startswith(fname + '.') or not wanted('i', nm):
                continue
            kind, ecls, opt = linevc.input_kind(inp)
            b = nm.split('.', 1)[1]
            if kind == 'bool':
                inputs[nm] = rnd.random() < 0.35
            elif kind == 'int' and b.startswith('number_'):
                inputs[nm] = n_copies
        for nm, f in cat.fields.items():
            form = nm.split('.')[0]
            if ':' not in form or not wanted('v', nm):
                continue
            kind, ecls, opt = linevc.field_kind(f)
            if form.split(':')[1] in ('you', 'spouse'):
                if kind == 'real':
                    values[nm] = float(rnd.choice([0, 111, 222, 3333]))
                elif kind == 'bool':
                    values[nm] = rnd.random() < 0.5
            elif form.split(':')[1] in ('0', '1'):
                if kind == 'real':
                    values[nm] = float(rnd.choice([0, 1000, 2500]))
                elif kind == 'bool':
                    values[nm] = rnd.random() < 0.6
                elif kind == 'enum' and ecls is E.taxpayer_or_spouse:
                    values[nm] = rnd.choice(list(ecls))
        if joint:
            from . import c08
            inputs['1040.filing_status'] = c08.status_enum(year).MarriedFilingJointly
        sw_in = {(swap_name('i|' + k) or ('i|' + k))[2:]: v for k, v in inputs.items()}
        sw_va = {}
        for k, v in values.items():
            k2 = (swap_name('v|' + k) or ('v|' + k))[2:]
            if isinstance(v, E.taxpayer_or_spouse):
                v = E.taxpayer_or_spouse.spouse if v is E.taxpayer_or_spouse.taxpayer else E.taxpayer_or_spouse.taxpayer
            sw_va[k2] = v
        try:
            r1 = replay.replay_line(year, line, dict(inputs), dict(values))
            r2 = replay.replay_line(year, line, sw_in, sw_va)
        except BaseException as ex:
            continue
        o1 = (r1.get('outcome'), r1.get('value'), r1.get('exc'))
        o2 = (r2.get('outcome'), r2.get('value'), r2.get('exc'))
        if o1 != o2:
            used = lambda d, r: {k: repr(v) for k, v in d.items() if not (isinstance(v, (bool, float)) and not v)}
            first = {'reproduced': True, 'kind': 'roles', 'year': year, 'line': line, 'result': list(o1), 'result_with_roles_swapped': list(o2),
                     'inputs': used(inputs, r1), 'values': used(values, r1)}
            break
    return first or {'reproduced': False, 'kind': 'roles', 'samples': samples}


def copy_symmetry(year):
    """The two copies of a form filed once per person (8606:you / 8606:spouse, 8889:...) compute alike: every line of the spouse's
    copy is the role-swapped image of the same line of the taxpayer's copy (C02 checks the taxpayer's copy against the instruction;
    this carries it over to the spouse's copy, which check_form skips)."""
    obs = []
    cat = linevc.Cat.get(year)
    classes = sorted({n.split(':')[0] for n in cat.forms if n.endswith(':you') and f'{n.split(":")[0]}:spouse' in cat.forms})
    for cls in classes:
        fy, fs = cat.forms[f'{cls}:you'], cat.forms[f'{cls}:spouse']
        ny, ns = {f.base_name() for f in fy.fields()}, {f.base_name() for f in fs.fields()}
        oid0 = f'C02/{year}/{cls}/spouse-copy'
        if ny != ns:
            obs.append(Ob(id=oid0 + '/same-lines', status=oblig.REFUTED, backend='ground-eval', function=cls, clause=f'NOT: {cls}:you and {cls}:spouse define the same lines',
                          witness={'only_on_one_copy': sorted(ny ^ ns)[:8]}, replay={'reproduced': True, 'only_on_one_copy': sorted(ny ^ ns)[:8]}))
            continue
        for b in sorted(ny):
            ly, ls = f'{cls}:you.{b}', f'{cls}:spouse.{b}'
            fn = extract.line_function(cat.fields[ly])
            fid = f'{fn.__code__.co_filename.split("habutax/")[-1]}:{fn.__code__.co_firstlineno}'
            oid = f'{oid0}/{b}'
            clause = f'{ls} is {ly} with the roles of taxpayer and spouse swapped'
            t0 = time.time()
            sy, ss = summary.Summary(year, cat.fields[ly], max_paths=1500), summary.Summary(year, cat.fields[ls], max_paths=1500)
            if sy.unsupported or ss.unsupported:
                obs.append(Ob(id=oid, status=oblig.UNDECIDED, function=fid, solver_output='line outside the subset: ' + str((sy.unsupported or ss.unsupported)[0])))
                continue
            if (sy.value() is None) != (ss.value() is None) or sy.kind != ss.kind:
                obs.append(Ob(id=oid, status=oblig.REFUTED, backend='z3', function=fid, clause='NOT: ' + clause, solver_output='one copy returns a value of another kind or none at all',
                              witness={}, replay={'reproduced': False}))
                continue
            facts, seenf = [], set()
            for p in sy.paths + ss.paths:
                for f in p.facts:
                    if not z3.is_quantifier(f) and f.get_id() not in seenf:
                        seenf.add(f.get_id())
                        facts.append(f)
            tt = z3.BoolVal(True)
            Fy, Fs = (sy.value(), ss.value()) if sy.value() is not None else (tt, tt)
            Ry, Rs = sy.returns(), ss.returns()
            Ny = z3.Or(*sy.ni) if sy.ni else z3.BoolVal(False)
            Ns = z3.Or(*ss.ni) if ss.ni else z3.BoolVal(False)
            Oy = z3.Or(*sy.other) if sy.other else z3.BoolVal(False)
            Os = z3.Or(*ss.other) if ss.other else z3.BoolVal(False)
            pairs, roles_, apps = sigma_pairs([Fy, Fs, Ry, Rs, Ny, Ns, Oy, Os], facts)
            uniq, seenp = [], set()
            for a, c in [(x, y) for a_, b_ in pairs for x, y in ((a_, b_), (b_, a_))]:
                if a.get_id() not in seenp:
                    seenp.add(a.get_id())
                    uniq.append((a, c))
            summ = sigma_summands(facts)
            partner_of = {}
            for na, (da, ia, sa) in summ.items():
                img = z3.substitute(sa, *uniq)
                for nb, (db, ib, sb) in summ.items():
                    if da.range() == db.range() and smt.prove([], img == (z3.substitute(sb, (ib, ia)) if ib.get_id() != ia.get_id() else sb), 4000)[0] == 'discharged':
                        partner_of[na] = db
                        break
            sig = lambda t: apply_sigma(t, uniq, apps, partner_of)
            goal = z3.And(Rs == sig(Ry), Ns == sig(Ny), Os == sig(Oy), z3.Implies(Rs, Fs == sig(Fy)))
            st, model, be, secs, txt = smt.prove(facts + [sig(f) for f in facts], goal, 20000)
            if st == 'discharged':
                obs.append(Ob(id=oid, backend='z3', function=fid, time_s=time.time() - t0, clause=clause, vc=f'{len(sy.paths)} + {len(ss.paths)} path(s); {len(roles_)} role symbol(s)'))
            else:
                mdl = {k: v for k, v in list((model or {}).items())[:24]}
                rep = native_copies(year, ly, ls, model)
                o = Ob(id=oid, status=oblig.REFUTED if (st == 'refuted' or rep.get('reproduced')) else oblig.UNDECIDED, backend='z3', function=fid, clause='NOT: ' + clause,
                       solver_output=str(txt)[:200], witness={'model': mdl}, replay=rep)
                if rep.get('reproduced'):
                    o.replay_spec = {'kind': 'copies', 'year': year, 'taxpayer_line': ly, 'spouse_line': ls, 'inputs': rep['inputs'], 'values': rep['values']}
                obs.append(o)
    return obs


def native_copies(year, ly, ls, model):
    """Concretisation: the taxpayer's line on the model's environment, the spouse's line on the swapped environment."""
    try:
        cat = linevc.Cat.get(year)
        ins, vals = {}, {}
        for k, v in (model or {}).items():
            if '|' not in k or '{n}' in k:
                continue
            acc, nm = k.split('|', 1)
            spec = (cat.inputs if acc == 'i' else cat.fields).get(nm)
            if spec is None:
                continue
            kind = (linevc.input_kind(spec) if acc == 'i' else linevc.field_kind(spec))[0]
            try:
                if kind == 'bool':
                    val = str(v) == 'True'
                elif kind == 'int':
                    val = int(str(v))
                elif kind == 'real':
                    val = float(eval(str(v).replace('?', ''), {'__builtins__': {}}))
                else:
                    continue
            except Exception:
                continue
            (ins if acc == 'i' else vals)[nm] = val
        sw_in = {(swap_name('i|' + k) or ('i|' + k))[2:]: v for k, v in ins.items()}
        sw_va = {(swap_name('v|' + k) or ('v|' + k))[2:]: v for k, v in vals.items()}
        # the obligation compares the spouse's line on the environment with the taxpayer's line on the swapped environment
        r1 = replay.replay_line(year, ls, dict(ins), dict(vals))
        r2 = replay.replay_line(year, ly, sw_in, sw_va)
        o1 = (r1.get('outcome'), r1.get('value'), r1.get('exc'))
        o2 = (r2.get('outcome'), r2.get('value'), r2.get('exc'))
        return {'reproduced': o1 != o2, 'kind': 'copies', 'year': year, 'spouse_copy': [ls] + list(o1), 'taxpayer_copy_on_swapped_inputs': [ly] + list(o2),
                'inputs': {k: repr(v) for k, v in ins.items()}, 'values': {k: repr(v) for k, v in vals.items()}}
    except BaseException as ex:
        return {'reproduced': False, 'error': f'{type(ex).__name__}: {str(ex)[:100]}'}
