"""C20 - solver-level obligations (see solver_props.SELECT and contracts/core/solver.py)."""
from .. import base, oblig
from . import solver_props as sp

FUNCS = ['solver.py:Solver.solve', 'solver.py:Solver._attempt_field', 'solver.py:Solver._attempt_input', 'solver.py:Solver._add_form', 'solver.py:Solver._add_input_spec',
         'solver.py:Solver._add_unattempted', 'solver.py:DependencyTracker.add_unmet/meet/has_met/has_unmet/unmet_dependencies/unmet_dependents (inlined)',
         'solver.py:DependencyTracker.met_dependents (by its verified contract)', 'values.py:ValueStore.__setitem__', '__init__.py:solve']


def extra_tasks(tier, seed):
    return []


def run(tier, seed, t0):
    obs = sp.gather('C20', tier, seed, extra_tasks(tier, seed))
    return oblig.finish('C20', tier, seed, obs, t0, functions=FUNCS, trusted_base=sp.TRUST, assumptions=sp.ASSUME, checker_cmd='./check C20', min_obligations=15)
