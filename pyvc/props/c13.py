"""C13 - solver-level obligations (see solver_props.SELECT and contracts/core/solver.py)."""
from .. import base, oblig
from . import solver_props as sp

FUNCS = ['solver.py:Solver.solve', 'solver.py:Solver._attempt_field', 'solver.py:Solver._attempt_input', 'solver.py:Solver._add_form', 'solver.py:Solver._add_input_spec',
         'solver.py:Solver._add_unattempted', 'solver.py:DependencyTracker.add_unmet/meet/has_met/has_unmet/unmet_dependencies/unmet_dependents (inlined)',
         'solver.py:DependencyTracker.met_dependents (by its verified contract)', 'values.py:ValueStore.__setitem__', '__init__.py:solve']


def rerun_lemma():
    """Second sentence of C13 as a lemma over contracts: answers are stored as exactly the typed text and written/parsed with one
    default dialect (A-CFG), the final state of run 1 is a stable state for C1 = C0 + answers (C01/C03/C04 obligations, re-discharged
    in C05), and the Lean lemma `unique` makes run 2 end in that same state."""
    from . import c05
    from ..oblig import Ob
    out = []
    for o in c05.lean_lemma() + c05.store_setitem():
        o.id = o.id.replace('C05/', 'C13/rerun/')
        out.append(o)
    return out


def extra_tasks(tier, seed):
    from ..oblig import Task
    return [Task('rerun', rerun_lemma)]


def run(tier, seed, t0):
    obs = sp.gather('C13', tier, seed, extra_tasks(tier, seed))
    return oblig.finish('C13', tier, seed, obs, t0, functions=FUNCS, trusted_base=sp.TRUST, assumptions=sp.ASSUME, checker_cmd='./check C13', min_obligations=15)
