"""Solver-level obligations shared by C01, C03, C04, C06, C13, C20 (contracts/core/solver.py)."""
import importlib
import sys
import time

import z3

from .. import base, corevc, extract, oblig, smt, sym
from ..oblig import Ob


def spec_mod():
    if oblig.VERIF not in sys.path:
        sys.path.insert(0, oblig.VERIF)
    return importlib.import_module('contracts.core.solver')


def collect(unit, paths, post_fn, fid, props_of):
    """Discharge path obligations + postconditions; one Ob per label."""
    labels = {}
    unsupported = [p.outcome[1] for p in paths if p.outcome[0] == 'unsupported']
    if unsupported:
        return [Ob(id=f'SOLVER/{unit}/subset', status=oblig.UNDECIDED, function=fid, clause=f'NOT: {unit} is inside the subset its contract was written for (loop structure, calls, attributes): no obligation of this unit is decided',
                   solver_output='outside the subset: ' + unsupported[0])]
    allob, owner = [], []
    for p in paths:
        obligs = list(getattr(p, 'obligations', []))
        if not getattr(p, 'iteration_only', False):
            for label, goal in post_fn(p):
                obligs.append((f'post/{label}', list(p.conds) + list(p.facts), goal))
        allob.extend(obligs)
        owner.extend([p] * len(obligs))
    for (label, st, model, be, secs, txt, goal), p in zip(corevc.discharge_parallel(allob, timeout_ms=int(__import__('os').environ.get('VERIF_CORE_TIMEOUT_MS', '8000'))), owner):
        cur = labels.setdefault(label, {'st': 'discharged', 'n': 0, 'secs': 0.0, 'be': be, 'txt': '', 'goal': str(goal)[:300], 'model': None, 'path': ''})
        cur['n'] += 1
        cur['secs'] += secs
        if (st != 'discharged' and cur['st'] == 'discharged') or (st == 'refuted' and cur['st'] != 'refuted'):
            cur.update(st=st, txt=txt, model=model, be=be, path=p.sig())
    obs = []
    for label, c in labels.items():
        oid = f'SOLVER/{unit}/{label}'
        if c['st'] == 'discharged':
            obs.append(Ob(id=oid, backend=c['be'], function=fid, time_s=c['secs'], clause=f'{unit}: {label}', vc=c['goal'] + f'  [{c["n"]} path instance(s)]', note=','.join(props_of(label))))
        else:
            obs.append(Ob(id=oid, status=oblig.REFUTED if c['st'] == 'refuted' else oblig.UNDECIDED, backend=c['be'], function=fid,
                          clause=f'NOT: {unit}: {label}', vc=c['goal'], solver_output=c['txt'] + ' path=' + c['path'][:200], witness={'model': {k: v for k, v in list((c['model'] or {}).items())[:30]}},
                          note=','.join(props_of(label))))
    return obs


def unit_attempt_field(has_prompt=True):
    sm = spec_mod()
    solver, values, inputs, fields, form = sm.classes()
    spec = sm.SolverSpec('_attempt_field', has_prompt)
    fn = solver.Solver._attempt_field
    handled = (values.UnmetDependency, inputs.MissingInput, inputs.MissingInputSpecification, fields.FieldNotImplemented)

    def make_state(it):
        me = spec.fresh_state(it)
        it.ghost['self'] = me
        fobj = corevc.Opaque(corevc.fresh('field', corevc.OBJ), 'field')
        it.ghost['inflight'] = sm.name_of(fobj.ref)
        s = spec.st(it, me)
        it.run.fact(sm.known(s, fobj.ref))
        spec.assume_inv(it, me)
        it.ghost['pre'] = sm.St(me.snap(), dict(it.ghost))
        it.ghost['field'] = fobj
        # the contract is for every call: parameters the function has grown beyond (self, field) are arbitrary, not their defaults
        import inspect
        extra = {}
        for name, prm in list(inspect.signature(fn).parameters.items())[2:]:
            if isinstance(prm.default, bool):
                extra[name] = corevc.SV('bool', corevc.fresh(f'param_{name}', z3.BoolSort()))
            elif prm.default is inspect.Parameter.empty or prm.default is not None:
                raise sym.Unsupported(f'_attempt_field has a parameter {name} the contract does not know')
        return [me, fobj] + list(extra.values()), {}

    def post(p):
        it = p.interp
        me = p.post_self
        out = []
        pre = it.ghost['pre']
        if p.outcome[0] == 'return':
            it.ghost['inflight'] = None
            s1 = spec.st(it, me)
            out += sm.invariant(s1) + sm.grows(pre, s1, attempted=sm.name_of(it.ghost['field'].ref))
            out.append(('returns-none', z3.BoolVal(p.outcome[1] is None)))
            x = z3.Const('_x', corevc.OBJ)
            out.append(('queue-only-grows', z3.ForAll([x], s1.Q.cnt[x] >= pre.Q.cnt[x])))
            out.append(('answered-input-list-untouched', z3.And(s1.MI.size == pre.MI.size, z3.ForAll([sm.L], s1.MI.cnt[sm.L] == pre.MI.cnt[sm.L]))))
            out.append(('inputs-untouched-by-an-attempt', z3.ForAll([sm.L], s1.C.mem[sm.L] == pre.C.mem[sm.L])))
            out.append(('refusal-flag-untouched', (corevc.to_term(s1.refused) == corevc.to_term(pre.refused)) if isinstance(pre.refused, corevc.SV) else z3.BoolVal(s1.refused is pre.refused)))
            out.append(('an-attempt-is-at-least-one-unit-of-work', s1.ticks >= pre.ticks + 1))
            out.append(('met-lines-not-yet-drained-are-kept-by-an-attempt', s1.MF.size >= pre.MF.size))
            out.append(('waits-on-inputs-are-kept-by-an-attempt', z3.ForAll([sm.Dn], z3.Implies(pre.UI.has[sm.Dn], s1.UI.has[sm.Dn]))))
            out.append(('one-evaluation-per-attempt', z3.BoolVal(it.ghost.get('evaluations', 0) + it.ghost.get('attempts', 0) >= 1)))
            ok = it.ghost.get('oracle_ok')
            if ok is not None and it.ghost.get('attempts', 0) == 0:
                nm, val = ok
                out.append(('stored-value-is-the-evaluation-result', z3.And(s1.V.has[nm], s1.V.val[nm] == val)))
                out.append(('a-computed-line-is-announced-as-met', s1.MF.cnt[nm] >= 1))
            if it.ghost.get('attempts', 0) == 0:
                # C05: the diagnostics record what this line's own evaluation reported, whatever was attempted before it
                fld = it.ghost['field'].ref
                ni, od, mi = it.ghost.get('oracle_ni'), it.ghost.get('oracle_dep'), it.ghost.get('oracle_mi')
                out.append(('recorded-unimplemented-iff-its-own-evaluation-reports-not-implemented',
                            z3.ForAll([sm.L], s1.N.cnt[sm.L] == pre.N.cnt[sm.L] + (z3.If(sm.L == ni, 1, 0) if ni is not None else 0))))
                if od is not None:
                    out.append(('a-line-lacking-line-d-is-parked-on-d', s1.UF.cnt[od][fld] == pre.UF.cnt[od][fld] + 1))
                if mi is not None:
                    out.append(('a-line-lacking-an-input-is-parked-on-it', s1.UI.cnt[mi][fld] == pre.UI.cnt[mi][fld] + 1))
            # C04: what an attempt may schedule
            L = sm.L
            isreq = it.ghost.get('last_requires_line')
            regs = it.ghost.get('registrations', [])
            dep = [d for key, d, x in regs if key == 'wd']
            allowed = lambda l: z3.Or(pre.S.mem[l], *([l == dep[0]] if dep else []), *([isreq(l)] if isreq is not None else []))
            if it.ghost.get('attempts', 0) == 0:
                out.append(('schedules-only-the-demanded-line-and-required-lines-of-its-new-form', z3.ForAll([L], z3.Implies(s1.S.mem[L], allowed(L)))))
                x = z3.Const('_x', corevc.OBJ)
                out.append(('queues-only-scheduled-lines', z3.ForAll([x], z3.Implies(s1.Q.cnt[x] > pre.Q.cnt[x], z3.And(z3.Not(pre.S.mem[sm.name_of(x)]), s1.S.mem[sm.name_of(x)])))))
                if dep:
                    out.append(('the-demanded-line-is-scheduled', s1.S.mem[dep[0]]))
        else:
            exc = p.outcome[1]
            out.append(('propagated-exception-is-not-a-handled-one', z3.BoolVal(not isinstance(exc, handled))))
            # AttributeError / KeyError / TypeError / NameError can only come from state the contract view does not know
            out.append(('no-internal-error-outside-the-contract-view', z3.BoolVal(not isinstance(exc, (AttributeError, KeyError, TypeError, NameError, IndexError)))))
            # C10: the only ways a reference can abort the solve.  The internal assertion fires only for a line that no form of the
            # catalogue declares; "not supported / not declared" only for a form the catalogue lacks or an input its form does not declare
            d, k = it.ghost.get('oracle_dep'), it.ghost.get('oracle_key')
            if isinstance(exc, AssertionError):
                out.append(('internal-assertion-only-for-a-line-no-form-declares', z3.Not(sm.DECL_LINE(d)) if d is not None else z3.BoolVal(False)))
            if isinstance(exc, NotImplementedError):
                alts = []
                if d is not None:
                    alts.append(z3.Not(pre.FMAP.has[sm.class_part(sm.form_part(d))]))
                if k is not None:
                    alts += [z3.Not(pre.FMAP.has[sm.class_part(sm.form_part(k))]), z3.Not(sm.DECL_INPUT(k))]
                out.append(('abort-only-for-an-absent-form-or-an-undeclared-input', z3.Or(*alts) if alts else z3.BoolVal(False)))
        return out

    def props_of(label):
        if 'only-grow' in label:
            return ['C03', 'C20', 'C01']
        if 'no-lost-line' in label or 'propagated' in label:
            return ['C01', 'C04']
        if 'justified' in label or 'met-' in label:
            return ['C03', 'C06', 'C13']
        return ['C01', 'C04', 'C06']
    paths = corevc.run_function(fn, make_state, spec)
    return collect('_attempt_field', paths, post, 'solver.py:Solver._attempt_field', props_of), paths


def unit_add_form(input_only):
    sm = spec_mod()
    solver, values, inputs, fields, form = sm.classes()
    spec = sm.SolverSpec('_add_form', True)
    fn = solver.Solver._add_form
    z = z3

    def make_state(it):
        me = spec.fresh_state(it)
        it.ghost['self'] = me
        n = corevc.fresh('form_name', corevc.NAME)
        it.ghost['adding_form_name'] = n
        it.ghost['pre'] = sm.St(me.snap(), dict(it.ghost))
        it.ghost['fname'] = n
        return [me, corevc.wrap(n), input_only], {}

    def post(p):
        it, me = p.interp, p.post_self
        pre = it.ghost['pre']
        n = it.ghost['fname']
        s1 = spec.st(it, me)
        L = sm.L
        out = []
        if p.outcome[0] != 'return':
            exc = p.outcome[1]
            if isinstance(exc, NotImplementedError):
                out.append(('unsupported-form-aborts-only-when-not-catalogued', z.Not(pre.FMAP.has[sm.class_part(n)])))
                out.append(('unsupported-form-abort-changes-nothing', z.And(s1.FM.has == pre.FM.has, s1.IM.has == pre.IM.has, s1.S.mem == pre.S.mem, s1.Q.cnt == pre.Q.cnt, s1.F.has == pre.F.has)))
            else:
                out.append(('no-other-exception', z.BoolVal(False)))
            return out
        isin = lambda l: z.And(sm.DECL_INPUT(l), sm.form_part(l) == n)
        isline = lambda l: z.And(sm.DECL_LINE(l), sm.form_part(l) == n)
        isreq = lambda l: z.And(sm.REQ_LINE(l), sm.form_part(l) == n)
        x = z.Const('_x', corevc.OBJ)
        out.append(('form-is-catalogued', pre.FMAP.has[sm.class_part(n)]))
        out.append(('inputs/keys', z.ForAll([L], s1.IM.has[L] == z.Or(pre.IM.has[L], isin(L)))))
        out.append(('inputs/old-values-kept', z.ForAll([L], z.Implies(z.And(pre.IM.has[L], z.Not(isin(L))), s1.IM.val[L] == pre.IM.val[L]))))
        out.append(('inputs/new-values-named', z.ForAll([L], z.Implies(isin(L), sm.name_of(s1.IM.val[L]) == L))))
        out.append(('values-inputs-trackers-untouched', z.And(s1.V.has == pre.V.has, s1.V.val == pre.V.val, s1.N.cnt == pre.N.cnt, s1.UF.cnt == pre.UF.cnt, s1.UI.cnt == pre.UI.cnt,
                                                            s1.MF.cnt == pre.MF.cnt, s1.MI.cnt == pre.MI.cnt, s1.C.mem == pre.C.mem)))
        if input_only:
            out.append(('input-only/registers-no-line', z.And(s1.FM.has == pre.FM.has, s1.FM.val == pre.FM.val)))
            out.append(('input-only/schedules-nothing', z.And(s1.S.mem == pre.S.mem, s1.Q.cnt == pre.Q.cnt, s1.Q.size == pre.Q.size)))
            out.append(('input-only/form-does-not-take-part', z.And(s1.F.has == pre.F.has, s1.F.val == pre.F.val)))
        else:
            out.append(('lines/keys', z.ForAll([L], s1.FM.has[L] == z.Or(pre.FM.has[L], isline(L)))))
            out.append(('lines/old-values-kept', z.ForAll([L], z.Implies(z.And(pre.FM.has[L], z.Not(isline(L))), s1.FM.val[L] == pre.FM.val[L]))))
            out.append(('lines/new-values-named', z.ForAll([L], z.Implies(isline(L), sm.name_of(s1.FM.val[L]) == L))))
            out.append(('form-takes-part', z.ForAll([L], s1.F.has[L] == z.Or(pre.F.has[L], L == n))))
            out.append(('other-forms-kept', z.ForAll([L], z.Implies(z.And(pre.F.has[L], L != n), s1.F.val[L] == pre.F.val[L]))))
            out.append(('schedules-exactly-the-required-lines', z.ForAll([L], s1.S.mem[L] == z.Or(pre.S.mem[L], isreq(L)))))
            out.append(('queues-exactly-the-required-lines', z.ForAll([x], s1.Q.cnt[x] == pre.Q.cnt[x] + z.If(z.And(isreq(sm.name_of(x)), s1.FM.val[sm.name_of(x)] == x), 1, 0))))
        return out

    def props_of(label):
        return ['C04', 'C01', 'C10']
    paths = corevc.run_function(fn, make_state, spec)
    return collect('_add_form' + ('[input_only]' if input_only else ''), paths, post, 'solver.py:Solver._add_form', props_of), paths


def unit_solve(has_prompt=True):
    sm = spec_mod()
    solver, values, inputs, fields, form = sm.classes()
    spec = sm.SolverSpec('solve', has_prompt)
    fn = solver.Solver.solve

    def make_state(it):
        me = spec.fresh_state(it)
        it.ghost['self'] = me
        s = spec.st(it, me)
        spec.assume_inv(it, me)
        names = corevc.ZBag.havoc(corevc.NAME, 'form_names')
        for f in names.wf():
            it.run.fact(f)
        # requires: the requested form names are distinct and none of them is loaded yet
        it.run.fact(z3.ForAll([sm.Dn], z3.Implies(names.cnt[sm.Dn] > 0, z3.And(names.cnt[sm.Dn] <= 1, z3.Not(s.F.has[sm.Dn])))))
        it.run.fact(s.MI.size == 0)      # requires: solve() starts with no answered-but-undrained input (fresh Solver)
        it.ghost['entry_state'] = sm.St(me.snap(), dict(it.ghost))
        it.ghost['solve_entry'] = it.ghost['entry_state']
        return [me, names], {}

    def post(p):
        it = p.interp
        me = p.post_self
        out = []
        if p.outcome[0] != 'return':
            exc = p.outcome[1]
            # an exception escaping solve() is one raised by a line definition, an unsupported form, an invalid answer, ...: never swallowed
            out.append(('escaping-exception-is-propagated-unchanged', z3.BoolVal(isinstance(exc, (RuntimeError, NotImplementedError, AssertionError, KeyError)))))
            s1 = spec.st(it, me)
            entry = it.ghost.get('solve_entry')
            L = sm.L
            if entry is not None:
                out.append(('on-exception/inputs-held-before-are-kept', z3.ForAll([L], z3.Implies(entry.C.mem[L], s1.C.mem[L]))))
            for ix, k in enumerate(it.ghost.get('answers_stored', [])):
                out.append(('on-exception/answers-given-are-kept', s1.C.mem[k]))
            # C20: whatever the user answered before the interruption is in the input store the write-back serialises
            out.append(('on-exception/every-answer-given-is-stored', z3.ForAll([L], z3.Implies(s1.A.mem[L], s1.C.mem[L]))))
            return out
        s1 = spec.st(it, me)
        for ix, k in enumerate(it.ghost.get('answers_stored', [])):
            out.append(('answers-given-are-kept', s1.C.mem[k]))
        r = p.outcome[1]
        rt = corevc.to_term(r) if not isinstance(r, bool) else z3.BoolVal(r)
        L = sm.L
        D = sm.Dn
        out.append(('success-means-every-scheduled-line-has-a-value', z3.Implies(rt, z3.ForAll([L], z3.Implies(s1.S.mem[L], s1.V.has[L])))))
        out.append(('success-means-nothing-unimplemented', z3.Implies(rt, s1.N.size == 0)))
        out.append(('success-means-no-waiting-line', z3.Implies(rt, z3.And(
            z3.ForAll([D], z3.Implies(s1.UF.has[D], z3.Not(s1.UF.ln[D] > 0))), z3.ForAll([D], z3.Implies(s1.UI.has[D], z3.Not(s1.UI.ln[D] > 0)))))))
        out.append(('failure-has-a-diagnostic', z3.Implies(z3.Not(rt), z3.Or(s1.N.size > 0,
            z3.Exists([D], z3.And(s1.UF.has[D], s1.UF.ln[D] > 0)), z3.Exists([D], z3.And(s1.UI.has[D], s1.UI.ln[D] > 0))))))
        out.append(('done-flag-set', z3.BoolVal(me.attrs.get('_done_solving') is True)))
        out += [(f'exit/{l}', g) for l, g in sm.invariant(s1)]
        # frame of a whole solve() from ANY state (a second call on the same solver included): nothing held at entry is dropped -
        # values, inputs, answers, scheduled lines, and the lines recorded as unimplemented
        entry = it.ghost.get('solve_entry')
        if entry is not None:
            out += [(f'exit/since-entry/{l}', g) for l, g in sm.grows(entry, s1)]
        return out

    def props_of(label):
        return ['C01', 'C03', 'C04', 'C06', 'C13']
    paths = corevc.run_function(fn, make_state, spec, max_paths=2000)
    return collect('solve' + ('' if has_prompt else '[no-prompt]'), paths, post, 'solver.py:Solver.solve', props_of), paths


if __name__ == '__main__':
    import warnings
    warnings.simplefilter('ignore')
    extract.setup_path()
    t0 = time.time()
    obs, paths = (unit_solve if 'solve' in sys.argv else (lambda: unit_add_form('only' in sys.argv)) if 'addform' in sys.argv else unit_attempt_field)()
    print(len(paths), 'paths', round(time.time() - t0, 1), 's')
    for p in paths:
        print('  ', p.outcome if p.outcome[0] != 'return' else 'return', p.sig()[:150], len(getattr(p, 'obligations', [])))
    for o in obs:
        print(o.status, o.id, o.solver_output[:200])


# ---------------------------------------------------------------------------------------------
def run_units(units):
    """Run the named solver units (in a fork pool) -> list of Ob."""
    table = {'_attempt_field': lambda: unit_attempt_field(True)[0], 'solve': lambda: unit_solve(True)[0],
             'solve[no-prompt]': lambda: unit_solve(False)[0]}
    obs = []
    for u in units:
        obs.extend(table[u]())
    return obs


def finish_with_refutation(prop, obs, select, seed, tier):
    """Keep the obligations selected for `prop`; turn non-discharged ones into violations only when the
    concretisation search finds a concrete failing run of the real solver."""
    from .. import toyforms
    out = []
    found = None
    searched = False
    for o in obs:
        if not select(o):
            continue
        o = Ob(**{**o.__dict__})
        o.id = o.id.replace('SOLVER/', f'{prop}/solver/')
        if o.status in (oblig.UNDECIDED, oblig.REFUTED) and (o.replay or {}).get('reproduced'):
            out.append(o)
            continue
        if o.status in (oblig.UNDECIDED, oblig.REFUTED):
            if not searched:
                searched = True
                found = toyforms.search(prop, seed, 300 if tier == 'quick' else 3000) if prop in toyforms.CHECKS else None
                if not found and prop in ('C03', 'C12'):
                    # input-only forms with amounts of more than two decimals (declared rounding, fixed point)
                    found = toyforms.mirror_search(prop)
                if not found:
                    from .. import session
                    if prop in session.CHECKS:
                        found = session.search(prop, seed, 40 if tier == 'quick' else 400)
                        if found:
                            found['kind'] = 'session'
            if not found and o.status == oblig.REFUTED:
                # the back end produced a counter-model of the verification condition (or the obligation is structurally false
                # on this tree) but no toy program reproduces it: still a violation, reported without a failing input
                o.replay = {'reproduced': False, 'note': 'counter-model of the verification condition; concretisation search found no failing run of the real solver'}
            elif found:
                o.status = oblig.REFUTED
                if found.get('kind') == 'session':
                    o.replay = {'reproduced': True, 'native_counterexample': found, 'note': 'scripted interactive session of the real habutax.solve(args) over toy forms (pyvc/session.py)'}
                    o.replay_spec = {'kind': 'session', 'prop': prop, 'scenario': {k: found[k] for k in ('program', 'requested', 'provided', 'answers', 'stop_at', 'stop_kind')}}
                elif found.get('kind') == 'mirror':
                    o.replay = {'reproduced': True, 'native_counterexample': found, 'note': 'three copies of a toy input-only form read by a summing form, run on the real Solver (toyforms.mirror_run)'}
                    o.replay_spec = {'kind': 'mirror', 'prop': prop, 'scenario': found['scenario']}
                else:
                    o.replay = {'reproduced': True, 'native_counterexample': found, 'note': 'toy form program run on the real Solver (concretisation search)'}
                    o.replay_spec = {'kind': 'toy', 'prop': prop, 'scenario': {k: found[k] for k in ('program', 'requested', 'provided', 'answers', 'refuse_after')}}
                o.witness = {'violated': found['violated']}
            else:
                o.solver_output = (o.solver_output or '') + ' | concretisation search found no failing run'
        out.append(o)
    return out
