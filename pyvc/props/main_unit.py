"""habutax.solve(args): banner and diagnostics (C01), write-back on every exit (C20)."""
import importlib
import sys

import z3

from .. import corevc, extract, oblig, smt, sym
from ..oblig import Ob


def mainspec():
    if oblig.VERIF not in sys.path:
        sys.path.insert(0, oblig.VERIF)
    return importlib.import_module('contracts.core.main')


class MainInterp(corevc.CoreInterp):
    def enter_context(self, ctx, item):
        return ctx

    def truth(self, v, node):
        if isinstance(v, corevc.Opaque) and v.kind == 'solpath':
            return self.run.branch(self.spec.truth_of_solution_arg(self).t, where='has-solution-file')
        return super().truth(v, node)


def unit_main():
    import habutax
    mm = mainspec()
    fn = habutax.solve
    obs = []
    kinds = [('KeyboardInterrupt', KeyboardInterrupt), ('EOFError', EOFError), ('NotImplementedError', NotImplementedError), ('RuntimeError', RuntimeError), ('AssertionError', AssertionError)]
    for kname, kcls in kinds:
        spec = mm.MainSpec(kcls)
        ex = sym.Explorer(feas_skip_quant=True)

        def thunk(run):
            it = MainInterp(run, spec)
            args, info = spec.make_state(it)
            run.path.interp = it
            return it.call_function(fn, args)
        paths = ex.explore(thunk)
        results = {}

        def note(label, ok, detail=''):
            cur = results.setdefault(label, [True, 0, ''])
            cur[1] += 1
            if not ok:
                cur[0] = False
                cur[2] = detail
        for p in paths:
            if p.outcome[0] == 'unsupported':
                obs.append(Ob(id=f'MAIN/solve/{kname}/subset', status=oblig.UNDECIDED, function='__init__.py:solve', solver_output=p.outcome[1]))
                continue
            it = p.interp
            ev = it.ghost['events']
            args = it.ghost['args']
            wb = args.attrs['writeback_input'].t
            names = [e[0] for e in ev]
            hyp = p.conds + p.facts
            must_wb = smt.satisfiable(hyp + [z3.Not(wb)]) == z3.unsat      # write-back requested on this path
            no_wb = smt.satisfiable(hyp + [wb]) == z3.unsat
            solved_started = 'solve' in names
            if solved_started:
                # C05: the verdict is that of ONE solve over all requested forms (Solver.solve called form by form makes verdict and
                # diagnostics depend on the order of the requests: _solved and the trackers persist between calls)
                calls = [e for e in ev if e[0] == 'solve']
                note('C05/the-solver-is-run-once-over-exactly-the-requested-forms', len(calls) == 1 and len(calls[0]) > 1 and calls[0][1] is args.attrs.get('forms'),
                     f'{len(calls)} call(s) of Solver.solve with {[str(c[1:])[:60] for c in calls]}')
            if must_wb and solved_started:
                ok = 'write' in names and names.index('write') > names.index('solve') and ev[names.index('write')][1] == 'INPUT_FILE'
                note('C20/write-back-happens-after-the-solve-on-every-exit' + ('' if p.outcome[0] == 'return' else '/exceptional'), ok, str(names))
                if 'touch' in names:
                    note('C20/input-file-created-before-reading-it', names.index('touch') < names.index('InputStore'), str(names))
                else:
                    note('C20/input-file-created-before-reading-it', False, str(names))
            if no_wb:
                note('C20/no-write-without-the-option', 'write' not in names, str(names))
            if p.outcome[0] == 'raise':
                note('C01/exception-propagates-unchanged', p.outcome[1] is it.ghost.get('raised'), repr(p.outcome[1]))
                note('C01/no-success-banner-on-abort', not any(e[0] == 'print' and 'Successfully' in str(e[1]) for e in ev), str(names))
            else:
                succ = it.ghost.get('successful')
                banner = any(e[0] == 'print' and 'Successfully solved' in str(e[1]) for e in ev)
                failed = any(e[0] == 'print' and 'Failed to solve' in str(e[1]) for e in ev)
                is_true = smt.satisfiable(hyp + [z3.Not(succ.t)]) == z3.unsat
                is_false = smt.satisfiable(hyp + [succ.t]) == z3.unsat
                note('C01/success-banner-iff-solve-returned-true', (banner and is_true and not failed) or (failed and is_false and not banner), f'banner={banner} failed={failed}')
                if is_false:
                    diag = it.ghost.get('diag', {})
                    for nm in ('unimplemented_fields', 'unmet_input_dependencies', 'unmet_field_dependencies'):
                        if nm not in diag:
                            note(f'C01/diagnostics/{nm}-consulted', False, 'getter not called')
                            continue
                        nonempty = smt.satisfiable(hyp + [diag[nm] <= 0]) == z3.unsat
                        listed = any(e[0] == 'listed' and e[1] == nm for e in ev)
                        empty = smt.satisfiable(hyp + [diag[nm] > 0]) == z3.unsat
                        if nonempty:
                            note(f'C01/diagnostics/{nm}-listed-when-non-empty', listed, str(names))
                        if empty:
                            note(f'C01/diagnostics/{nm}-not-listed-when-empty', not listed, str(names))
                note('C14/solution-carries-the-tax-year', any(e[0] == 'solution-set' and e[1] == 'habutax' for e in ev), str(names))
                note('C14/solution-is-written', 'solution-write' in names, str(names))
        for label, (ok, n, detail) in results.items():
            oid = f'MAIN/solve/{kname}/{label}'
            if ok:
                obs.append(Ob(id=oid, backend='symexec+z3', function='__init__.py:solve', clause=label.split('/', 1)[1].replace('-', ' '), vc=f'{n} path(s); interruption kind {kname}', note=label.split('/')[0]))
            else:
                obs.append(Ob(id=oid, status=oblig.REFUTED, backend='symexec+z3', function='__init__.py:solve', clause='NOT: ' + label, solver_output=detail,
                              witness={'events': detail, 'interruption': kname}, note=label.split('/')[0]))
    return obs


if __name__ == '__main__':
    import warnings
    warnings.simplefilter('ignore')
    extract.setup_path()
    for o in unit_main():
        print(o.status, o.id, o.solver_output[:200])
