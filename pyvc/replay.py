"""Native replay of counterexamples on the real code (DESIGN 2.5).

Line obligations: the model gives concrete values for the keys a path read.
Replay instantiates the real form, builds real FormAccessors over a real
InputStore (ConfigParser-backed, so validation and conversion are the real
ones) and a real ValueStore holding the model's values, calls the real
Field.value(...) and reports the outcome.
"""
import configparser
import enum as _enum
import fractions
import re

import z3

from . import extract, linevc, sym


def py_of_model_value(val, kind, ecls=None):
    if kind == 'bool':
        return z3.is_true(val)
    if kind == 'int':
        return val.as_long()
    if kind == 'real':
        if z3.is_algebraic_value(val):
            val = val.approx(20)
        fr = fractions.Fraction(val.numerator_as_long(), val.denominator_as_long())
        return float(fr)
    if kind == 'str':
        return val.as_string()
    if kind == 'enum':
        name = str(val).split('.')[-1]
        if name == 'NONE':
            return None
        return ecls[name]
    raise ValueError(kind)


def concretise(model, year, max_instances=4):
    """All read symbols known to linevc, evaluated in the model -> (inputs, values) dicts
    of Python values keyed by full names (numbered instances expanded)."""
    cat = linevc.Cat.get(year)
    inputs, values = {}, {}
    counts = [0]
    for (acc, full, kind, _cid, indexed), symb in list(linevc._SYMS.items()):
        if indexed:
            continue
        v = model.eval(symb, model_completion=False)
        if v.sexpr() == symb.sexpr():
            continue
        ecls = None
        if kind == 'enum':
            ecls = _enum_cls_of(symb)
        try:
            pv = py_of_model_value(v, kind, ecls)
        except Exception:
            continue
        (inputs if acc == 'i' else values)[full] = pv
        if acc == 'i' and kind == 'int' and 'number_' in full:
            counts.append(pv)
    n_inst = max(0, min(max(counts), max_instances))
    for (acc, full, kind, _cid, indexed), f in list(linevc._SYMS.items()):
        if not indexed:
            continue
        ecls = _enum_cls_of(f) if kind == 'enum' else None
        for j in range(n_inst):
            v = model.eval(f(z3.IntVal(j)), model_completion=True)
            try:
                pv = py_of_model_value(v, kind, ecls)
            except Exception:
                continue
            (inputs if acc == 'i' else values)[full.replace('{n}', str(j))] = pv
    return inputs, values


def _enum_cls_of(symb):
    sort = symb.range() if z3.is_func_decl(symb) else symb.sort()
    for key, (s, consts, none, cls) in sym._ENUM_SORTS.items():
        if s == sort:
            return cls
    return None


def input_string(spec, value):
    from habutax import inputs as I
    if value is None:
        return ''
    if isinstance(value, bool):
        return 'yes' if value else 'no'
    if isinstance(value, _enum.Enum):
        return value.name
    if isinstance(value, float):
        return repr(value)
    return str(value)


def default_for(kind, ecls, optional):
    if kind == 'bool':
        return False
    if kind == 'int':
        return 0
    if kind == 'real':
        return 0.0
    if kind == 'str':
        return ''
    if kind == 'enum':
        return None if optional else list(ecls)[0]


class Stores(object):
    """Real InputStore / ValueStore populated for one replay."""
    def __init__(self, year, inputs, values, defaults=True):
        extract.setup_path()
        from habutax import inputs as I, values as V
        self.cat = linevc.Cat.get(year)
        self.year = year
        self.extra_forms = {}
        cfg = configparser.ConfigParser()
        specs = {}
        for name, i in self.cat.inputs.items():
            specs[name] = i
        self.specs = specs
        self.missing_reads = []
        store = I.InputStore(cfg, specs)
        for full, val in inputs.items():
            spec = self.spec_for('i', full)
            if spec is None:
                continue
            specs[full] = spec
            sec, base = full.split('.')
            if not cfg.has_section(sec):
                cfg.add_section(sec)
            cfg.set(sec, base, input_string(spec, val).replace('%', '%%'))
        self.inputs = store
        vs = V.ValueStore()
        for full, val in values.items():
            vs[full] = val
        self.values = vs
        self.defaults = defaults

    def form_instance(self, fname, inst):
        key = f'{fname}:{inst}' if inst is not None else fname
        if key in self.cat.forms:
            return self.cat.forms[key]
        if key not in self.extra_forms:
            cls = self.cat.classes.get(fname)
            if cls is None:
                return None
            try:
                self.extra_forms[key] = cls(instance=inst, solver=extract.FakeSolver())
            except Exception:
                return None
        return self.extra_forms[key]

    def spec_for(self, acc, full):
        m = linevc.KEY_RE.match(full)
        if not m:
            return None
        f = self.form_instance(m.group(1), m.group(2))
        if f is None:
            return None
        for x in (f.inputs() if acc == 'i' else f.fields()):
            if x.name() == full:
                return x
        return None


class DefaultingValues(dict):
    pass


def replay_line(year, line_fullname, inputs, values, wrapper=True, max_fill=200):
    """Run the real Field.value of `line_fullname` on the given concrete reads.
    Reads that the witness did not fix are filled with type defaults on demand
    (the model leaves them unconstrained).  Returns a JSON-able dict."""
    extract.setup_path()
    from habutax import form as Fm, inputs as I, values as V, fields as Fl
    st = Stores(year, inputs, values)
    fld = st.spec_for('v', line_fullname)
    if fld is None:
        return {'reproduced': False, 'error': f'line {line_fullname} not found'}
    filled = []
    for _ in range(max_fill):
        fi = Fm.FormAccessor(st.inputs, fld.form())
        fv = Fm.FormAccessor(st.values, fld.form())
        try:
            if wrapper:
                r = fld.value(fi, fv)
            else:
                r = fld._value(fi, fv)
            return {'outcome': 'return', 'value': repr(r), 'type': type(r).__name__, 'filled_defaults': filled,
                    'inputs': {k: repr(v) for k, v in inputs.items()}, 'values': {k: repr(v) for k, v in values.items()}}
        except V.UnmetDependency as ud:
            spec = st.spec_for('v', ud.dependency)
            if spec is None:
                return {'outcome': 'raise', 'exc': 'UnresolvedLine', 'message': f'read of line {ud.dependency!r} which no form of {year} defines'
                        ' (the solver then fails its assertion `ud.dependency in self._field_map` or aborts with form-not-supported)',
                        'name': ud.dependency, 'filled_defaults': filled,
                        'inputs': {k: repr(v) for k, v in inputs.items()}, 'values': {k: repr(v) for k, v in values.items()}}
            kind, ecls, opt = linevc.field_kind(spec)
            st.values[ud.dependency] = default_for(kind, ecls, opt)
            filled.append(ud.dependency)
        except I.MissingInputSpecification as mis:
            spec = st.spec_for('i', mis.input_name)
            if spec is None:
                return {'outcome': 'raise', 'exc': 'UnresolvedInput', 'message': f'read of input {mis.input_name!r} which no form of {year} declares'
                        ' (the solver then recurses in _attempt_field until RecursionError)', 'name': mis.input_name, 'filled_defaults': filled,
                        'inputs': {k: repr(v) for k, v in inputs.items()}, 'values': {k: repr(v) for k, v in values.items()}}
            st.specs[mis.input_name] = spec
        except I.MissingInput as mi:
            spec = st.spec_for('i', mi.input_name)
            kind, ecls, opt = linevc.input_kind(spec)
            sec, base = mi.input_name.split('.')
            if not st.inputs.config.has_section(sec):
                st.inputs.config.add_section(sec)
            st.inputs.config.set(sec, base, input_string(spec, default_for(kind, ecls, opt)))
            filled.append(mi.input_name)
        except BaseException as ex:
            if isinstance(ex, (KeyboardInterrupt, SystemExit)):
                raise
            return {'outcome': 'raise', 'exc': type(ex).__name__, 'message': str(ex)[:500], 'filled_defaults': filled,
                    'inputs': {k: repr(v) for k, v in inputs.items()}, 'values': {k: repr(v) for k, v in values.items()}}
    return {'outcome': 'gave-up', 'filled_defaults': filled}


def solve_model(path, extra=(), timeout_ms=5000):
    """Model of a path condition (conds + facts [+ extra]); quantified facts are
    dropped if z3 cannot decide with them. Returns (model|None, status)."""
    for drop_q in (False, True):
        s = z3.Solver()
        s.set('timeout', timeout_ms)
        for c in list(path.conds) + list(extra):
            s.add(c)
        for f in path.facts:
            if drop_q and z3.is_quantifier(f):
                continue
            s.add(f)
        r = s.check()
        if r == z3.sat:
            return s.model(), 'sat' + ('(quantified facts dropped)' if drop_q else '')
        if r == z3.unsat:
            return None, 'unsat'
    return None, 'unknown'


def solve_native(year, forms, inputs, field_names=(), max_prompts=5000):
    """End-to-end run of the real Solver. `inputs`: full input name -> string.
    Inputs the run asks for that are not given are answered with type defaults
    (0, no, '', first enum member / empty).  Returns dict with solved, values, diagnostics."""
    extract.setup_path()
    from habutax import inputs as I, solver as S, forms as F
    cfg = configparser.ConfigParser()
    store = I.InputStore(cfg)
    asked = []

    def prompt(missing, needed_by):
        name = missing.name()
        asked.append(name)
        if len(asked) > max_prompts:
            return (None, False)
        if name in inputs:
            return (str(inputs[name]), True)
        kind, ecls, opt = linevc.input_kind(missing)
        d = input_string(missing, default_for(kind, ecls, opt))
        for cand in (d, '000000000', '011000015', '1', 'a', 'NC'):
            if missing.valid(cand):
                return (cand, True)
        return (None, False)
    s = S.Solver(store, F.available_forms[year], prompt=prompt)
    try:
        ok = s.solve(list(forms), field_names=list(field_names))
    except BaseException as ex:
        if isinstance(ex, (KeyboardInterrupt, SystemExit)):
            raise
        return {'raised': f'{type(ex).__name__}: {str(ex)[:300]}', 'asked': len(asked)}
    return {'solved': ok, 'values': dict(s._v.values), 'unimplemented': s.unimplemented_fields(),
            'unmet_inputs': s.unmet_input_dependencies(), 'unmet_fields': s.unmet_field_dependencies(), 'asked': len(asked)}
