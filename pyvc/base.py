"""Shared text: trusted base and assumption registry (DESIGN 6)."""
TRUSTED = [
    'the VC generator itself (pyvc: extract, sym, linevc, corevc) and its encoding of the Python subset (A-PY)',
    'z3 5.1.0 (Python API), cvc5 1.0.3 CLI for z3 unknowns',
    'CPython 3.12.1 for ground evaluation and native replay',
]
A = {
    'A-PY': 'A-PY: Python semantics of the subset as encoded by pyvc.sym (evaluation order, short-circuit, exceptions, truthiness, is/== on enum members, numeric tower bool<int<float)',
    'A-REAL': 'A-REAL: float is treated as real arithmetic; a float literal denotes its decimal text; round(x,p) is a nearest p-decimal',
    'A-BUILTIN': 'A-BUILTIN: assumed contracts of builtins (float, int, str, min, max, sum, round, ceil, len, str methods)',
    'A-ENUM': 'A-ENUM: Enum functional API: members, lookup by name, equality is identity, classes disjoint',
    'A-SIGMA': 'A-IND/A-SIGMA: sums over range(N) are canonical prefix-sum functions with ground instances of S(k)=0 for k<=0 and S(k)=S(k-1)+delta(k-1); the induction schema is trusted',
    'A-READ': 'A-READ: a read of i[k]/v[k] returns a value constrained only by the declared type of the input/line (callee contract), never by the callee body',
    'A-ORACLE': 'A-ORACLE: transcribed official values / frozen oracle tables under /verif/contracts are correct (each entry cited)',
    'A-CFG': 'A-CFG: configparser.ConfigParser keyed access is a function of the parsed map (sections with own options plus the [DEFAULT] options that apply to every existing section - explicit contract in pyvc/props/store_units.py); set-then-get returns the string; write-then-read_file returns the map; option names are lower-case (C17), no % interpolation, no inline comments',
    'A-BAG': 'A-BAG: order-irrelevant lists are modelled as multisets (pop removes an arbitrary present element)',
    'A-PURE': 'A-PURE: line definitions are pure sequential readers of (inputs, values)',
    'A-GEN': 'A-GEN/A-ALIAS: the tracker generator is drained atomically at its call sites; internal waiter lists escape only to read-only uses',
    'A-PROMPT': 'A-PROMPT: the prompt callback is a function of the input name and does not touch solver state',
    'A-FIN': 'A-FIN: finite demand closure',
    'A-RANGE': 'A-RANGE: amounts within +-1e12',
    'A-PDFTK': 'A-PDFTK: pdftk reads FDF literal strings per ISO 32000-1 7.3.4.2',
}


def assumptions(*keys):
    return [A[k] for k in keys]
