#!/bin/sh
# Offline: overlay venv on the interpreter the test suite uses, solvers from the wheelhouse.
set -e
HERE="$(cd "$(dirname "$0")" && pwd)"
cd "$HERE"
if [ ! -x .venv/bin/python ] || ! .venv/bin/python -c "import z3, cvc5, jsonschema" 2>/dev/null; then
  rm -rf .venv
  /venv/bin/python -m venv .venv
  PIP_NO_INDEX=1 .venv/bin/pip install -q --no-index --find-links /opt/veriftools/wheels z3-solver cvc5 jsonschema
fi
.venv/bin/python -c "import z3; print('z3', z3.get_version_string())"
